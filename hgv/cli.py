"""hgv check <property> --tier quick|thorough

Exit codes (DESIGN §3.1): 0 all obligations discharged; 1 some obligation refuted (VIOLATION line);
2 undecided (unknown / timeout / out of reach); 3 checker failure (crash, lost coverage, vacuity).
"""

import argparse
import json
import multiprocessing as mp
import os
import sys
import time
import traceback

from . import REPO, VERIF

PROPS = ["C01", "C02", "C03", "C04", "C05", "C06", "C07", "C08", "C09", "C10", "C11", "C12", "C13", "C15", "C16", "C17"]


FALLBACK_CLAUSES = {
    "C03": ["bounded:numpy-equals-rowwise"],
    "C01": ["ensures:view", "ensures:iN-accessors-alias-values"],
    "C02": ["ensures:view"],
    "C04": ["ensures:reserialises-identically", "ensures:wf"],
    "C05": ["ensures:bk"],
    "C06": ["ensures:fresh", "ensures:frame", "ensures:no-internal-sharing"],
    "C07": ["ensures:view", "ensures:no-adoption", "ensures:other-unchanged", "ensures:same-object", "ensures:fill-and-plot-still-bound-to-self"],
    "C08": ["ensures:view", "ensures:wf", "ensures:iN-accessors-alias-values"],
    "C09": ["ensures:sound", "ensures:complete", "ensures:no-raise"],
    "C10": ["raises:frame", "ensures:compatible-params", "ensures:compatible-children", "ensures:rejects-foreign"],
    "C12": ["raises:rollback"],
    "C15": ["ensures:valid"],
}


def _worker(args):
    task, prop, tier = args
    t0 = time.time()
    out = {"task": list(task), "records": [], "functions": [], "out_of_reach": [], "crash": None, "covers": []}
    try:
        from . import core, smt
        from .frontend import Program

        P = Program()
        kind = task[0]
        if kind == "method":
            from . import tasks

            try:
                cxs = tasks.run_method_task(P, task[1], task[2], *(task[3:4]))
            except core.Unsupported as e:
                fi = P.lookup_method(task[1], {"zero": "zero", "add": "__add__", "iadd": "__iadd__", "mul": "__mul__", "rmul": "__rmul__", "fill": "fill", "fill-rollback": "fill", "eq": "__eq__", "ne": "__ne__", "copy": "copy"}[task[2]])
                out["out_of_reach"].append({"function": fi.qualname if fi else str(task), "reason": str(e)})
                cxs = []
            for cx in cxs:
                d = cx.fi.describe()
                d["variant"] = cx.variant
                d["paths"] = cx.X.stats["paths"]
                d["vcs"] = 0
                for cl in cx.clauses:
                    if prop not in cl.props:
                        continue
                    d["vcs"] += 1
                    smt.discharge(cl.vc, tier, want_model=getattr(cl.vc, "inputs", None))
                    rec = {
                        "obligation": cl.name(prop),
                        "function": cl.fn,
                        "clause": cl.clause,
                        "path": cl.path,
                        "variant": cl.variant,
                        "verdict": cl.vc.verdict,
                        "backend": cl.vc.backend,
                        "seconds": round(cl.vc.seconds, 4),
                        "hyps": len(cl.vc.hyps),
                        "instances": cl.vc.n_instances,
                        "reason": cl.vc.reason,
                    }
                    if getattr(cl.vc, "cross", None) is not None:
                        rec["cross"] = cl.vc.cross
                        rec["cross_seconds"] = cl.vc.cross_seconds
                    if cl.vc.verdict == "sat":
                        rec["model"] = getattr(cl.vc, "model_values", {})
                        try:
                            rec["model_text"] = str(cl.vc.model)[:4000]
                        except Exception:
                            rec["model_text"] = ""
                    out["records"].append(rec)
                out["functions"].append(d)
        else:
            from . import extra

            extra.run_task(P, task, prop, tier, out)
    except Exception:
        out["crash"] = traceback.format_exc()
    out["seconds"] = round(time.time() - t0, 2)
    return out


def tasks_for(prop, tier):
    from . import extra, tasks

    ts = tasks.method_tasks(prop)
    ts += extra.tasks_for(prop, tier)
    return ts


def load_known():
    p = os.path.join(VERIF, "known_findings.json")
    if not os.path.exists(p):
        return {"findings": []}
    with open(p) as f:
        return json.load(f)


def match_known(rec, known, prop):
    for k in known.get("findings", []):
        if k.get("status") != "known" or k.get("property") != prop:
            continue
        if k["obligation"] != rec["obligation"]:
            continue
        m = k.get("match", {})
        if "variant" in m and m["variant"] != rec["variant"]:
            continue
        if "path_contains" in m and m["path_contains"] not in rec["path"]:
            continue
        if "model" in m and any(str(rec.get("model", {}).get(kk)) != str(vv) for kk, vv in m["model"].items()):
            continue
        return k
    return None


def main(argv=None):
    ap = argparse.ArgumentParser(prog="hgv")
    sub = ap.add_subparsers(dest="cmd", required=True)
    c = sub.add_parser("check")
    c.add_argument("prop")
    c.add_argument("--tier", default=os.environ.get("VERIF_TIER", "quick"))
    c.add_argument("--jobs", type=int, default=int(os.environ.get("HGV_JOBS", "16")))
    c.add_argument("--no-evidence", action="store_true")
    sub.add_parser("selftest")
    b = sub.add_parser("baseline")
    b.add_argument("--jobs", type=int, default=16)
    b.add_argument("--only", default="", help="comma separated property ids: regenerate only these, keep the others")
    args = ap.parse_args(argv)
    if args.cmd == "check":
        return check(args.prop, args.tier, args.jobs, not args.no_evidence)
    if args.cmd == "baseline":
        return baseline(args.jobs, [p for p in args.only.split(",") if p])
    if args.cmd == "selftest":
        from . import selftest

        return selftest.main()


def run_all(prop, tier, jobs):
    ts = tasks_for(prop, tier)
    t0 = time.time()
    if jobs <= 1:
        results = [_worker((t, prop, tier)) for t in ts]
    else:
        ctx = mp.get_context("spawn")
        with ctx.Pool(min(jobs, max(1, len(ts)))) as pool:
            results = pool.map(_worker, [(t, prop, tier) for t in ts], chunksize=1)
    return ts, results, time.time() - t0


def check(prop, tier, jobs, write_evidence=True):
    from . import evidence, replay

    seed = int(os.environ.get("VERIF_SEED", "0"))
    t0 = time.time()
    try:
        ts, results, wall = run_all(prop, tier, jobs)
    except Exception:
        traceback.print_exc()
        print(f"CHECKER-FAILURE property={prop}")
        return 3
    known = load_known()
    crashes = [r for r in results if r["crash"]]
    oor = [o for r in results for o in r["out_of_reach"]]
    recs = [rec for r in results for rec in r["records"]]
    obligations = {}
    bounded_obs = {}
    for rec in recs:
        (bounded_obs if rec.get("bounded") else obligations).setdefault(rec["obligation"], []).append(rec)
    violations, undecided, known_hits = [], [], []
    discharged = 0
    for name, rs in sorted(obligations.items()):
        bad = [r for r in rs if r["verdict"] != "unsat"]
        if not bad:
            discharged += 1
            continue
        sat = [r for r in bad if r["verdict"] == "sat"]
        unk = [r for r in bad if r["verdict"] != "sat"]
        unmatched = []
        hits = []
        for r in sat:
            k = match_known(r, known, prop)
            if k is None:
                unmatched.append(r)
            else:
                hits.append((k, r))
        if unmatched:
            violations.append((name, unmatched))
        elif unk:
            undecided.append((name, unk))
        if hits and not unmatched:
            known_hits.append((name, hits))
    for name, rs in sorted(bounded_obs.items()):
        bad = [r for r in rs if r["verdict"] != "unsat"]
        if bad and not all(match_known(r, known, prop) for r in bad):
            violations.append((name, bad))
        elif bad:
            known_hits.append((name, [(match_known(r, known, prop), r) for r in bad]))
    code = 0
    for name, hits in known_hits:
        k = hits[0][0]
        print(f"KNOWN-FINDING: property={prop} {name} {k.get('summary', '')}")
    baseline_info = evidence.load_baseline()
    lost = evidence.lost_coverage(prop, {**obligations, **bounded_obs}, baseline_info) if not oor and not crashes else []
    for name, rs in violations:
        path = replay.make_replay(prop, name, rs, baseline_info)
        suffix = "" if path.endswith(".py") else " no-failing-input-found"
        print(f"VIOLATION property={prop} replay={path}{suffix}")
        code = 1
    for name, rs in undecided:
        print(f"UNDECIDED obligation={name} ({rs[0]['verdict']}: {rs[0].get('reason')})")
    for o in oor:
        print(f"OUT-OF-REACH function={o['function']} reason={o['reason']}")
    # a function outside the executor's reach: bounded native search with the same clauses (DESIGN §3.1);
    # a failing concrete input found there is a violation, otherwise the property stays undecided
    seen_fn = set()
    for o in oor:
        fn = o["function"].split(" ")[0]
        if fn in seen_fn:
            continue
        seen_fn.add(fn)
        for clause in FALLBACK_CLAUSES.get(prop, []):
            name = f"{prop}/{fn}/{clause}"
            rec = {"obligation": name, "path": "out-of-reach", "variant": "native-fallback", "verdict": "out-of-reach", "model": {"reason": o["reason"]}}
            path = replay.make_replay(prop, name, [rec], baseline_info)
            if path.endswith(".py"):
                print(f"VIOLATION property={prop} replay={path}")
                violations.append((name, [rec]))
                code = 1
    if code == 0 and (undecided or oor):
        code = 2
    if crashes:
        for r in crashes:
            print(f"CHECKER-FAILURE task={r['task']}\n{r['crash']}", file=sys.stderr)
        code = 3 if code == 0 else code
    if code == 0 and lost:
        for name in lost:
            print(f"CHECKER-FAILURE lost-coverage obligation={name}")
        code = 3
    seed_matrix = None
    if tier == "thorough" and code == 0 and os.environ.get("HGV_SEEDS", "1") == "1" and REPO == "/repo":
        seed_matrix = run_seed_matrix(prop, jobs)
        for e in seed_matrix["entries"]:
            if e["result"] == "not-detected":
                print(f"CHECKER-FAILURE seeded change {e['seed']} is no longer detected by {prop} (exit {e['exit']})")
                code = 3
    n_ob = len(obligations) - len([1 for n, _ in known_hits if n in obligations])
    if code == 0 and n_ob <= 0:
        print(f"CHECKER-FAILURE property={prop}: zero obligations generated")
        code = 3
    if write_evidence:
        evidence.write(
            prop,
            tier,
            seed,
            results,
            obligations,
            discharged,
            known_hits,
            violations,
            undecided,
            oor,
            time.time() - t0,
            seed_matrix=seed_matrix,
        )
    print(
        f"[hgv] property={prop} tier={tier} obligations={len(obligations)} discharged={discharged} "
        f"known-findings={len(known_hits)} violations={len(violations)} undecided={len(undecided)} "
        f"out-of-reach={len(oor)} vcs={len(recs)} wall={time.time() - t0:.1f}s exit={code}"
    )
    return code


def run_seed_matrix(prop, jobs):
    """thorough tier: the kept seeded changes (/verif/seeded/*/patch.diff) that this property's check is recorded
    to catch are re-applied to a scratch copy of the current tree; the check must exit 1 on each.  A patch that
    no longer applies is skipped (recorded).  Bounded by HGV_SEED_BUDGET seconds (default 2400)."""
    import glob
    import shutil
    import subprocess
    import tempfile

    budget = float(os.environ.get("HGV_SEED_BUDGET", "2400"))
    t0 = time.time()
    entries = []
    for meta_path in sorted(glob.glob(os.path.join(VERIF, "seeded", "*", "meta.json"))):
        d = os.path.dirname(meta_path)
        try:
            with open(meta_path) as f:
                meta = json.load(f)
        except Exception:
            continue
        if not meta.get("detected") or not any(str(c).split(":")[0].strip() == prop for c in meta.get("caught_by", [])):
            continue
        name = os.path.basename(d)
        if time.time() - t0 > budget:
            entries.append({"seed": name, "result": "skipped: time budget"})
            continue
        w = tempfile.mkdtemp(prefix="hgv_seed_")
        try:
            shutil.copytree(os.path.join(REPO, "histogrammar"), os.path.join(w, "histogrammar"))
            p = subprocess.run(["patch", "-p1", "-s", "-i", os.path.join(d, "patch.diff")], cwd=w, capture_output=True, text=True)
            if p.returncode != 0:
                entries.append({"seed": name, "result": "skipped: patch no longer applies"})
                continue
            t1 = time.time()
            env = {**os.environ, "HGV_REPO": w, "HGV_SEEDS": "0"}
            cmd = [sys.executable, "-m", "hgv", "check", prop, "--tier", "quick", "--no-evidence", "--jobs", str(jobs)]
            q = subprocess.run(cmd, cwd=VERIF, env=env, capture_output=True, text=True)
            viol = [l for l in q.stdout.splitlines() if l.startswith("VIOLATION")]
            if not (q.returncode == 1 and viol):
                # once more before calling it a regression of the checker (solver time-outs under load)
                q = subprocess.run(cmd, cwd=VERIF, env=env, capture_output=True, text=True)
                viol = [l for l in q.stdout.splitlines() if l.startswith("VIOLATION")]
            entries.append(
                {
                    "seed": name,
                    "result": "detected" if q.returncode == 1 and viol else "not-detected",
                    "exit": q.returncode,
                    "violations": [v.split("replay=")[-1].replace(os.path.join(VERIF, "replays") + "/", "") for v in viol][:4],
                    "seconds": round(time.time() - t1, 1),
                }
            )
        finally:
            shutil.rmtree(w, ignore_errors=True)
    return {"entries": entries, "detected": sum(1 for e in entries if e["result"] == "detected"), "total": len(entries), "seconds": round(time.time() - t0, 1)}


def baseline(jobs, only=()):
    from . import evidence

    data = evidence.load_baseline() if only else {}
    for prop in only or PROPS:
        ts, results, wall = run_all(prop, "quick", jobs)
        obs = {}
        for r in results:
            for rec in r["records"]:
                obs.setdefault(rec["obligation"], set()).add(rec["verdict"])
        data[prop] = {k: ("unsat" if v == {"unsat"} else "/".join(sorted(v))) for k, v in sorted(obs.items())}
        print(prop, len(data[prop]), f"{wall:.1f}s")
    evidence.save_baseline(data)
    return 0


if __name__ == "__main__":
    sys.exit(main())
