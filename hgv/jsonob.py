"""C04 / C15: JSON obligations.

C04 (per class K): composed symbolic execution rt_K := K.fromJsonFragment(K.toJsonFragment(obj, s), n)
on a symbolic wf object: the fragment is strict, the reload is accepted, has the same view and names,
and re-serialises to the same fragment; toJsonFragment leaves the heap unchanged.  Children's fragments
are abstract (enc / dec with the interface law L-rt as induction hypothesis).
C15 (per class K): K.fromJsonFragment on a fully symbolic JSON value: a normal return implies the
document is valid (exact key set, field types, non-negative entries, well-formed elements) and the
result is faithful to it.
"""

import z3

from . import core, models, schema, smt
from . import jsonmodel as JM
from .contracts import BENIGN_FIELDS, eq_views, frame_goal, view_of, wf_goal
from .core import NONE, CDict, CList, Inst, LDict, LList, State, Unsupported, VBool, VChild, VFl, VInt, VIte, VJson, VNone, VObj, VStr, VTuple, vite
from .execu import Exec
from .extra import add_function, record
from .frontend import PRIMITIVES
from .sv import comp_of, content_eq

import sys, os
sys.path.insert(0, os.path.dirname(os.path.dirname(os.path.abspath(__file__))))
from spec import specs  # noqa: E402
from spec import jsonspec  # noqa: E402


# functions outside the symbolic executor's reach: covered by bounded native stand-ins (nativeob.py)
JSON_STANDIN = {
    ("rt", "Bag"): "Bag.toJsonFragment sorts the item list with a filter and a custom key",
    ("c15", "Bag"): "Bag.fromJsonFragment builds keys in nested loops over heterogeneous values",
}


def tasks_for(prop, tier):
    ts = []
    if prop == "C04":
        ts += [("json", "rt", K, s) for K in PRIMITIVES for s in (False, True) if ("rt", K) not in JSON_STANDIN]
        ts += [("json", "rt", "Categorize", s, "bool-keys") for s in (False, True)]
        ts += [("json", "header")]
    if prop == "C15":
        ts += [("json", "c15", K) for K in PRIMITIVES if ("c15", K) not in JSON_STANDIN]
        ts += [("json", "fromJson"), ("json", "hasKeys")]
    if prop == "C16":
        ts += [("json", "rt", K, s) for K in ("SparselyBin", "CentrallyBin", "Categorize") for s in (False, True)]
    if prop == "C06":
        ts += [("json", "tojson-frame", K) for K in PRIMITIVES if ("rt", K) not in JSON_STANDIN]
    return ts


def quantity_name(st, v):
    o = st.obj(v)
    q = o.fields.get("quantity")
    if q is None:
        return NONE
    return st.obj(q).fields.get("name", NONE)


def strict_goal(X, st, frag):
    """every number in the fragment is finite (non-finite values are emitted as strings); keys are strings"""
    gs = []

    def walk(v):
        if isinstance(v, VFl):
            gs.append(v.fl.isfin())
        elif isinstance(v, VIte):
            # each alternative must be strict under its own condition
            for c, x in ((v.c, v.a), (z3.Not(v.c), v.b)):
                n0 = len(gs)
                walk(x)
                for i in range(n0, len(gs)):
                    gs[i] = z3.Implies(c, gs[i])
        elif isinstance(v, (VTuple,)):
            for x in v.items:
                walk(x)
        elif isinstance(v, core.VRec):
            for x in v.items.values():
                walk(x)
        elif isinstance(v, VObj):
            o = st.obj(v)
            if isinstance(o, CDict):
                for k, x in o.items.items():
                    if not isinstance(k, str):
                        gs.append(z3.BoolVal(False))
                    walk(x)
            elif isinstance(o, CList):
                for x in o.items:
                    walk(x)
            elif isinstance(o, (LList, LDict)):
                c = comp_of(st, v)
                k = z3.Const(f"strict!{core.uid()}", c.ksort)
                sub = []
                val = o.get(k) if isinstance(o, LList) else o.val(k)
                n0 = len(gs)
                walk(val)
                body = z3.And(gs[n0:]) if len(gs) > n0 else z3.BoolVal(True)
                del gs[n0:]
                gs.append(st.forall(k, c.dom(k), body, equiv=True, name="strict"))
            else:
                gs.append(z3.BoolVal(False))
        elif isinstance(v, (VStr, VJson, VNone, VBool, VInt)):
            pass  # child fragments (VJson = enc(view)) are strict by the children's contract
        else:
            gs.append(z3.BoolVal(False))

    walk(frag)
    return z3.And(gs) if gs else z3.BoolVal(True)


def run_task(P, task, prop, tier, out):
    kind = task[1]
    if kind == "rt":
        return rt_task(P, task[2], task[3], prop, tier, out, task[4] if len(task) > 4 else "live")
    if kind == "tojson-frame":
        return tojson_frame(P, task[2], prop, tier, out)
    if kind == "c15":
        return c15_task(P, task[2], prop, tier, out)
    if kind == "header":
        return header_task(P, prop, tier, out)
    if kind == "fromJson":
        return fromjson_task(P, prop, tier, out)
    if kind == "hasKeys":
        return haskeys_task(P, prop, tier, out)
    raise ValueError(task)


def tojson_frame(P, K, prop, tier, out):
    fi = P.lookup_method(K, "toJsonFragment")
    for sup in (False, True):
        X = Exec(P, models.std_hooks())
        st = State()
        selfv = schema.make_instance(st, K, 1)
        pre = st.fork()
        try:
            res = X.run(st, fi, [selfv, VBool(sup)])
        except Unsupported as e:
            out["out_of_reach"].append({"function": fi.qualname, "reason": str(e)})
            return
        add_function(out, fi, f"suppress={sup}", paths=len(res))
        for i, r in enumerate(res):
            s = r.st.fork()
            vc = smt.build_vc("json", s, frame_goal(s, pre))
            record(out, prop, fi.qualname, "ensures:frame", f"s{int(sup)}:p{i}", "live", vc, tier)
        # reloading the fragment: the document, every object that existed before and the module-level default
        # functions all aggregators share are unchanged; the reloaded container owns a quantity of its own
        from_fi = P.lookup_method(K, "fromJsonFragment")
        npaths = 0
        for i, r in enumerate(res):
            if r.exc is not None:
                continue
            mid = r.st.fork()
            nm = quantity_name(pre, selfv) if sup else NONE
            try:
                r2 = X.run(r.st, from_fi, [r.v, nm])
            except Unsupported as e:
                out["out_of_reach"].append({"function": from_fi.qualname, "reason": str(e)})
                break
            npaths += len(r2)
            for j, b in enumerate(r2):
                if b.exc is not None:
                    continue  # acceptance of the own output is C04's clause
                pj = f"s{int(sup)}:p{i}.{j}"
                s3 = b.st.fork()
                vc = smt.build_vc("json", s3, frame_goal(s3, mid))
                record(out, prop, from_fi.qualname, "ensures:frame", pj, "live", vc, tier)
                q = b.st.obj(b.v).fields.get("quantity") if isinstance(b.v, VObj) and isinstance(b.st.obj(b.v), Inst) else None
                own = q is None or not isinstance(q, VObj) or (q.oid in b.st.new_oids and q.oid not in mid.heap)
                vc = smt.build_vc("json", b.st.fork(), z3.BoolVal(bool(own)))
                record(out, prop, from_fi.qualname, "ensures:fresh-quantity", pj, "live", vc, tier)
        if npaths:
            add_function(out, from_fi, f"reload suppress={sup}", paths=npaths)


def rt_task(P, K, sup, prop, tier, out, variant="live"):
    if prop == "C16":
        return rt_template_task(P, K, sup, prop, tier, out)
    to_fi = P.lookup_method(K, "toJsonFragment")
    from_fi = P.lookup_method(K, "fromJsonFragment")
    X = Exec(P, models.std_hooks())
    st = State()
    opts = {}
    if K == "Categorize":
        # str(key) is injective on string categories; bool categories (True/False) are serialised as
        # the strings "True"/"False" and come back as strings: separate variant
        opts["catkeys"] = "strbool" if variant == "bool-keys" else "str"
    selfv = schema.make_instance(st, K, 1, opts=opts)
    pre = st.fork()
    tag = f"s{int(sup)}"
    inputs = {}
    bins = st.obj(selfv).fields.get("bins")
    if isinstance(bins, VObj) and isinstance(st.obj(bins), LDict):
        inputs["bins.len"] = st.obj(bins).length()

    def rec(fn, clause, path, vc):
        vc.inputs = inputs
        record(out, prop, fn, clause, path, variant, vc, tier)

    try:
        r1 = X.run(st, to_fi, [selfv, VBool(sup)])
    except Unsupported as e:
        out["out_of_reach"].append({"function": to_fi.qualname, "reason": str(e)})
        return
    add_function(out, to_fi, f"suppress={sup}", paths=len(r1))
    npaths = 0
    for i, a in enumerate(r1):
        p = f"{tag}:p{i}"
        if a.exc is not None:
            vc = smt.build_vc("json", a.st.fork(), z3.BoolVal(False))
            record(out, prop, to_fi.qualname, "ensures:no-raise", p + f":{a.exc.cls}", variant, vc, tier)
            continue
        s = a.st
        frag = a.v
        s2 = s.fork()
        vc = smt.build_vc("json", s2, strict_goal(X, s2, frag))
        record(out, prop, to_fi.qualname, "ensures:strict", p, variant, vc, tier)
        s2 = s.fork()
        vc = smt.build_vc("json", s2, frame_goal(s2, pre))
        record(out, prop, to_fi.qualname, "ensures:frame", p, variant, vc, tier)
        # reload.  nameFromParent: the parent passes the child's own name when the name was suppressed
        nm = quantity_name(pre, selfv) if sup else NONE
        mid = s.fork()
        try:
            r2 = X.run(s, from_fi, [frag, nm])
        except Unsupported as e:
            out["out_of_reach"].append({"function": from_fi.qualname, "reason": str(e)})
            return
        npaths += len(r2)
        for j, b in enumerate(r2):
            pj = f"{p}.{j}"
            if b.exc is not None:
                vc = smt.build_vc("json", b.st.fork(), z3.BoolVal(False))
                record(out, prop, from_fi.qualname, "ensures:accepts-own-output", pj + f":{b.exc.cls}@{b.exc.origin}", variant, vc, tier)
                continue
            sb = b.st
            res = b.v
            s3 = sb.fork()
            vc = smt.build_vc("json", s3, rt_view_goal(s3, K, pre, selfv, res))
            record(out, prop, from_fi.qualname, "ensures:roundtrip-view", pj, variant, vc, tier)
            s3 = sb.fork()
            vc = smt.build_vc("json", s3, rt_name_goal(s3, K, pre, selfv, res))
            record(out, prop, from_fi.qualname, "ensures:roundtrip-names", pj, variant, vc, tier)
            s3 = sb.fork()
            vc = smt.build_vc("json", s3, wf_reloaded_goal(s3, K, res))
            record(out, prop, from_fi.qualname, "ensures:wf", pj, variant, vc, tier)
            # re-serialise the reloaded container: identical fragment
            try:
                r3 = X.run(sb, to_fi, [res, VBool(sup)])
            except Unsupported as e:
                out["out_of_reach"].append({"function": to_fi.qualname + " (reloaded)", "reason": str(e)})
                continue
            for k, c in enumerate(r3):
                pk = f"{pj}.{k}"
                if c.exc is not None:
                    vc = smt.build_vc("json", c.st.fork(), z3.BoolVal(False))
                    record(out, prop, to_fi.qualname, "ensures:reloaded-serialises", pk + f":{c.exc.cls}", "reloaded", vc, tier)
                    continue
                s4 = c.st.fork()
                goal = content_eq(s4, comp_of(s4, c.v), comp_of(s4, frag), "refrag")
                vc = smt.build_vc("json", s4, goal)
                rec(to_fi.qualname, "ensures:reserialises-identically", pk, vc)
    add_function(out, from_fi, f"rt suppress={sup}", paths=npaths)


def rt_template_task(P, K, sup, prop, tier, out):
    """C16: the container rebuilt by fromJsonFragment / ed keeps the invariant the cross-reference walk relies on
    (contracts.template_goal): the template it skips is not one of the reloaded bins"""
    from .contracts import template_goal

    to_fi = P.lookup_method(K, "toJsonFragment")
    from_fi = P.lookup_method(K, "fromJsonFragment")
    X = Exec(P, models.std_hooks())
    st = State()
    selfv = schema.make_instance(st, K, 1, opts={"catkeys": "str"} if K == "Categorize" else {})
    pre = st.fork()
    try:
        r1 = X.run(st, to_fi, [selfv, VBool(sup)])
    except Unsupported as e:
        out["out_of_reach"].append({"function": to_fi.qualname, "reason": str(e)})
        return
    npaths = 0
    for i, a in enumerate(r1):
        if a.exc is not None:
            continue
        nm = quantity_name(pre, selfv) if sup else NONE
        try:
            r2 = X.run(a.st, from_fi, [a.v, nm])
        except Unsupported as e:
            out["out_of_reach"].append({"function": from_fi.qualname, "reason": str(e)})
            return
        npaths += len(r2)
        for j, b in enumerate(r2):
            if b.exc is not None:
                continue
            s3 = b.st.fork()
            vc = smt.build_vc("json", s3, template_goal(s3, K, b.v))
            record(out, prop, from_fi.qualname, "ensures:template-not-a-fill-slot", f"s{int(sup)}:p{i}.{j}", "live", vc, tier)
    add_function(out, from_fi, f"rt suppress={sup}", paths=npaths)


def rt_view_goal(st, K, pre, selfv, res):
    if not isinstance(res, VObj) or not isinstance(st.obj(res), Inst) or st.obj(res).cls != K:
        return z3.BoolVal(False)
    return eq_views(st, K, view_of(st, res, K), view_of(pre, selfv, K), name="rt")


def rt_name_goal(st, K, pre, selfv, res):
    if not isinstance(res, VObj):
        return z3.BoolVal(False)
    if K in ("Count", "Label", "UntypedLabel", "Index", "Branch"):
        return z3.BoolVal(True)
    a = comp_of(pre, quantity_name(pre, selfv))
    b = comp_of(st, quantity_name(st, res))
    return content_eq(st, a, b, "rt-name")


def wf_reloaded_goal(st, K, res):
    return wf_goal(st, K, res)


def header_task(P, prop, tier, out):
    """toJson emits {type, data, version}; fromJson dispatches on the registered factory"""
    fi = P.function("histogrammar.defs.Container.toJson")
    add_function(out, fi, "header")
    X = Exec(P, models.std_hooks(call_models={**models.STD_MODELS}))
    for K in ("Count", "Sum", "Bin"):
        st = State()
        selfv = schema.make_instance(st, K, 1)
        st.frames = [{"%module": "histogrammar.defs"}]
        try:
            res = X.call_function(st, fi, [selfv], {})
        except Unsupported as e:
            out["out_of_reach"].append({"function": fi.qualname, "reason": str(e)})
            return
        for i, r in enumerate(res):
            ok = z3.BoolVal(False)
            if r.exc is None and isinstance(r.v, VObj) and isinstance(r.st.obj(r.v), CDict):
                d = r.st.obj(r.v).items
                if set(d) == {"type", "data", "version"} and isinstance(d["type"], VStr):
                    ok = d["type"].t == core.strlit(K)
            vc = smt.build_vc("json", r.st.fork(), ok)
            record(out, prop, fi.qualname, "ensures:header", f"{K}:p{i}", "live", vc, tier)


def c15_task(P, K, prop, tier, out):
    from_fi = P.lookup_method(K, "fromJsonFragment")
    X = Exec(P, models.std_hooks())
    st = State()
    j = z3.Const("doc", core.Json)
    JM.tag_facts(st, j)
    hn = z3.Bool("parent.hasname")
    nm = vite(hn, VStr(z3.Const("parent.name", core.StrS)), NONE)
    try:
        res = X.run(st, from_fi, [VJson(j), nm])
    except Unsupported as e:
        out["out_of_reach"].append({"function": from_fi.qualname, "reason": str(e)})
        return
    add_function(out, from_fi, "symbolic-json", paths=len(res))
    for i, r in enumerate(res):
        if r.exc is not None:
            continue  # any exception is a rejection
        p = f"p{i}"
        for cname_, goal_fn in jsonspec.valid_clauses(K, j):
            s = r.st.fork()
            vc = smt.build_vc("json", s, goal_fn(s))
            record(out, prop, from_fi.qualname, "ensures:valid:" + cname_, p, "symbolic-json", vc, tier)
        s = r.st.fork()
        vc = smt.build_vc("json", s, jsonspec.faithful(s, K, j, r.v, view_of(s, r.v, K) if isinstance(r.v, VObj) else None))
        record(out, prop, from_fi.qualname, "ensures:faithful", p, "symbolic-json", vc, tier)


def fromjson_task(P, prop, tier, out):
    """Factory.fromJson: returns normally only for {type, data, version} with a string version accepted by
    version.compatible, a registered string type, and a fragment accepted by that factory"""
    fi = P.function("histogrammar.defs.Factory.fromJson")
    add_function(out, fi, "symbolic-json")
    X = Exec(P, models.std_hooks())
    st = State()
    j = z3.Const("doc", core.Json)
    JM.tag_facts(st, j)
    st.add(JM.jtag(j) != JM.STR)  # the string form goes through json.loads (assumed)
    st.frames = [{"%module": "histogrammar.defs"}]
    try:
        res = X.call_function(st, fi, [VJson(j)], {})
    except Unsupported as e:
        out["out_of_reach"].append({"function": fi.qualname, "reason": str(e)})
        return
    T = core.strlit
    for i, r in enumerate(res):
        if r.exc is not None:
            continue
        s = r.st.fork()
        goal = z3.And(
            JM.jtag(j) == JM.OBJ,
            JM.jhas(j, T("type")),
            JM.jhas(j, T("data")),
            JM.jhas(j, T("version")),
            JM.jtag(JM.jget(j, T("type"))) == JM.STR,
            JM.jtag(JM.jget(j, T("version"))) == JM.STR,
            JM.validJ(JM.jstr(JM.jget(j, T("type"))), JM.jget(j, T("data"))),
            z3.Or([JM.jstr(JM.jget(j, T("type"))) == T(c) for c in PRIMITIVES]),
            z3.Function("version_compatible", core.StrS, z3.BoolSort())(JM.jstr(JM.jget(j, T("version")))),
        )
        k = z3.Const(f"hk!{core.uid()}", core.StrS)
        goal = z3.And(goal, s.forall(k, JM.jhas(j, k), z3.Or(k == T("type"), k == T("data"), k == T("version")), equiv=True, name="header-keys"))
        vc = smt.build_vc("json", s, goal)
        record(out, prop, fi.qualname, "ensures:valid-header", f"p{i}", "symbolic-json", vc, tier)


def haskeys_task(P, prop, tier, out):
    """util.hasKeys(test, required, optional): True iff required <= test <= required | optional; its
    arguments and its shared default argument (optional=set()) are left unchanged"""
    from .core import CSet, LSet

    fi = P.function("histogrammar.util.hasKeys")
    add_function(out, fi, "symbolic key set")
    for variant in ("default-optional", "explicit-optional"):
        X = Exec(P, models.std_hooks())
        st = State()
        j = z3.Const("doc", core.Json)
        member = lambda x: z3.And(core.Key.is_KStr(x), JM.jhas(j, core.Key.ks(x)))
        test = st.alloc(LSet(member), new=False)
        required = st.alloc(CList([VStr("entries"), VStr("data")]), new=False)
        args = [test, required]
        opt_keys = []
        if variant == "explicit-optional":
            args.append(st.alloc(CList([VStr("name")]), new=False))
            opt_keys = ["name"]
        pre = st.fork()
        st.frames = [{"%module": "histogrammar.util"}]
        try:
            res = X.call_function(st, fi, args, {})
        except Unsupported as e:
            out["out_of_reach"].append({"function": fi.qualname, "reason": str(e)})
            return
        T = core.strlit
        for i, r in enumerate(res):
            p = f"{variant}:p{i}"
            if r.exc is not None:
                vc = smt.build_vc("json", r.st.fork(), z3.BoolVal(False))
                record(out, prop, fi.qualname, "ensures:no-raise", p, variant, vc, tier)
                continue
            s = r.st.fork()
            k = z3.Const(f"hk!{core.uid()}", core.StrS)
            allowed = ["entries", "data"] + opt_keys
            spec = z3.And(
                JM.jhas(j, T("entries")),
                JM.jhas(j, T("data")),
                s.forall(k, JM.jhas(j, k), z3.Or([k == T(a) for a in allowed]), equiv=True, name="haskeys-spec"),
            )
            vc = smt.build_vc("json", s, X.truth(s, r.v) == spec)
            record(out, prop, fi.qualname, "ensures:result-iff-exact-key-set", p, variant, vc, tier)
            # frame: every object that existed before the call (arguments, and the default-argument set that
            # all calls share) is the same object with the same content
            same = all(r.st.heap.get(oid) is o for oid, o in pre.heap.items() if oid != "__globals__")
            defaults_ok = all(not (isinstance(o, CSet) and oid not in pre.heap and oid not in r.st.new_oids and len(o.items) > 0) for oid, o in r.st.heap.items() if oid != "__globals__")
            vc = smt.build_vc("json", r.st.fork(), z3.BoolVal(bool(same and defaults_ok)))
            record(out, prop, fi.qualname, "ensures:arguments-and-defaults-unchanged", p, variant, vc, tier)
