"""HGV - contract-based deductive verification of histogrammar-python.

A verification-condition generator (symbolic executor over the real Python AST of
/repo/histogrammar) with sidecar contracts, discharging ground VCs with z3 / cvc5.
See /verif/DESIGN.md.
"""

import os

REPO = os.environ.get("HGV_REPO", "/repo")
VERIF = os.path.dirname(os.path.dirname(os.path.abspath(__file__)))
