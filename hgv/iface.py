"""The Container interface contract (DESIGN §2.4) applied to abstract children.

A child of unknown class is a Ref term; its aggregated content is View = state.view(ref).
Every interface method call on a child is replaced by the *contract* of that method:
fork the `raises` clause, allocate the result, assume `ensures`, and add the ground
instances of the interface laws (induction hypothesis) about the new View terms.
"""

import z3

from . import core
from .core import NONE, Unsupported, VBool, VBuiltin, VChild, VFl, VInt, VNone, VObj, VOpq, VStr, VJson, vite
from .fl import Fl


def Res(st, v=None, exc=None):
    from .execu import Res as R

    return R(st, v, exc)


class Iface:
    def __init__(self, X):
        self.X = X

    # ---- lemma instances (induction hypothesis) about a view term
    def facts_view(self, st, v):
        st.add(core.E(v) >= 0)

    def facts_plus(self, st, a, b, r):
        st.add(
            core.E(r) == core.E(a) + core.E(b),
            core.SH(r) == core.SH(a),
            core.zk(r) == core.zk(a),
            z3.Implies(z3.And(core.wfv(a), core.wfv(b)), core.wfv(r)),
            z3.Implies(z3.And(core.bkv(a), core.bkv(b)), core.bkv(r)),
            core.has_quantity(r) == core.has_quantity(a),
            core.has_qname(r) == core.has_qname(a),
            core.qname(r) == core.qname(a),
        )

    def facts_zero(self, st, a, r):
        st.add(
            core.E(r) == 0,
            core.SH(r) == core.SH(a),
            core.zk(r) == core.zk(a),
            core.wfv(r),
            core.bkv(r),
            core.has_quantity(r) == core.has_quantity(a),
            core.has_qname(r) == core.has_qname(a),
            core.qname(r) == core.qname(a),
        )

    def facts_scale(self, st, a, f, r):
        st.add(
            core.E(r) == f * core.E(a),
            core.SH(r) == core.SH(a),
            core.zk(r) == core.zk(a),
            z3.Implies(core.wfv(a), core.wfv(r)),
            z3.Implies(core.bkv(a), core.bkv(r)),
            core.has_quantity(r) == core.has_quantity(a),
            core.has_qname(r) == core.has_qname(a),
            core.qname(r) == core.qname(a),
        )

    def facts_fill(self, st, a, d, w, r):
        st.add(
            core.E(r) == core.E(a) + w,
            core.SH(r) == core.SH(a),
            core.zk(r) == core.zk(a),
            z3.Implies(core.wfv(a), core.wfv(r)),
            z3.Implies(core.bkv(a), core.bkv(r)),
            core.has_quantity(r) == core.has_quantity(a),
            core.has_qname(r) == core.has_qname(a),
            core.qname(r) == core.qname(a),
        )

    def new_child(self, st, view):
        ref = st.new_ref()
        st.set_view(ref, view)
        return VChild(ref)

    # ---- attribute reads on a child
    def getattr(self, st, ch, name):
        v = st.view(ch.ref)
        if name == "entries":
            self.facts_view(st, v)
            return [Res(st, VFl(Fl.fin(core.E(v))))]
        if name == "name":
            return [Res(st, VStr(core.cname(core.SH(v))))]
        if name == "range":
            out = []
            for s, isbag in self.X.branch(st, core.cname(core.SH(v)) == core.strlit("Bag")):
                if isbag:
                    out.append(Res(s, VStr(core.bagrange(core.SH(v)))))
                else:
                    out.extend(self.X.raise_(s, "AttributeError", "range"))
            return out
        if name == "quantity":
            out = []
            for s, has in self.X.branch(st, core.has_quantity(v)):
                if has:
                    out.append(Res(s, VBuiltin("child.quantity", ch)))
                else:
                    out.extend(self.X.raise_(s, "AttributeError", "quantity"))
            return out
        if name == "transform":
            out = []
            for s, isc in self.X.branch(st, core.cname(core.SH(v)) == core.strlit("Count")):
                if isc:
                    out.append(Res(s, VBuiltin("child.transform", ch)))
                else:
                    out.extend(self.X.raise_(s, "AttributeError", "transform"))
            return out
        if name == "quantityName":
            # no primitive of this code base defines quantityName
            return self.X.raise_(st, "AttributeError", "quantityName")
        if name in (
            "zero",
            "copy",
            "fill",
            "_numpy",
            "toJsonFragment",
            "_checkForCrossReferences",
            "__mul__",
            "__rmul__",
            "__add__",
            "__iadd__",
            "specialize",
            "toJson",
        ):
            return [Res(st, VBuiltin("child." + name, ch))]
        if name == "children":
            raise Unsupported("children of abstract child")
        # an attribute that only some primitive classes define: AttributeError for the others
        from .frontend import PRIMITIVES

        owners = [c for c in PRIMITIVES if name in self.X.P.attr_names(c)]
        cn = core.cname(core.SH(v))
        out = []
        if owners and "Select" not in owners and name not in ("__class__",):
            # Select.__getattr__ forwards every attribute it does not have to its cut: on an operand that may be a
            # Select the lookup can succeed with whatever the cut holds
            rest = []
            for s, is_sel in self.X.branch(st, cn == core.strlit("Select")):
                if not is_sel:
                    rest.append(s)
                    continue
                if name in ("sum", "mean", "varianceTimesEntries", "min", "max"):
                    f, wf = Fl.sym(f"havoc.{name}!{core.uid()}")
                    s2 = s.fork()
                    s2.add(wf)
                    out.append(Res(s2, VFl(f)))
                    out.extend(self.X.raise_(s, "AttributeError", name))
                    continue
                raise Unsupported(f"attribute {name} of an operand that may be a Select (forwarded to its cut)")
            if not rest:
                return out
            st = rest[0]
        for s, has in self.X.branch(st, z3.Or([cn == core.strlit(c) for c in owners] or [z3.BoolVal(False)])):
            if has:
                # a field of the other primitive's representation: the child contract does not expose it, so
                # a read yields an unconstrained value (numeric leaf fields only; containers stay out of reach)
                if name in ("sum", "mean", "varianceTimesEntries", "min", "max"):
                    f, wf = Fl.sym(f"havoc.{name}!{core.uid()}")
                    s.add(wf)
                    out.append(Res(s, VFl(f)))
                    continue
                raise Unsupported(f"attribute {name} of abstract child of class in {owners}")
            out.extend(self.X.raise_(s, "AttributeError", name))
        return out

    def setattr(self, st, ch, name, val):
        raise Unsupported(f"setattr {name} on abstract child")

    def compat(self, a, b):
        return core.SH(a) == core.SH(b)

    # ---- a + b
    def binop(self, st, mname, ch, other):
        X = self.X
        if mname == "__add__":
            if not isinstance(other, VChild):
                if isinstance(other, VObj):
                    raise Unsupported("abstract child + concrete instance")
                return X.raise_(st, "ContainerException", "child + non-container")
            va, vb = st.view(ch.ref), st.view(other.ref)
            out = []
            for s, ok in X.branch(st, self.compat(va, vb)):
                if ok:
                    r = core.vplus(va, vb)
                    self.facts_plus(s, va, vb, r)
                    out.append(Res(s, self.new_child(s, r)))
                else:
                    out.extend(X.raise_(s, "ContainerException", "child + child: incompatible"))
            return out
        if mname in ("__mul__", "__rmul__"):
            return self.mul(st, ch, other)
        raise Unsupported(mname)

    def mul(self, st, ch, factor):
        X = self.X
        f = X.B.num(factor)
        if f is None:
            return X.raise_(st, "TypeError", "child * non-number")
        va = st.view(ch.ref)
        out = []
        # contract of __mul__: f > 0 -> vscale ; f <= 0 or nan -> vzero.  (+-inf factors are outside wf.)
        for s, pos in X.branch(st, f.ispos()):
            if pos:
                s.add(f.isfin())
                r = core.vscale(va, f.r)
                self.facts_scale(s, va, f.r, r)
            else:
                r = core.vzero(va)
                self.facts_zero(s, va, r)
            out.append(Res(s, self.new_child(s, r)))
        return out

    def iadd(self, st, ch, other):
        X = self.X
        if not isinstance(other, VChild):
            return X.raise_(st, "ContainerException", "child += non-container")
        va, vb = st.view(ch.ref), st.view(other.ref)
        out = []
        for s, ok in X.branch(st, self.compat(va, vb)):
            if ok:
                r = core.vplus(va, vb)
                self.facts_plus(s, va, vb, r)
                s.set_view(ch.ref, r)
                s.events.append(("child-iadd", ch.ref))
                out.append(Res(s, ch))
            else:
                out.extend(X.raise_(s, "ContainerException", "child += child: incompatible"))
        return out

    def eq(self, st, ch, other):
        if not isinstance(other, VChild):
            return [Res(st, VBool(False))]
        # content equality of the subtrees, with zero tolerance (View is canonical content)
        return [Res(st, VBool(st.view(ch.ref) == st.view(other.ref)))]

    # ---- method calls
    def call_child(self, st, ch, args, kwargs):
        raise Unsupported("calling an abstract child")

    def method(self, st, ch, name, args, kwargs):
        X = self.X
        va = st.view(ch.ref)
        if name == "zero":
            r = core.vzero(va)
            self.facts_zero(st, va, r)
            return [Res(st, self.new_child(st, r))]
        if name == "copy":
            # Container.copy: self + self.zero(); by L-id the view is unchanged
            c = self.new_child(st, va)
            return [Res(st, c)]
        if name in ("__mul__", "__rmul__"):
            return self.mul(st, ch, args[0])
        if name == "__add__":
            return self.binop(st, "__add__", ch, args[0])
        if name == "__iadd__":
            return self.iadd(st, ch, args[0])
        if name == "specialize":
            return [Res(st, ch)]
        if name == "_checkForCrossReferences":
            st.events.append(("child-xref", ch.ref))
            st.xref_calls = list(getattr(st, "xref_calls", [])) + [ch.ref]
            if not X.hooks.get("child_xref_may_raise"):
                return [Res(st, NONE)]
            # contract of the recursive call: it returns, or raises ContainerException (a shared node below)
            s2 = st.fork()
            s2.events.append(("child-xref-raised", ch.ref))
            return [Res(st, NONE)] + X.raise_(s2, "ContainerException", "shared aggregator below a child")
        if name == "fill":
            datum = args[0]
            w = args[1] if len(args) > 1 else kwargs.get("weight", VFl(Fl.const(1.0)))
            return self.fill(st, ch, datum, w)
        if name == "toJsonFragment":
            sup = args[0]
            if not isinstance(sup, VBool):
                raise Unsupported("toJsonFragment arg")
            return [Res(st, VJson(core.enc(va, sup.t)))]
        if name == "_numpy":
            from . import npmodel

            return npmodel.child_numpy(X, st, ch, args, kwargs)
        raise Unsupported(f"child method {name}")

    def fill(self, st, ch, datum, w):
        X = self.X
        fw = X.B.num(w)
        if fw is None:
            return X.raise_(st, "TypeError", "weight")
        if isinstance(datum, VOpq) and datum.tag == "datum":
            d = datum.t
        elif isinstance(datum, VNone):
            d = z3.Const("datum:None", core.Datum)
        else:
            raise Unsupported("child.fill datum")
        va = st.view(ch.ref)
        out = []
        for s, pos in X.branch(st, fw.ispos()):
            if not pos:
                # contract: not (w > 0) -> nothing changes (L-gate)
                out.append(Res(s, NONE))
                continue
            s.add(fw.isfin())  # A-REAL: weights are finite or nan
            for s2, raises in X.branch(s, core.fill_raises(va, d, fw.r)):
                if raises:
                    if not X.hooks.get("child_rollback", False):
                        # fan-out children give no rollback guarantee: content is havocked
                        hv = s2.fresh("havoc", core.View)
                        s2.add(core.SH(hv) == core.SH(va))
                        s2.set_view(ch.ref, hv)
                    s2.events.append(("child-fill-raised", ch.ref))
                    out.extend(X.raise_(s2, "UserException", "child.fill"))
                else:
                    r = core.vfill(va, d, fw.r)
                    self.facts_fill(s2, va, d, fw.r, r)
                    s2.set_view(ch.ref, r)
                    s2.events.append(("child-fill", ch.ref))
                    out.append(Res(s2, NONE))
        return out

    def child_from_json(self, st, factory, args):
        from . import jsonmodel

        return jsonmodel.child_from_json(self.X, st, factory, args)
