"""C03: vectorised fill (`_numpy`) of the container classes, masked paths.

For each class K the real `_numpy` body is executed on a symbolic batch (length n, rows rowof(batch, i),
quantity array q[i] = quantity(row i) by A-USERFN for arrays) with a symbolic non-negative finite weight
array or a scalar weight.  Obligation, per child slot c and per row i (both Skolemised): the weight array
handed to c's `_numpy` carries  w[i] if the routing rule of `fill` selects c for q[i], else 0  -- the same
selector predicates as the row-wise fill specification (spec/binspec.selectors).  Together with the
children's `_numpy` contract (= fold of fill over the rows with those weights), L-gate (weight 0 is a
no-op) and C02, this is row-wise equality (meta step T-ROWS, an induction on the number of rows).
Also: every child slot receives exactly one call, entries += sum(weights), inputs unchanged.
np.histogram / np.unique fast paths, the sparse containers and the Average / Deviate / Bag leaves are *paths outside
the proof*: bounded stand-in.  The leaf reductions of Sum, Minimize, Maximize and Count are proved (leaf_task).
"""

import z3

from . import core, models, npmodel, schema, smt
from .contracts import view_of
from .core import NONE, CList, State, Unsupported, VFl, VObj, VOpq
from .execu import Exec
from .extra import add_function, record
from .fl import Fl
from .sv import CChild, CIte, CTuple, comp_of

import sys, os
sys.path.insert(0, os.path.dirname(os.path.dirname(os.path.abspath(__file__))))
from spec import binspec, specs  # noqa: E402
from spec import fillspec  # noqa: E402

CLASSES = ["Bin", "CentrallyBin", "IrregularlyBin", "Stack", "Fraction", "Select", "Label", "UntypedLabel", "Index", "Branch"]


LEAVES = ["Sum", "Minimize", "Maximize", "Count"]


def tasks_for(prop, tier):
    if prop != "C03":
        return []
    return [("c03", K, wv) for K in CLASSES for wv in ("array", "scalar")] + [("c03", K, wv) for K in LEAVES for wv in ("array", "scalar")]


def leaf_task(P, K, wv, prop, tier, out):
    """Leaf reductions.  The real `_numpy` of Sum / Minimize / Maximize / Count is executed with boolean-mask
    selections and reductions modelled as abstract, extensional aggregates of an element-wise specified array:
      Sum       sum' = sum (+) SUM_i [w_i > 0] q_i * w_i        (Fl sum: nan / +-inf absorbing, order independent)
      Minimize  min' = min over {q_i : w_i > 0, q_i not nan}, combined with the old value as fill() does
      entries'  = entries + SUM_i w_i
    i.e. the aggregate of exactly the per-row contributions of fill().  That a left fold of fill over the rows equals the
    aggregate is the definition of the aggregate (commutative, associative: meta step T-ROWS as for the containers)."""
    fi = P.lookup_method(K, "_numpy")
    X = Exec(P, models.std_hooks())
    st = State()
    st.np_special_sums = True
    selfv = schema.make_instance(st, K, 1)
    batch = z3.Const("batch", core.Datum)
    n = z3.Function("batchlen", core.Datum, z3.IntSort())(batch)
    st.add(n >= 0)
    if wv == "array":
        wr = z3.Function("w_in", z3.IntSort(), z3.RealSort())
        i = z3.Int("wi0")
        st.forall(i, z3.And(i >= 0, i < n), wr(i) >= 0, name="weights-nonneg", base_only=True)
        warg = npmodel.new_arr(st, n, lambda j: VFl(Fl.fin(wr(j)), "float"), "float")
        st.new_oids.discard(warg.oid)
        w_at = lambda j: Fl.fin(wr(j))
    else:
        ws = z3.Real("w_scalar")
        st.add(ws >= 0)
        warg = VFl(Fl.fin(ws))
        w_at = lambda j: Fl.fin(ws)
    # a leaf below a quantity-bearing parent: the parent fixed the batch length (a bare Count has no entry point)
    shape = st.alloc(CList([core.VInt(n)] if K == "Count" else [NONE]), new=False)
    pre = st.fork()
    a = view_of(pre, selfv, K)
    try:
        res = X.run(st, fi, [selfv, VOpq(batch, "batch"), warg, shape])
    except Unsupported as e:
        out["out_of_reach"].append({"function": fi.qualname, "reason": f"[{wv}] {e}"})
        return
    add_function(out, fi, wv, paths=len(res))
    e = fillspec.quantity_expr(pre, selfv)
    from .builtins_model import uf_nan, uf_ninf, uf_pinf, uf_r

    def q_at(j):
        d_ = npmodel.rowof(batch, j)
        return Fl(uf_nan(e, d_), uf_pinf(e, d_), uf_ninf(e, d_), uf_r(e, d_))

    PINF, NINF, ZERO = Fl.const(float("inf")), Fl.const(float("-inf")), Fl.const(0.0)

    def ext(s, W, spec_elem, name):
        """the aggregates of W are those of the specified array: either every row agrees, or a differing row exists"""
        Ws = s.fresh("W_spec_" + name, npmodel.WArr)
        j = z3.Int(f"sp!{core.uid()}")
        s.forall(j, z3.And(j >= 0, j < n), npmodel.wat(Ws, j).same(spec_elem(j)), name="spec-" + name, base_only=True)
        wd = s.fresh("wit.rowdiff", z3.IntSort())
        s.add_index(wd)
        same_aggr = z3.And(
            npmodel.asum(W) == npmodel.asum(Ws),
            npmodel.aflag_nan(W) == npmodel.aflag_nan(Ws), npmodel.aflag_pinf(W) == npmodel.aflag_pinf(Ws), npmodel.aflag_ninf(W) == npmodel.aflag_ninf(Ws),
            npmodel.fl_min(W).same(npmodel.fl_min(Ws)), npmodel.fl_max(W).same(npmodel.fl_max(Ws)),
        )
        s.add(z3.Or(same_aggr, z3.And(wd >= 0, wd < n, z3.Not(npmodel.wat(W, wd).same(npmodel.wat(Ws, wd))))))
        return Ws

    for pi, r in enumerate(res):
        p = f"{wv}:p{pi}"
        if r.exc is not None:
            if r.exc.cls == "AssertionError":
                continue  # malformed inputs (shape mismatch) are outside the contract
            vc = smt.build_vc("c03", r.st.fork(), z3.BoolVal(False))
            record(out, prop, fi.qualname, "ensures:no-raise", p + f":{r.exc.cls}@{r.exc.origin}", wv, vc, tier)
            continue
        s0 = r.st
        same = True if wv != "array" else s0.heap.get(warg.oid) is pre.heap.get(warg.oid)
        vc = smt.build_vc("c03", s0.fork(), z3.BoolVal(bool(same)))
        record(out, prop, fi.qualname, "ensures:inputs-unchanged", p, wv, vc, tier)
        reds = list(getattr(s0, "np_reductions", []))
        b = view_of(s0, selfv, K)
        # entries
        s = s0.fork()
        ent0, ent1 = a["entries"].fl, b["entries"].fl
        Wsum = [W for kind, W in reds if kind == "sum"]
        for W in Wsum:
            ext(s, W, lambda j: w_at(j), "weights") if False else None
        Win = s.fresh("W_spec_in", npmodel.WArr)
        j = z3.Int("wj0")
        s.forall(j, z3.And(j >= 0, j < n), npmodel.wat(Win, j).same(w_at(j)), name="spec-weights", base_only=True)
        for t in sums_in(ent1.r):
            wdiff = s.fresh("wit.sumdiff", z3.IntSort())
            s.add_index(wdiff)
            s.add(z3.Or(npmodel.asum(t) == npmodel.asum(Win), z3.And(wdiff >= 0, wdiff < n, z3.Not(npmodel.wat(t, wdiff).same(npmodel.wat(Win, wdiff))))))
        goal = z3.And(ent1.isfin(), z3.Or(ent1.r == ent0.r + npmodel.asum(Win), ent1.r == ent0.r + w_at(0).r * z3.ToReal(n)) if wv == "scalar" else ent1.r == ent0.r + npmodel.asum(Win))
        vc = smt.build_vc("c03", s, goal)
        record(out, prop, fi.qualname, "ensures:entries", p, wv, vc, tier)
        if K == "Count":
            continue
        s = s0.fork()
        if K == "Sum":
            cand = [W for kind, W in reds if kind == "sum"]
            spec = lambda j: Fl.ite(w_at(j).r > 0, q_at(j).mul(w_at(j)), ZERO)
            goals = []
            for W in cand:
                Ws = ext(s, W, spec, "contrib")
                goals.append(b["sum"].fl.same(a["sum"].fl.add(npmodel.fl_sum(Ws))))
            j2 = z3.Int("qj0")
            s.forall(j2, z3.And(j2 >= 0, j2 < n), q_at(j2).wf(), name="q-wf", base_only=True)
            vc = smt.build_vc("c03", s, z3.Or(goals) if goals else z3.BoolVal(False))
            record(out, prop, fi.qualname, "ensures:sum-of-the-row-contributions", p, wv, vc, tier)
        else:
            fld, kind, neutral, agg = ("min", "min", PINF, npmodel.fl_min) if K == "Minimize" else ("max", "max", NINF, npmodel.fl_max)
            cand = [W for k_, W in reds if k_ == kind]
            selected = lambda j: z3.And(w_at(j).r > 0, z3.Not(q_at(j).nan))
            spec = lambda j: Fl.ite(selected(j), q_at(j), neutral)
            j2 = z3.Int("qj0")
            s.forall(j2, z3.And(j2 >= 0, j2 < n), q_at(j2).wf(), name="q-wf", base_only=True)
            j3 = z3.Int("qj1")
            none = s.forall(j3, z3.And(j3 >= 0, j3 < n), z3.Not(selected(j3)), equiv=True, name="none-selected", base_only=True)
            old, new = a[fld].fl, b[fld].fl
            goals = []
            if not cand:
                goals.append(z3.And(none, new.same(old)))
            for W in cand:
                Ws = ext(s, W, spec, "selected")
                m = agg(Ws)
                better = m.lt(old) if K == "Minimize" else m.gt(old)
                want = Fl.ite(old.nan, m, Fl.ite(better, m, old))
                goals.append(z3.And(z3.Not(none), new.same(want)))
            vc = smt.build_vc("c03", s, z3.Or(goals))
            record(out, prop, fi.qualname, f"ensures:{fld}-of-the-selected-rows", p, wv, vc, tier)
    out.setdefault("assumptions", []).append(
        "C03 leaves: boolean-mask selection a[m] keeps the rows with m true; sum / min / max of an array are extensional aggregates of its elements (sum in the Fl algebra: a nan or both infinities give nan); min / max of the selected rows is below / above no selected element is not needed: the aggregate is compared with the aggregate of the specified array"
    )


def run_task(P, task, prop, tier, out):
    _, K, wv = task
    if K in LEAVES:
        return leaf_task(P, K, wv, prop, tier, out)
    fi = P.lookup_method(K, "_numpy")
    X = Exec(P, models.std_hooks())
    st = State()
    selfv = schema.make_instance(st, K, 1)
    batch = z3.Const("batch", core.Datum)
    n = z3.Function("batchlen", core.Datum, z3.IntSort())(batch)
    st.add(n >= 0)
    if wv == "array":
        wr = z3.Function("w_in", z3.IntSort(), z3.RealSort())
        i = z3.Int("wi0")
        st.forall(i, z3.And(i >= 0, i < n), wr(i) >= 0, name="weights-nonneg", base_only=True)
        wobj = npmodel.new_arr(st, n, lambda j: VFl(Fl.fin(wr(j)), "float"), "float")
        st.new_oids.discard(wobj.oid)
        warg = wobj
        w_at = lambda j: Fl.fin(wr(j))
    else:
        ws = z3.Real("w_scalar")
        st.add(ws >= 0)
        warg = VFl(Fl.fin(ws))
        w_at = lambda j: Fl.fin(ws)
    if K == "Bin":
        # the int64 conversion of bin indexes is specified only below 2^63: realistic bin counts
        vals = st.obj(st.obj(selfv).fields["values"])
        st.add(vals.length() < 2**31)
        out.setdefault("notes", []).append("C03 Bin: num < 2^31 (np.array(q, dtype=int) is unspecified beyond the int64 range)")
    shape = st.alloc(CList([NONE]), new=False)
    pre = st.fork()
    a = view_of(pre, selfv, K)
    try:
        res = X.run(st, fi, [selfv, VOpq(batch, "batch"), warg, shape])
    except Unsupported as e:
        out["out_of_reach"].append({"function": fi.qualname, "reason": str(e)})
        return
    add_function(out, fi, wv, paths=len(res))
    # the quantity array by A-USERFN
    e = fillspec.quantity_expr(pre, selfv)
    from .builtins_model import uf_nan, uf_ninf, uf_pinf, uf_r

    def q_at(j):
        if e is None:
            return Fl.const(0.0)  # classes without a quantity route every row to every child
        d_ = npmodel.rowof(batch, j)
        return Fl(uf_nan(e, d_), uf_pinf(e, d_), uf_ninf(e, d_), uf_r(e, d_))

    fast_done = []

    def slots(s0, p, bincount=None):
        """per child slot: exactly one vectorised call, with the specified weights"""
        for f, kind in specs.CHILDREN.get(K, {}).items():
            s = s0.fork()
            row = s.fresh("sk.row", z3.IntSort())
            s.add_index(row)
            s.add(row >= 0, row < n)
            q = q_at(row)
            s.add(q.wf())
            sels = selectors_for(s, K, a, q, w_at(row))
            fv = pre.obj(selfv).fields.get(f)
            if kind == "one":
                target = fv.ref
                guard = z3.BoolVal(True)
                sel, wspec = sels[f]
                key = None
            else:
                c = comp_of(pre, fv)
                key = s.fresh("sk.slot", c.ksort)
                s.add_index(key)
                comp = c.val(key)
                if isinstance(comp, CTuple):
                    comp = comp.items[1]
                target = comp.ref
                guard = c.dom(key)
                sel, wspec = sels[f](key)
            s.add(guard)
            found = []
            for rec in s.np_calls:
                if isinstance(rec[0], str) and rec[0] == "family":
                    _, k, desc, cond, sub = rec
                    for ref_t, W, n_ in sub:
                        found.append((k, desc, cond, ref_t, W))
                else:
                    ref_t, W, n_ = rec
                    found.append((None, None, None, ref_t, W))
            # the call(s) that reach this slot
            hits = []
            for k, desc, cond, ref_t, W in found:
                if k is None:
                    hits.append((ref_t == target, W))
                else:
                    from .loops import invert

                    kk = invert(ref_t, k, target)
                    if kk is None:
                        continue
                    s.add_index(kk)
                    hit = z3.And(desc.guard(kk), z3.substitute(cond, (k, kk)), z3.substitute(ref_t, (k, kk)) == target)
                    hits.append((hit, z3.substitute(W, (k, kk))))
            if bincount is not None and kind != "one":
                # fast path: np.bincount(index, weights=sel_w, minlength) then values[k].fill(None, h[k]).  Contract of
                # the operands: a row counts for bin k (it survives the selection and its index is k) with weight w
                # iff fill routes it to values[k] with that weight; every surviving index is inside [0, minlength)
                idx_v, w_v, ml = bincount
                io, wo = s.heap[idx_v.oid], s.heap[w_v.oid]
                ok_shape = io.mask is not None and wo.mask is not None and io.mask_id == wo.mask_id and isinstance(ml, core.VInt)
                if not ok_shape:
                    vc = smt.build_vc("c03", s, z3.BoolVal(False))
                    record(out, prop, fi.qualname, f"ensures:fast-path-operands:{f}", p, wv, vc, tier)
                    continue
                counted = z3.And(io.mask(row), io.elem(row).t == key)
                got = Fl.ite(counted, X.B.num(wo.elem(row)), Fl.const(0.0))
                want = Fl.ite(sel, wspec, Fl.const(0.0))
                vc = smt.build_vc("c03", s.fork(), gate_eq(got, want))
                record(out, prop, fi.qualname, f"ensures:fast-path-row-counted-in-its-bin:{f}", p, wv, vc, tier)
                s2 = s0.fork()
                s2.add_index(row)
                s2.add(row >= 0, row < n, q.wf())
                vc = smt.build_vc("c03", s2, z3.Implies(io.mask(row), z3.And(io.elem(row).t >= 0, io.elem(row).t < ml.t, ml.t == c.length)))
                record(out, prop, fi.qualname, f"ensures:fast-path-index-in-range:{f}", p, wv, vc, tier)
                fast_done.append(p)
                continue
            if not hits:
                vc = smt.build_vc("c03", s, z3.BoolVal(False))
                record(out, prop, fi.qualname, f"ensures:child-called:{f}", p, wv, vc, tier)
                continue
            exactly_one = z3.PbEq([(h, 1) for h, _ in hits], 1)
            vc = smt.build_vc("c03", s.fork(), exactly_one)
            record(out, prop, fi.qualname, f"ensures:child-called-once:{f}", p, wv, vc, tier)
            want = Fl.ite(sel, wspec, Fl.const(0.0))
            goal = z3.And([z3.Implies(h, gate_eq(npmodel.wat(W, row), want)) for h, W in hits])
            vc = smt.build_vc("c03", s, goal)
            record(out, prop, fi.qualname, f"ensures:row-weights:{f}", p, wv, vc, tier)

    skipped = 0
    for pi, r in enumerate(res):
        p = f"{wv}:p{pi}"
        if r.exc is not None:
            if r.exc.cls == "HGV_PathOutOfReach":
                skipped += 1
                if getattr(r.st, "np_bincount", None):
                    # the routing of the fast path is under contract, its reduction (bincount + fill of the sums) is not
                    slots(r.st, p, r.st.np_bincount[-1])
                continue
            if r.exc.cls == "AssertionError":
                continue  # malformed inputs (shape mismatch) are outside the contract
            vc = smt.build_vc("c03", r.st.fork(), z3.BoolVal(False))
            record(out, prop, fi.qualname, "ensures:no-raise", p + f":{r.exc.cls}@{r.exc.origin}", wv, vc, tier)
            continue
        s0 = r.st
        # preconditions of the children's _numpy hold at every call site
        viol = [e for e in s0.events if e and (e[0] == "np-requires-violated" or (e[0] == "in-loop" and len(e) > 1 and e[1] == "np-requires-violated"))]
        vc = smt.build_vc("c03", s0.fork(), z3.BoolVal(not viol))
        record(out, prop, fi.qualname, "requires:children-know-batch-length", p, wv, vc, tier)
        # inputs unchanged
        same = True
        if wv == "array":
            same = s0.heap.get(warg.oid) is pre.heap.get(warg.oid)
        vc = smt.build_vc("c03", s0.fork(), z3.BoolVal(bool(same)))
        record(out, prop, fi.qualname, "ensures:inputs-unchanged", p, wv, vc, tier)
        # entries
        s = s0.fork()
        Win = z3.Const("W_spec_in", npmodel.WArr)
        j = z3.Int("wj0")
        s.forall(j, z3.And(j >= 0, j < n), z3.And(npmodel.wat(Win, j).same(w_at(j))), name="spec-weights", base_only=True)
        ent0, ent1 = a["entries"].fl, view_of(s, selfv, K)["entries"].fl
        calls = s.np_calls
        # asum is extensional: equal arrays have equal sums (witness of a differing row otherwise)
        goal_terms = []
        for t in sums_in(ent1.r):
            wdiff = s.fresh("wit.sumdiff", z3.IntSort())
            s.add_index(wdiff)
            s.add(z3.Or(npmodel.asum(t) == npmodel.asum(Win), z3.And(wdiff >= 0, wdiff < n, z3.Not(npmodel.wat(t, wdiff).same(npmodel.wat(Win, wdiff))))))
        if wv == "array":
            vc = smt.build_vc("c03", s, z3.And(ent1.isfin(), ent1.r == ent0.r + npmodel.asum(Win)))
        else:
            # scalar weight: entries += weight * n or float(weights.sum()) of the constant array
            vc = smt.build_vc("c03", s, z3.And(ent1.isfin(), z3.Or(ent1.r == ent0.r + npmodel.asum(Win), ent1.r == ent0.r + w_at(0).r * z3.ToReal(n))))
        record(out, prop, fi.qualname, "ensures:entries", p, wv, vc, tier)
        slots(s0, p)
    if skipped:
        out.setdefault("notes", []).append(f"{fi.qualname}: {skipped} path(s) through np.histogram / np.bincount / np.unique are outside the proof (bounded stand-in)" + ("; their routing (index array and weights handed to np.bincount, calls of the flow children) is proved" if fast_done else ""))


def gate_eq(got, want):
    """equal as weights: both not positive (no-op for the child), or identical"""
    # exact: a vectorised child adds weights.sum() to its entries, so a NaN or negative weight on an
    # unselected row is not a no-op there (unlike fill(), which tests weight > 0 per row)
    return got.same(want)


def sums_in(t):
    out = []
    seen = set()
    stack = [t]
    while stack:
        x = stack.pop()
        if x.get_id() in seen:
            continue
        seen.add(x.get_id())
        if z3.is_app(x) and x.decl().name() == "asum":
            out.append(x.arg(0))
        stack.extend(x.children())
    return out


def selectors_for(st, K, a, q, w):
    """{field: (selected, weight passed when selected)} or key -> (...) for families"""
    if K == "Select":
        sel = q.mul(w)
        return {"cut": (sel.ispos(), sel)}
    if K == "Fraction":
        sel = q.mul(w)
        return {"denominator": (z3.BoolVal(True), w), "numerator": (sel.ispos(), sel)}
    base = binspec.selectors(st, K, a, q)
    out = {}
    for f, v in base.items():
        if callable(v):
            out[f] = (lambda key, v=v: (v(key), w))
        else:
            out[f] = (v, w)
    return out
