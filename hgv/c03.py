"""C03: vectorised fill (`_numpy`) of the container classes, masked paths.

For each class K the real `_numpy` body is executed on a symbolic batch (length n, rows rowof(batch, i),
quantity array q[i] = quantity(row i) by A-USERFN for arrays) with a symbolic non-negative finite weight
array or a scalar weight.  Obligation, per child slot c and per row i (both Skolemised): the weight array
handed to c's `_numpy` carries  w[i] if the routing rule of `fill` selects c for q[i], else 0  -- the same
selector predicates as the row-wise fill specification (spec/binspec.selectors).  Together with the
children's `_numpy` contract (= fold of fill over the rows with those weights), L-gate (weight 0 is a
no-op) and C02, this is row-wise equality (meta step T-ROWS, an induction on the number of rows).
Also: every child slot receives exactly one call, entries += sum(weights), inputs unchanged.
np.histogram / np.unique fast paths and the leaf reductions are *paths outside the proof*: bounded stand-in.
"""

import z3

from . import core, models, npmodel, schema, smt
from .contracts import view_of
from .core import NONE, CList, State, Unsupported, VFl, VObj, VOpq
from .execu import Exec
from .extra import add_function, record
from .fl import Fl
from .sv import CChild, CIte, CTuple, comp_of

import sys, os
sys.path.insert(0, os.path.dirname(os.path.dirname(os.path.abspath(__file__))))
from spec import binspec, specs  # noqa: E402
from spec import fillspec  # noqa: E402

CLASSES = ["Bin", "CentrallyBin", "IrregularlyBin", "Stack", "Fraction", "Select", "Label", "UntypedLabel", "Index", "Branch"]


def tasks_for(prop, tier):
    if prop != "C03":
        return []
    return [("c03", K, wv) for K in CLASSES for wv in ("array", "scalar")]


def run_task(P, task, prop, tier, out):
    _, K, wv = task
    fi = P.lookup_method(K, "_numpy")
    X = Exec(P, models.std_hooks())
    st = State()
    selfv = schema.make_instance(st, K, 1)
    batch = z3.Const("batch", core.Datum)
    n = z3.Function("batchlen", core.Datum, z3.IntSort())(batch)
    st.add(n >= 0)
    if wv == "array":
        wr = z3.Function("w_in", z3.IntSort(), z3.RealSort())
        i = z3.Int("wi0")
        st.forall(i, z3.And(i >= 0, i < n), wr(i) >= 0, name="weights-nonneg", base_only=True)
        wobj = npmodel.new_arr(st, n, lambda j: VFl(Fl.fin(wr(j)), "float"), "float")
        st.new_oids.discard(wobj.oid)
        warg = wobj
        w_at = lambda j: Fl.fin(wr(j))
    else:
        ws = z3.Real("w_scalar")
        st.add(ws >= 0)
        warg = VFl(Fl.fin(ws))
        w_at = lambda j: Fl.fin(ws)
    if K == "Bin":
        # the int64 conversion of bin indexes is specified only below 2^63: realistic bin counts
        vals = st.obj(st.obj(selfv).fields["values"])
        st.add(vals.length() < 2**31)
        out.setdefault("notes", []).append("C03 Bin: num < 2^31 (np.array(q, dtype=int) is unspecified beyond the int64 range)")
    shape = st.alloc(CList([NONE]), new=False)
    pre = st.fork()
    a = view_of(pre, selfv, K)
    try:
        res = X.run(st, fi, [selfv, VOpq(batch, "batch"), warg, shape])
    except Unsupported as e:
        out["out_of_reach"].append({"function": fi.qualname, "reason": str(e)})
        return
    add_function(out, fi, wv, paths=len(res))
    # the quantity array by A-USERFN
    e = fillspec.quantity_expr(pre, selfv)
    from .builtins_model import uf_nan, uf_ninf, uf_pinf, uf_r

    def q_at(j):
        if e is None:
            return Fl.const(0.0)  # classes without a quantity route every row to every child
        d_ = npmodel.rowof(batch, j)
        return Fl(uf_nan(e, d_), uf_pinf(e, d_), uf_ninf(e, d_), uf_r(e, d_))

    skipped = 0
    for pi, r in enumerate(res):
        p = f"{wv}:p{pi}"
        if r.exc is not None:
            if r.exc.cls == "HGV_PathOutOfReach":
                skipped += 1
                continue
            if r.exc.cls == "AssertionError":
                continue  # malformed inputs (shape mismatch) are outside the contract
            vc = smt.build_vc("c03", r.st.fork(), z3.BoolVal(False))
            record(out, prop, fi.qualname, "ensures:no-raise", p + f":{r.exc.cls}@{r.exc.origin}", wv, vc, tier)
            continue
        s0 = r.st
        # preconditions of the children's _numpy hold at every call site
        viol = [e for e in s0.events if e and (e[0] == "np-requires-violated" or (e[0] == "in-loop" and len(e) > 1 and e[1] == "np-requires-violated"))]
        vc = smt.build_vc("c03", s0.fork(), z3.BoolVal(not viol))
        record(out, prop, fi.qualname, "requires:children-know-batch-length", p, wv, vc, tier)
        # inputs unchanged
        same = True
        if wv == "array":
            same = s0.heap.get(warg.oid) is pre.heap.get(warg.oid)
        vc = smt.build_vc("c03", s0.fork(), z3.BoolVal(bool(same)))
        record(out, prop, fi.qualname, "ensures:inputs-unchanged", p, wv, vc, tier)
        # entries
        s = s0.fork()
        Win = z3.Const("W_spec_in", npmodel.WArr)
        j = z3.Int("wj0")
        s.forall(j, z3.And(j >= 0, j < n), z3.And(npmodel.wat(Win, j).same(w_at(j))), name="spec-weights", base_only=True)
        ent0, ent1 = a["entries"].fl, view_of(s, selfv, K)["entries"].fl
        calls = s.np_calls
        # asum is extensional: equal arrays have equal sums (witness of a differing row otherwise)
        goal_terms = []
        for t in sums_in(ent1.r):
            wdiff = s.fresh("wit.sumdiff", z3.IntSort())
            s.add_index(wdiff)
            s.add(z3.Or(npmodel.asum(t) == npmodel.asum(Win), z3.And(wdiff >= 0, wdiff < n, z3.Not(npmodel.wat(t, wdiff).same(npmodel.wat(Win, wdiff))))))
        if wv == "array":
            vc = smt.build_vc("c03", s, z3.And(ent1.isfin(), ent1.r == ent0.r + npmodel.asum(Win)))
        else:
            # scalar weight: entries += weight * n or float(weights.sum()) of the constant array
            vc = smt.build_vc("c03", s, z3.And(ent1.isfin(), z3.Or(ent1.r == ent0.r + npmodel.asum(Win), ent1.r == ent0.r + w_at(0).r * z3.ToReal(n))))
        record(out, prop, fi.qualname, "ensures:entries", p, wv, vc, tier)
        # per child slot: exactly one vectorised call, with the specified weights
        for f, kind in specs.CHILDREN.get(K, {}).items():
            s = s0.fork()
            row = s.fresh("sk.row", z3.IntSort())
            s.add_index(row)
            s.add(row >= 0, row < n)
            q = q_at(row)
            s.add(q.wf())
            sels = selectors_for(s, K, a, q, w_at(row))
            fv = pre.obj(selfv).fields.get(f)
            if kind == "one":
                target = fv.ref
                guard = z3.BoolVal(True)
                sel, wspec = sels[f]
                key = None
            else:
                c = comp_of(pre, fv)
                key = s.fresh("sk.slot", c.ksort)
                s.add_index(key)
                comp = c.val(key)
                if isinstance(comp, CTuple):
                    comp = comp.items[1]
                target = comp.ref
                guard = c.dom(key)
                sel, wspec = sels[f](key)
            s.add(guard)
            found = []
            for rec in s.np_calls:
                if isinstance(rec[0], str) and rec[0] == "family":
                    _, k, desc, cond, sub = rec
                    for ref_t, W, n_ in sub:
                        found.append((k, desc, cond, ref_t, W))
                else:
                    ref_t, W, n_ = rec
                    found.append((None, None, None, ref_t, W))
            # the call(s) that reach this slot
            hits = []
            for k, desc, cond, ref_t, W in found:
                if k is None:
                    hits.append((ref_t == target, W))
                else:
                    from .loops import invert

                    kk = invert(ref_t, k, target)
                    if kk is None:
                        continue
                    s.add_index(kk)
                    hit = z3.And(desc.guard(kk), z3.substitute(cond, (k, kk)), z3.substitute(ref_t, (k, kk)) == target)
                    hits.append((hit, z3.substitute(W, (k, kk))))
            if not hits:
                vc = smt.build_vc("c03", s, z3.BoolVal(False))
                record(out, prop, fi.qualname, f"ensures:child-called:{f}", p, wv, vc, tier)
                continue
            exactly_one = z3.PbEq([(h, 1) for h, _ in hits], 1)
            vc = smt.build_vc("c03", s.fork(), exactly_one)
            record(out, prop, fi.qualname, f"ensures:child-called-once:{f}", p, wv, vc, tier)
            want = Fl.ite(sel, wspec, Fl.const(0.0))
            goal = z3.And([z3.Implies(h, gate_eq(npmodel.wat(W, row), want)) for h, W in hits])
            vc = smt.build_vc("c03", s, goal)
            record(out, prop, fi.qualname, f"ensures:row-weights:{f}", p, wv, vc, tier)
    if skipped:
        out.setdefault("notes", []).append(f"{fi.qualname}: {skipped} path(s) through np.histogram / np.unique are outside the proof (bounded stand-in)")


def gate_eq(got, want):
    """equal as weights: both not positive (no-op for the child), or identical"""
    # exact: a vectorised child adds weights.sum() to its entries, so a NaN or negative weight on an
    # unselected row is not a no-op there (unlike fill(), which tests weight > 0 per row)
    return got.same(want)


def sums_in(t):
    out = []
    seen = set()
    stack = [t]
    while stack:
        x = stack.pop()
        if x.get_id() in seen:
            continue
        seen.add(x.get_id())
        if z3.is_app(x) and x.decl().name() == "asum":
            out.append(x.arg(0))
        stack.extend(x.children())
    return out


def selectors_for(st, K, a, q, w):
    """{field: (selected, weight passed when selected)} or key -> (...) for families"""
    if K == "Select":
        sel = q.mul(w)
        return {"cut": (sel.ispos(), sel)}
    if K == "Fraction":
        sel = q.mul(w)
        return {"denominator": (z3.BoolVal(True), w), "numerator": (sel.ispos(), sel)}
    base = binspec.selectors(st, K, a, q)
    out = {}
    for f, v in base.items():
        if callable(v):
            out[f] = (lambda key, v=v: (v(key), w))
        else:
            out[f] = (v, w)
    return out
