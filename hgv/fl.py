"""The Fl model of Python floats (assumption A-REAL of DESIGN.md §2.2, Appendix B).

A float is (nan, pinf, ninf, r): three mutually exclusive flags and a real that is
meaningful iff no flag is set.  Arithmetic on finite values is exact (no rounding,
no overflow, -0.0 == 0.0); the special values follow IEEE-754 / CPython rules.
"""

import z3

_cnt = [0]


def fresh(prefix, sort):
    _cnt[0] += 1
    return z3.Const(f"{prefix}!{_cnt[0]}", sort)


def B(x):
    if isinstance(x, bool):
        return z3.BoolVal(x)
    return x


class Fl:
    __slots__ = ("nan", "pinf", "ninf", "r")

    def __init__(self, nan, pinf, ninf, r):
        self.nan = B(nan)
        self.pinf = B(pinf)
        self.ninf = B(ninf)
        self.r = r

    # ---- constructors
    @staticmethod
    def const(x):
        import math

        if isinstance(x, bool):
            x = 1.0 if x else 0.0
        if isinstance(x, int):
            return Fl(False, False, False, z3.RealVal(x))
        if math.isnan(x):
            return Fl(True, False, False, z3.RealVal(0))
        if math.isinf(x):
            return Fl(False, x > 0, x < 0, z3.RealVal(0))
        # exact rational value of the double
        n, d = float(x).as_integer_ratio()
        return Fl(False, False, False, z3.RealVal(n) / z3.RealVal(d) if d != 1 else z3.RealVal(n))

    @staticmethod
    def fin(r):
        if z3.is_int(r):
            r = z3.ToReal(r)
        return Fl(False, False, False, r)

    @staticmethod
    def sym(name):
        """A fresh fully symbolic float; returns (Fl, wellformedness constraint)."""
        f = Fl(z3.Bool(name + ".nan"), z3.Bool(name + ".pinf"), z3.Bool(name + ".ninf"), z3.Real(name + ".r"))
        return f, f.wf()

    def wf(self):
        return z3.And(
            z3.Not(z3.And(self.nan, self.pinf)),
            z3.Not(z3.And(self.nan, self.ninf)),
            z3.Not(z3.And(self.pinf, self.ninf)),
        )

    @staticmethod
    def ite(c, a, b):
        return Fl(z3.If(c, a.nan, b.nan), z3.If(c, a.pinf, b.pinf), z3.If(c, a.ninf, b.ninf), z3.If(c, a.r, b.r))

    # ---- predicates
    def isfin(self):
        return z3.Not(z3.Or(self.nan, self.pinf, self.ninf))

    def isinf(self):
        return z3.Or(self.pinf, self.ninf)

    def iszero(self):
        return z3.And(self.isfin(), self.r == 0)

    def ispos(self):  # > 0
        return z3.Or(self.pinf, z3.And(self.isfin(), self.r > 0))

    def isneg(self):
        return z3.Or(self.ninf, z3.And(self.isfin(), self.r < 0))

    # content equality (nan == nan): the equality of the specification
    def same(self, o):
        return z3.And(
            self.nan == o.nan,
            self.pinf == o.pinf,
            self.ninf == o.ninf,
            z3.Implies(self.isfin(), self.r == o.r),
        )

    # ---- python comparisons (IEEE: false when either is nan)
    def lt(self, o):
        return z3.And(
            z3.Not(self.nan),
            z3.Not(o.nan),
            z3.Or(
                z3.And(self.ninf, z3.Not(o.ninf)),
                z3.And(o.pinf, z3.Not(self.pinf)),
                z3.And(self.isfin(), o.isfin(), self.r < o.r),
            ),
        )

    def le(self, o):
        return z3.And(
            z3.Not(self.nan),
            z3.Not(o.nan),
            z3.Or(self.ninf, o.pinf, z3.And(self.isfin(), o.isfin(), self.r <= o.r)),
        )

    def gt(self, o):
        return o.lt(self)

    def ge(self, o):
        return o.le(self)

    def eq(self, o):  # python ==
        return z3.And(
            z3.Not(self.nan),
            z3.Not(o.nan),
            z3.Or(
                z3.And(self.pinf, o.pinf),
                z3.And(self.ninf, o.ninf),
                z3.And(self.isfin(), o.isfin(), self.r == o.r),
            ),
        )

    def ne(self, o):
        return z3.Not(self.eq(o))

    # ---- arithmetic
    def neg(self):
        return Fl(self.nan, self.ninf, self.pinf, -self.r)

    def add(self, o):
        nan = z3.Or(self.nan, o.nan, z3.And(self.pinf, o.ninf), z3.And(self.ninf, o.pinf))
        pinf = z3.And(z3.Not(nan), z3.Or(self.pinf, o.pinf))
        ninf = z3.And(z3.Not(nan), z3.Or(self.ninf, o.ninf))
        return Fl(nan, pinf, ninf, self.r + o.r)

    def sub(self, o):
        return self.add(o.neg())

    def mul(self, o):
        nan = z3.Or(
            self.nan,
            o.nan,
            z3.And(self.isinf(), o.iszero()),
            z3.And(o.isinf(), self.iszero()),
        )
        anyinf = z3.Or(self.isinf(), o.isinf())
        spos = z3.Or(z3.And(self.ispos(), o.ispos()), z3.And(self.isneg(), o.isneg()))
        sneg = z3.Or(z3.And(self.ispos(), o.isneg()), z3.And(self.isneg(), o.ispos()))
        pinf = z3.And(z3.Not(nan), anyinf, spos)
        ninf = z3.And(z3.Not(nan), anyinf, sneg)
        return Fl(nan, pinf, ninf, self.r * o.r)

    def div_cases(self, o, quotient):
        """Division for o != 0 (the caller forks the ZeroDivisionError path).

        `quotient` is a real term standing for self.r / o.r on the fin/fin case
        (either a z3 division or a purified fresh variable).
        numpy=False semantics; division by finite zero is excluded by the caller.
        """
        nan = z3.Or(self.nan, o.nan, z3.And(self.isinf(), o.isinf()))
        # inf / fin -> +-inf by signs ; fin / inf -> 0
        opos = z3.And(o.isfin(), o.r > 0)
        oneg = z3.And(o.isfin(), o.r < 0)
        pinf = z3.And(z3.Not(nan), z3.Or(z3.And(self.pinf, opos), z3.And(self.ninf, oneg)))
        ninf = z3.And(z3.Not(nan), z3.Or(z3.And(self.pinf, oneg), z3.And(self.ninf, opos)))
        r = z3.If(o.isinf(), z3.RealVal(0), quotient)
        return Fl(nan, pinf, ninf, r)

    def abs(self):
        return Fl(self.nan, z3.Or(self.pinf, self.ninf), False, z3.If(self.r >= 0, self.r, -self.r))

    def __repr__(self):
        return f"Fl(nan={self.nan}, pinf={self.pinf}, ninf={self.ninf}, r={self.r})"


NAN = Fl.const(float("nan"))
PINF = Fl.const(float("inf"))
NINF = Fl.const(float("-inf"))
ZERO = Fl.const(0.0)
