"""C09: util.numeq, the comparison every __eq__ uses for numeric fields, with the two module-level tolerances
made symbolic (any non-negative values).

  reflexive   numeq(x, x) for every float x (nan, +-inf included) and every tolerance setting
  symmetric   numeq(x, y) == numeq(y, x)
  exact       with both tolerances 0:  numeq(x, y)  <=>  x and y are the same value (nan equal to nan)
  widening    numeq at zero tolerance implies numeq at any non-negative tolerances
"""

import z3

from . import core, models, smt
from .core import State, Unsupported, VFl
from .execu import Exec
from .extra import add_function, record
from .fl import Fl

U = "histogrammar.util"


def tasks_for(prop, tier):
    return [("numeq",)] if prop == "C09" else []


def result_term(P, x, y, rt, at, st0):
    """numeq(x, y) as one Bool (paths or-ed), None if some path raises"""
    hooks = models.std_hooks()
    hooks["global_overrides"] = {(U, "relativeTolerance"): VFl(Fl.fin(rt)), (U, "absoluteTolerance"): VFl(Fl.fin(at))}
    X = Exec(P, hooks)
    fi = P.modules[U].functions["numeq"]
    st = st0.fork()
    base = len(st.pc)
    st.frames = [{"%module": U}]
    res = X.call_function(st, fi, [VFl(x), VFl(y)], {})
    terms = []
    for r in res:
        if r.exc is not None:
            return None, len(res)
        terms.append(z3.And(*(list(r.st.pc[base:]) + [X.truth(r.st, r.v)])))
    return z3.Or(terms), len(res)


def run_task(P, task, prop, tier, out):
    fi = P.modules[U].functions["numeq"]
    add_function(out, fi, "symbolic tolerances")
    st = State()
    x, wx = Fl.sym("x")
    y, wy = Fl.sym("y")
    rt, at = z3.Real("relativeTolerance"), z3.Real("absoluteTolerance")
    st.add(wx, wy, rt >= 0, at >= 0)
    zero = z3.RealVal(0)
    try:
        Rxy, n = result_term(P, x, y, rt, at, st)
        Ryx, _ = result_term(P, y, x, rt, at, st)
        Rxx, _ = result_term(P, x, x, rt, at, st)
        R0, _ = result_term(P, x, y, zero, zero, st)
    except Unsupported as e:
        out["out_of_reach"].append({"function": fi.qualname, "reason": str(e)})
        return
    out["functions"][-1]["paths"] = n

    def rec(clause, goal):
        vc = smt.build_vc(f"{fi.qualname}/{clause}", st.fork(), goal if goal is not None else z3.BoolVal(False))
        record(out, prop, fi.qualname, clause, "p0", "symbolic-tolerances", vc, tier)

    ok = all(t is not None for t in (Rxy, Ryx, Rxx, R0))
    rec("ensures:no-raise", z3.BoolVal(ok))
    if not ok:
        return
    rec("ensures:reflexive", Rxx)
    rec("ensures:symmetric", Rxy == Ryx)
    rec("ensures:exact-at-zero-tolerance", R0 == x.same(y))
    rec("ensures:tolerances-only-widen", z3.Implies(R0, Rxy))
