"""VC assembly (ground instantiation of quantified facts) and discharge with z3 / cvc5."""

import os
import subprocess
import tempfile
import time

import z3

from . import core

INDEX_SORTS = None


def _index_sorts():
    global INDEX_SORTS
    if INDEX_SORTS is None:
        INDEX_SORTS = {z3.IntSort().name(): z3.IntSort(), "Key": core.Key, "Ref": core.Ref, "Str": core.StrS}
    return INDEX_SORTS


def collect_terms(formulas, sorts, limit=400):
    """Ground subterms of the given sorts (non-numeral), for instantiation."""
    seen = set()
    out = {s.name(): [] for s in sorts}
    stack = list(formulas)
    while stack:
        t = stack.pop()
        tid = t.get_id()
        if tid in seen:
            continue
        seen.add(tid)
        if z3.is_quantifier(t):
            continue
        sn = t.sort().name()
        if sn in out and z3.is_app(t):
            if not (z3.is_int_value(t) or z3.is_rational_value(t)):
                if len(out[sn]) < limit:
                    out[sn].append(t)
        stack.extend(t.children())
    return out


class VC:
    def __init__(self, name, hyps, goal, meta=None):
        self.name = name
        self.hyps = hyps
        self.goal = goal
        self.meta = meta or {}
        self.verdict = None
        self.backend = None
        self.seconds = 0.0
        self.model = None
        self.reason = None
        self.n_instances = 0


def build_vc(name, st, goal, extra_hyps=(), extra_index=(), rounds=2, meta=None):
    """hyps = path condition + string-literal distinctness + ground instances of ForallFacts."""
    hyps = list(st.pc) + list(extra_hyps)
    foralls = list(st.foralls)
    ninst = 0
    if foralls:
        done = set()
        base_terms = list(st.index_terms) + list(extra_index)
        for _ in range(rounds):
            pool = collect_terms(hyps + [goal] + base_terms, [z3.IntSort(), core.Key, core.Ref, core.StrS])
            # small integer constants are always candidates
            pool[z3.IntSort().name()] = pool[z3.IntSort().name()] + [z3.IntVal(0)]
            new = []
            for fi, ff in enumerate(foralls):
                if isinstance(ff.k, (list, tuple)):
                    import itertools

                    pools = [pool.get(k.sort().name(), [])[:24] for k in ff.k]
                    for tup in itertools.product(*pools):
                        key = (fi,) + tuple(t.get_id() for t in tup)
                        if key in done:
                            continue
                        done.add(key)
                        new.append(ff.inst(tup))
                    continue
                terms = pool.get(ff.k.sort().name(), [])
                for t in terms:
                    key = (fi, t.get_id())
                    if key in done:
                        continue
                    done.add(key)
                    new.append(ff.inst(t))
                if ff.bvar is not None and (fi, "w") not in done:
                    done.add((fi, "w"))
                    new.append(ff.witness_axiom())
            if not new:
                break
            ninst += len(new)
            hyps.extend(new)
    hyps.extend(core.strlit_axioms())
    vc = VC(name, hyps, goal, meta)
    vc.n_instances = ninst
    vc.complete = not foralls
    return vc


def to_smt2(vc, logic=None):
    s = z3.Solver()
    for h in vc.hyps:
        s.add(h)
    s.add(z3.Not(vc.goal))
    return s.to_smt2()


def discharge_z3(vc, timeout_ms=20000, want_model=None):
    s = z3.Solver()
    s.set("timeout", timeout_ms)
    for h in vc.hyps:
        s.add(h)
    s.add(z3.Not(vc.goal))
    t0 = time.time()
    r = s.check()
    vc.seconds = time.time() - t0
    vc.backend = "z3-" + z3.get_version_string()
    if r == z3.unsat:
        vc.verdict = "unsat"
    elif r == z3.sat:
        vc.verdict = "sat"
        m = s.model()
        vc.model = m
        if want_model:
            vc.model_values = {}
            for k, term in want_model.items():
                try:
                    vc.model_values[k] = str(m.eval(term, model_completion=True))
                except Exception as e:  # pragma: no cover
                    vc.model_values[k] = f"<{e}>"
    else:
        vc.verdict = "unknown"
        vc.reason = s.reason_unknown()
    return vc


def discharge_cvc5(vc, timeout_s=40, extra_args=()):
    """Second back end: the CLI /usr/bin/cvc5 on the SMT-LIB text of the VC."""
    text = to_smt2(vc)
    with tempfile.NamedTemporaryFile("w", suffix=".smt2", delete=False, dir=os.environ.get("HGV_TMP", "/tmp")) as f:
        f.write("(set-logic ALL)\n" + text)
        path = f.name
    t0 = time.time()
    try:
        p = subprocess.run(
            ["/usr/bin/cvc5", "--tlimit=%d" % (timeout_s * 1000), *extra_args, path],
            capture_output=True,
            text=True,
            timeout=timeout_s + 10,
        )
        out = p.stdout.strip().splitlines()
        ans = out[0].strip() if out else "unknown"
    except subprocess.TimeoutExpired:
        ans = "unknown"
    finally:
        os.unlink(path)
    vc.seconds += time.time() - t0
    vc.backend = (vc.backend + "+" if vc.backend else "") + "cvc5-1.0.3"
    if ans in ("unsat", "sat"):
        vc.verdict = ans
    else:
        vc.verdict = "unknown"
        vc.reason = ans
    return vc


def discharge(vc, tier="quick", want_model=None):
    tz = 20000 if tier == "quick" else 120000
    discharge_z3(vc, tz, want_model)
    if vc.verdict == "unknown":
        try:
            discharge_cvc5(vc, 40 if tier == "quick" else 120)
        except Exception as e:  # cvc5 cannot parse something: stay unknown
            vc.reason = f"cvc5: {e}"
    return vc
