"""VC assembly (ground instantiation of quantified facts) and discharge with z3 / cvc5."""

import os
import subprocess
import tempfile
import time

import z3

from . import core

INDEX_SORTS = None


def _index_sorts():
    global INDEX_SORTS
    if INDEX_SORTS is None:
        INDEX_SORTS = {z3.IntSort().name(): z3.IntSort(), "Key": core.Key, "Ref": core.Ref, "Str": core.StrS}
    return INDEX_SORTS


_TERMS_OF = {}  # formula id -> (formula kept alive, {sort name: [terms]})
_WANTED = None


def _terms_of(f):
    """ground non-numeral subterms of one formula, by sort name (memoised per formula)"""
    global _WANTED
    if _WANTED is None:
        _WANTED = {z3.IntSort().name(), core.Key.name(), core.Ref.name(), core.StrS.name()}
    fid = f.get_id()
    hit = _TERMS_OF.get(fid)
    if hit is not None:
        return hit[1]
    out = {}
    seen = set()
    stack = [f]
    while stack:
        t = stack.pop()
        tid = t.get_id()
        if tid in seen:
            continue
        seen.add(tid)
        if z3.is_quantifier(t):
            continue
        sn = t.sort().name()
        if sn in _WANTED and z3.is_app(t) and not (z3.is_int_value(t) or z3.is_rational_value(t)):
            out.setdefault(sn, []).append(t)
        stack.extend(t.children())
    _TERMS_OF[fid] = (f, out)
    return out


def collect_terms(formulas, sorts, limit=400):
    """Ground subterms of the given sorts (non-numeral), for instantiation."""
    out = {s.name(): [] for s in sorts}
    seen = {k: set() for k in out}
    for f in formulas:
        for sn, ts in _terms_of(f).items():
            if sn not in out:
                continue
            lst, sset = out[sn], seen[sn]
            for t in ts:
                if len(lst) >= limit:
                    break
                i = t.get_id()
                if i not in sset:
                    sset.add(i)
                    lst.append(t)
    return out


def division_lemmas(formulas):
    """definition of real division made explicit for every quotient with a symbolic divisor:
    d != 0  =>  (x / d) * d == x   (helps the nonlinear solver; sound)"""
    seen, out = set(), []
    stack = list(formulas)
    while stack:
        t = stack.pop()
        i = t.get_id()
        if i in seen:
            continue
        seen.add(i)
        if z3.is_app(t) and t.decl().name() == "npquot":
            x, d = t.children()
            out.append(z3.Implies(d != 0, t * d == x))
        elif z3.is_app(t) and t.decl().kind() == z3.Z3_OP_DIV and z3.is_real(t):
            x, d = t.children()
            if not (z3.is_rational_value(d) or z3.is_int_value(d)):
                out.append(z3.Implies(d != 0, t * d == x))
        stack.extend(t.children())
    return out[:50]


class VC:
    def __init__(self, name, hyps, goal, meta=None):
        self.name = name
        self.hyps = hyps
        self.goal = goal
        self.meta = meta or {}
        self.verdict = None
        self.backend = None
        self.seconds = 0.0
        self.model = None
        self.reason = None
        self.n_instances = 0


def build_vc(name, st, goal, extra_hyps=(), extra_index=(), rounds=3, meta=None, level=0):
    """hyps = path condition + string-literal distinctness + ground instances of ForallFacts.
    level > 0: larger instantiation pools (used to re-try a `sat` answer before reporting it)."""
    pair_cap = 32 if level == 0 else 72
    if level > 0:
        rounds += 1
    hyps = list(st.pc) + list(extra_hyps)
    foralls = list(st.foralls)
    ninst = 0
    if foralls:
        done = set()
        base_terms = list(st.index_terms) + list(extra_index)
        base_ids = {t.get_id() for t in base_terms}
        if not any(ff.nested for ff in foralls):
            rounds = min(rounds, 2 if level == 0 else 3)
        for _ in range(rounds):
            pool = collect_terms(base_terms + [goal] + hyps[::-1], [z3.IntSort(), core.Key, core.Ref, core.StrS])
            # small integer constants are always candidates
            pool[z3.IntSort().name()] = pool[z3.IntSort().name()] + [z3.IntVal(0)] + [t for t in base_terms if z3.is_int_value(t) and t.as_long() != 0]
            # keys built from string / int terms (quantified facts over Key instantiated at KStr(s), KInt(i))
            kn = core.Key.name()
            have = {t.get_id() for t in pool.get(kn, [])}
            for t in [b for b in base_terms if b.sort() == core.StrS]:
                kt = core.KStr(t)
                if kt.get_id() not in have:
                    pool.setdefault(kn, []).append(kt)
                    have.add(kt.get_id())
            new = []
            for fi, ff in enumerate(foralls):
                if isinstance(ff.k, (list, tuple)):
                    import itertools

                    pools = [pool.get(k.sort().name(), [])[:pair_cap] for k in ff.k]
                    for tup in itertools.product(*pools):
                        key = (fi,) + tuple(t.get_id() for t in tup)
                        if key in done:
                            continue
                        done.add(key)
                        new.append(ff.inst(tup))
                    continue
                terms = pool.get(ff.k.sort().name(), [])
                if getattr(ff, "base_only", False):
                    terms = [t for t in base_terms if t.sort() == ff.k.sort()]
                for t in terms:
                    key = (fi, t.get_id())
                    if key in done:
                        continue
                    done.add(key)
                    new.append(ff.inst(t))
                    if ff.nested and t.get_id() in base_ids and len(foralls) < 400:
                        # quantified facts created at the generic key: carried along only at the demanded
                        # keys (Skolem constants and witnesses), not at every term of the pool
                        for nf in ff.nested:
                            foralls.append(nf.subst([(ff.k, t)]))
                if ff.bvar is not None and (fi, "w") not in done:
                    done.add((fi, "w"))
                    new.append(ff.witness_axiom())
            if not new:
                break
            ninst += len(new)
            hyps.extend(new)
            for ff in foralls:
                if ff.bvar is not None and ff.witness is not None and ff.witness.get_id() not in base_ids:
                    base_ids.add(ff.witness.get_id())
                    base_terms.append(ff.witness)
            if ninst > 20000:
                break
    hyps.extend(core.strlit_axioms())
    hyps.extend(division_lemmas(hyps + [goal]))
    vc = VC(name, hyps, goal, meta)
    vc.n_instances = ninst
    vc.complete = not foralls
    if foralls and level == 0:
        vc.rebuild = lambda: build_vc(name, st, goal, extra_hyps, extra_index, 3, meta, level=1)
    return vc


def to_smt2(vc, logic=None):
    s = z3.Solver()
    for h in vc.hyps:
        s.add(h)
    s.add(z3.Not(vc.goal))
    return s.to_smt2()


def discharge_z3(vc, timeout_ms=20000, want_model=None):
    s = z3.Solver()
    s.set("timeout", timeout_ms)
    for h in vc.hyps:
        s.add(h)
    s.add(z3.Not(vc.goal))
    t0 = time.time()
    r = s.check()
    vc.seconds = time.time() - t0
    vc.backend = "z3-" + z3.get_version_string()
    if r == z3.unsat:
        vc.verdict = "unsat"
    elif r == z3.sat:
        vc.verdict = "sat"
        m = s.model()
        vc.model = m
        if want_model:
            vc.model_values = {}
            for k, term in want_model.items():
                try:
                    vc.model_values[k] = str(m.eval(term, model_completion=True))
                except Exception as e:  # pragma: no cover
                    vc.model_values[k] = f"<{e}>"
    else:
        vc.verdict = "unknown"
        vc.reason = s.reason_unknown()
    return vc


def discharge_cvc5(vc, timeout_s=40, extra_args=()):
    """Second back end: the CLI /usr/bin/cvc5 on the SMT-LIB text of the VC."""
    text = to_smt2(vc)
    with tempfile.NamedTemporaryFile("w", suffix=".smt2", delete=False, dir=os.environ.get("HGV_TMP", "/tmp")) as f:
        f.write("(set-logic ALL)\n" + text)
        path = f.name
    t0 = time.time()
    try:
        p = subprocess.run(
            ["/usr/bin/cvc5", "--tlimit=%d" % (timeout_s * 1000), *extra_args, path],
            capture_output=True,
            text=True,
            timeout=timeout_s + 10,
        )
        out = p.stdout.strip().splitlines()
        ans = out[0].strip() if out else "unknown"
    except subprocess.TimeoutExpired:
        ans = "unknown"
    finally:
        os.unlink(path)
    vc.seconds += time.time() - t0
    vc.backend = (vc.backend + "+" if vc.backend else "") + "cvc5-1.0.3"
    if ans in ("unsat", "sat"):
        vc.verdict = ans
    else:
        vc.verdict = "unknown"
        vc.reason = ans
    return vc


def discharge(vc, tier="quick", want_model=None):
    tz = 20000 if tier == "quick" else 120000
    discharge_z3(vc, tz, want_model)
    if vc.verdict == "sat" and getattr(vc, "rebuild", None) is not None:
        # a model under incomplete instantiation may be spurious: re-try once with larger pools
        v2 = vc.rebuild()
        discharge_z3(v2, tz, want_model)
        if v2.verdict == "unsat":
            vc.verdict, vc.model, vc.reason = "unsat", None, None
            vc.hyps, vc.n_instances = v2.hyps, v2.n_instances
            vc.seconds += v2.seconds
            vc.backend = (vc.backend or "") + " (2nd instantiation level)"
            return vc
    if vc.verdict == "unknown":
        try:
            discharge_cvc5(vc, 40 if tier == "quick" else 120)
        except Exception as e:  # cvc5 cannot parse something: stay unknown
            vc.reason = f"cvc5: {e}"
    if vc.verdict == "unknown":
        # a wall-clock time-out on a loaded machine must not flip a verdict: once more, with three times the budget
        # and another seed
        first_reason = vc.reason
        z3.set_param("smt.random_seed", 7)
        try:
            discharge_z3(vc, 3 * tz, want_model)
        finally:
            z3.set_param("smt.random_seed", 0)
        if vc.verdict == "unknown":
            vc.reason = f"{first_reason}; retry: {vc.reason}"
        else:
            vc.backend = (vc.backend or "") + " (retry after unknown)"
    if vc.verdict == "unsat" and tier == "thorough" and os.environ.get("HGV_CROSS", "1") == "1":
        cross_check(vc)
    return vc


def cross_check(vc, timeout_s=15):
    """thorough tier: the VC that z3 discharged is handed to cvc5 as well.  `unsat` confirms, `unknown` /
    timeout says nothing, `sat` is a disagreement between the solvers: the obligation becomes undecided
    (never a violation)."""
    probe = VC(vc.name, vc.hyps, vc.goal, getattr(vc, "meta", None))
    probe.seconds = 0.0
    probe.backend = ""
    try:
        discharge_cvc5(probe, timeout_s)
        vc.cross = probe.verdict
    except Exception as e:
        vc.cross = f"error: {type(e).__name__}"
    vc.cross_seconds = round(probe.seconds, 3)
    if vc.cross == "sat":
        vc.verdict = "unknown"
        vc.reason = "solver disagreement: z3 unsat, cvc5 sat"
    return vc
