"""C16: cross-reference detection.

Proved: (1) guard-first clause of every fill (contracts.ob_fill) and of Container.fillnumpy;
(2) children-complete: the `children` property of every class enumerates exactly the fillable child slots
(plus the template slot where the class has one), which is what Container._checkForCrossReferences walks.
Node-level contract of the traversal body: hgv/xref.py.  Bounded (native stand-in): the global induction -- _checkForCrossReferences on trees with one object at
two positions (siblings, cousins, a node and its own descendant), first and later fills, row-wise and numpy.
"""

import ast

import z3

from . import core, models, schema, smt
from .builtins_model import dpos
from .core import Inst, LDict, LList, CList, State, Unsupported, VChild, VObj, VNone
from .execu import Exec
from .extra import add_function, record, record_fact
from .frontend import PRIMITIVES
from .sv import CChild, CIte, CTuple, comp_of

import sys, os
sys.path.insert(0, os.path.dirname(os.path.dirname(os.path.abspath(__file__))))
from spec import specs  # noqa: E402


def tasks_for(prop, tier):
    if prop != "C16":
        return []
    return [("c16", "children", K) for K in PRIMITIVES] + [("c16", "fillnumpy")]


def run_task(P, task, prop, tier, out):
    if task[1] == "fillnumpy":
        return fillnumpy_guard(P, prop, out)
    K = task[2]
    fi = P.lookup_method(K, "children")
    for mode in ("live", "reloaded"):
        X = Exec(P, models.std_hooks())
        st = State()
        selfv = schema.make_instance(st, K, 1, mode=mode)
        try:
            res = X.run(st, fi, [selfv])
        except Unsupported as e:
            out["out_of_reach"].append({"function": fi.qualname, "reason": str(e)})
            return
        add_function(out, fi, mode, paths=len(res))
        o = st.obj(selfv)
        for i, r in enumerate(res):
            p = f"{mode}:p{i}"
            if r.exc is not None:
                vc = smt.build_vc("c16", r.st.fork(), z3.BoolVal(False))
                record(out, prop, fi.qualname, "ensures:no-raise", p, mode, vc, tier)
                continue
            s = r.st
            lst = comp_of(s, r.v) if isinstance(r.v, VObj) else None
            if lst is None:
                vc = smt.build_vc("c16", s.fork(), z3.BoolVal(False))
                record(out, prop, fi.qualname, "ensures:returns-list", p, mode, vc, tier)
                continue

            NOREF = core.Ref.Ext(z3.IntVal(-1))

            def ref_of(c):
                if isinstance(c, CIte):
                    return z3.If(c.c, ref_of(c.a), ref_of(c.b))
                if isinstance(c, CChild) and c.ref is not None:
                    return c.ref
                return NOREF

            def elem_ref(i_):
                return ref_of(lst.val(i_))

            # (a) every fillable slot is enumerated
            for f, kind in specs.CHILDREN.get(K, {}).items():
                fv = o.fields.get(f)
                s2 = s.fork()
                extra = []
                if kind == "one":
                    target = fv.ref
                    guard = z3.BoolVal(True)
                else:
                    c = comp_of(s2, fv)
                    k = s2.fresh("sk.child", c.ksort)
                    s2.add_index(k)
                    comp = c.val(k)
                    if isinstance(comp, CTuple):
                        comp = comp.items[1]
                    target = comp.ref
                    guard = c.dom(k)
                    base = k if c.ksort == z3.IntSort() else dpos(z3.IntVal(s2.obj(fv).did), k)
                    extra = [base + z3.IntVal(cc) for cc in range(0, 5)]
                    if c.ksort != z3.IntSort():
                        for oo in s2.heap.values():
                            if isinstance(oo, LDict):
                                extra += [dpos(z3.IntVal(oo.did), k) + z3.IntVal(cc) for cc in range(0, 5)]
                extra += [z3.IntVal(cc) for cc in range(0, 5)]
                j = z3.Int(f"cj!{core.uid()}")
                missing = s2.forall(j, lst.dom(j), elem_ref(j) != target, equiv=True, name="children-missing")
                vc = smt.build_vc("c16", s2, z3.Implies(guard, z3.Not(missing)), extra_index=extra)
                record(out, prop, fi.qualname, f"ensures:enumerates-slot:{f}", p, mode, vc, tier)
            # (b) nothing else is enumerated: every element is a child slot or the template
            s2 = s.fork()
            j = s2.fresh("sk.elem", z3.IntSort())
            s2.add_index(j)
            r_j = elem_ref(j)
            alts = []
            tv = o.fields.get("value")
            if isinstance(tv, VChild):
                alts.append(r_j == tv.ref)
            if isinstance(tv, VNone):
                alts.append(r_j == NOREF)  # the absent template of a reloaded container (skipped by the traversal)
            own = z3.And(core.Ref.is_Old(r_j), core.Ref.owner(r_j) == 1)
            alts.append(own)
            vc = smt.build_vc("c16", s2, z3.Implies(lst.dom(j), z3.Or(alts)))
            record(out, prop, fi.qualname, "ensures:only-own-slots", p, mode, vc, tier)


def fillnumpy_guard(P, prop, out):
    """Container.fillnumpy calls self._checkForCrossReferences() before self._numpy(...) (syntactic)"""
    fi = P.function("histogrammar.defs.Container.fillnumpy")
    add_function(out, fi, "syntactic")
    body = [s for s in fi.node.body if not (isinstance(s, ast.Expr) and isinstance(s.value, ast.Constant))]
    first = ast.unparse(body[0]) if body else ""
    ok = first.replace(" ", "") == "self._checkForCrossReferences()"
    record_fact(out, prop, fi.qualname, "ensures:guard-first", ok, f"first statement is `{first}`")
    # the traversal skips only the template slot and descends into every other child
    cf = P.function("histogrammar.defs.Container._checkForCrossReferences")
    add_function(out, cf, "syntactic")
    src = ast.unparse(cf.node)
    ok2 = "for child in self.children" in src and "child._checkForCrossReferences(memo)" in src and "raise ContainerException" in src
    record_fact(out, prop, cf.qualname, "ensures:walks-children-and-raises", ok2, "structure of the traversal (for child in self.children ... recursive call ... raise)")
