"""C17: user-function wrappers (util.py): serializable / cached / named commute, a second name raises,
CachedFcn.__call__ and UserFcn.__call__ return what the underlying function returns (A-USERFN)."""

import itertools

import z3

from . import core, models, smt
from .builtins_model import uf_o
from .core import NONE, CDict, Inst, State, Unsupported, VBool, VObj, VOpq, VStr, VTuple
from .execu import Exec
from .extra import add_function, record

U = "histogrammar.util."


def tasks_for(prop, tier):
    if prop != "C17":
        return []
    return [("c17", "orders"), ("c17", "second-name"), ("c17", "cached-call"), ("c17", "userfcn-call"), ("c17", "eq")]


def _X(P, **hooks):
    h = models.std_hooks(inline_userfcn=True, userfn_kinds=["raise", "other"], **hooks)
    return Exec(P, h)


def call(X, st, name, args):
    fi = X.P.modules["histogrammar.util"].functions[name]
    st.frames = [{"%module": "histogrammar.util"}]
    return X.call_function(st, fi, args, {})


def field(st, v, f):
    return st.obj(v).fields.get(f)


def run_task(P, task, prop, tier, out):
    kind = task[1]
    util = P.modules["histogrammar.util"]
    if kind == "orders":
        # every order of {named(n, .), cached, serializable} on a function and on a string expression
        X = _X(P)
        for fi in (util.functions["named"], util.functions["cached"], util.functions["serializable"], util.classes["UserFcn"].methods["__init__"]):
            add_function(out, fi, "orders")
        for what in ("function", "def", "string"):
            results = {}
            for order in itertools.permutations(["named", "cached", "serializable"]):
                st = State()
                if what in ("function", "def"):
                    f0 = VOpq(z3.Const("f", core.Opq), "function")
                    fnm = z3.Function("fn_name", core.Opq, core.StrS)(f0.t)
                    st.add(fnm == core.strlit("<lambda>") if what == "function" else fnm != core.strlit("<lambda>"))
                else:
                    f0 = VStr(z3.Const("expr", core.StrS))
                nm = VStr(z3.Const("n", core.StrS))
                cur = [(st, f0)]
                ok = True
                for step in order:
                    nxt = []
                    for s, v in cur:
                        args = [nm, v] if step == "named" else [v]
                        for r in call(X, s, step, args):
                            if r.exc is not None:
                                vc = smt.build_vc("c17", r.st, z3.BoolVal(False))
                                record(out, prop, U + step, "ensures:no-raise-in-any-order", "-".join(order) + ":" + what, what, vc, tier)
                            else:
                                nxt.append((r.st, r.v))
                    cur = nxt
                for i, (s, v) in enumerate(cur):
                    o = s.obj(v) if isinstance(v, VObj) else None
                    good = isinstance(o, Inst) and o.cls == "CachedFcn"
                    goal = z3.BoolVal(False)
                    if good:
                        e, n_ = o.fields.get("expr"), o.fields.get("name")
                        goal = z3.And(
                            (e.t == f0.t) if hasattr(e, "t") else z3.BoolVal(False),
                            (n_.t == nm.t) if isinstance(n_, VStr) else z3.BoolVal(False),
                        )
                    vc = smt.build_vc("c17", s.fork(), goal)
                    record(out, prop, U + order[-1], "ensures:wrapper-is-CachedFcn(expr,name)", "-".join(order) + f":{what}:p{i}", what, vc, tier)
                    results[order] = (s, v)
            # pairwise equality of the six results (UserFcn.__eq__ on the real objects)
            orders = list(results)
            eqfi = util.classes["UserFcn"].methods["__eq__"]
            add_function(out, eqfi, "orders-eq")
            for a, b in itertools.combinations(orders, 2):
                sa, va = results[a]
                sb, vb = results[b]
                s = sa.fork()
                # import b's object into a's state (fields are terms over shared constants)
                s.heap[vb.oid] = sb.heap[vb.oid]
                s.pc += [c for c in sb.pc]
                s.frames = [{"%module": "histogrammar.util"}]
                for i, r in enumerate(X.call_function(s, eqfi, [va, vb], {})):
                    goal = z3.BoolVal(False) if r.exc is not None else X.truth(r.st, r.v)
                    vc = smt.build_vc("c17", r.st.fork(), goal)
                    record(out, prop, U + "UserFcn.__eq__", "ensures:orders-yield-equal-wrappers", f"{'-'.join(a)}=={'-'.join(b)}:{what}:p{i}", what, vc, tier)
    elif kind == "second-name":
        X = _X(P)
        add_function(out, util.functions["named"], "second-name")
        for cls, what in itertools.product(("UserFcn", "CachedFcn"), ("lambda", "def", "string")):
            st = State()
            n0 = z3.Const("n0", core.StrS)
            if what == "string":
                ex = VStr(z3.Const("expr", core.StrS))
                st.add(n0 != ex.t)  # a name applied by the user, not the automatic one
            else:
                ex = VOpq(z3.Const("f", core.Opq), "function")
                fname = z3.Function("fn_name", core.Opq, core.StrS)(ex.t)
                st.add(fname == core.strlit("<lambda>") if what == "lambda" else z3.And(fname != core.strlit("<lambda>"), fname != n0))
            w = st.alloc(Inst(cls, {"expr": ex, "name": VStr(n0)}), new=False)
            for i, r in enumerate(call(X, st, "named", [VStr(z3.Const("n1", core.StrS)), w])):
                ok = r.exc is not None and r.exc.cls == "ValueError"
                vc = smt.build_vc("c17", r.st.fork(), z3.BoolVal(ok))
                record(out, prop, U + "named", "raises:second-name-ValueError", f"{cls}:{what}:p{i}", cls, vc, tier)
    elif kind in ("cached-call", "userfcn-call"):
        cls = "CachedFcn" if kind == "cached-call" else "UserFcn"
        fi = P.lookup_method(cls, "__call__")
        add_function(out, fi, kind)
        if cls == "CachedFcn":
            add_function(out, P.lookup_method("UserFcn", "__call__"), kind)
        variants = ["fresh", "warm", "warm-longer"] if cls == "CachedFcn" else ["fresh", "warm-fcn"]
        for variant in variants:
            X = _X(P)
            st = State()
            e = z3.Const("f", core.Opq)
            d = z3.Const("d", core.Datum)
            d0 = z3.Const("d0", core.Datum)
            fields = {"expr": VOpq(e, "function"), "name": NONE}
            if variant == "warm":
                # class invariant of CachedFcn: lastReturn is the function's value at lastArgs
                fields["lastArgs"] = VTuple([VOpq(d0, "datum")])
                fields["lastKwds"] = st.alloc(CDict({}), new=False)
                fields["lastReturn"] = VOpq(uf_o(e, d0), "other")
                fields["fcn"] = VOpq(e, "function")
            if variant == "warm-longer":
                # the previous call had one more positional argument: not a cache hit for the shorter call
                d1 = z3.Const("d1", core.Datum)
                pair = z3.Function("datum_pair", core.Datum, core.Datum, core.Datum)
                fields["lastArgs"] = VTuple([VOpq(d0, "datum"), VOpq(d1, "datum")])
                fields["lastKwds"] = st.alloc(CDict({}), new=False)
                fields["lastReturn"] = VOpq(uf_o(e, pair(d0, d1)), "other")
                fields["fcn"] = VOpq(e, "function")
                st.add(uf_o(e, pair(d0, d1)) != uf_o(e, d0))
            if variant == "warm-fcn":
                fields["fcn"] = VOpq(e, "function")
            w = st.alloc(Inst(cls, fields), new=False)
            pre = st.fork()
            st.frames = [{"%module": "histogrammar.util"}]
            res = X.call_function(st, fi, [w, VOpq(d, "datum")], {})
            for i, r in enumerate(res):
                s = r.st
                p = f"{variant}:p{i}"
                raised_by_f = any(ev[0] == "userfn" and ev[1] == "raise" for ev in s.events)
                if r.exc is not None:
                    vc = smt.build_vc("c17", s.fork(), z3.BoolVal(raised_by_f))
                    record(out, prop, fi.qualname, "raises:only-if-function-raises", p, variant, vc, tier)
                    if cls == "CachedFcn":
                        # a call that raised leaves the cache describing the last successful call
                        o1, o0 = s.obj(w), pre.obj(w)
                        keep = all(o1.fields.get(k) is o0.fields.get(k) for k in ("lastArgs", "lastKwds", "lastReturn"))
                        vc = smt.build_vc("c17", s.fork(), z3.BoolVal(bool(keep)))
                        record(out, prop, fi.qualname, "raises:cache-unchanged", p, variant, vc, tier)
                    continue
                goal = (r.v.t == uf_o(e, d)) if isinstance(r.v, VOpq) and r.v.t.sort() == core.Opq else z3.BoolVal(False)
                vc = smt.build_vc("c17", s.fork(), goal)
                record(out, prop, fi.qualname, "ensures:returns-function-value", p, variant, vc, tier)
                o = s.obj(w)
                if cls == "CachedFcn":
                    la, lr = o.fields.get("lastArgs"), o.fields.get("lastReturn")
                    inv = z3.BoolVal(False)
                    if isinstance(la, VTuple) and len(la.items) == 1 and isinstance(lr, VOpq):
                        inv = lr.t == uf_o(e, la.items[0].t)
                    elif isinstance(la, VTuple) and len(la.items) == 2 and isinstance(lr, VOpq):
                        pair = z3.Function("datum_pair", core.Datum, core.Datum, core.Datum)
                        inv = lr.t == uf_o(e, pair(la.items[0].t, la.items[1].t))
                    vc = smt.build_vc("c17", s.fork(), inv)
                    record(out, prop, fi.qualname, "ensures:cache-invariant", p, variant, vc, tier)
                # frame: only the cache fields / fcn change
                allowed = {"lastArgs", "lastKwds", "lastReturn", "fcn"}
                o0 = pre.obj(w)
                same = all(o.fields.get(k) is o0.fields.get(k) for k in set(o.fields) | set(o0.fields) if k not in allowed)
                vc = smt.build_vc("c17", s.fork(), z3.BoolVal(same))
                record(out, prop, fi.qualname, "ensures:frame", p, variant, vc, tier)
    elif kind == "eq":
        # UserFcn.__eq__ is reflexive on wrappers of either expr kind and never raises on wrappers
        X = _X(P)
        fi = util.classes["UserFcn"].methods["__eq__"]
        add_function(out, fi, "eq")
        for what in ("function", "string", "none"):
            st = State()
            ex = {"function": VOpq(z3.Const("f", core.Opq), "function"), "string": VStr(z3.Const("expr", core.StrS)), "none": NONE}[what]
            a = st.alloc(Inst("UserFcn", {"expr": ex, "name": VStr(z3.Const("n", core.StrS))}), new=False)
            st.frames = [{"%module": "histogrammar.util"}]
            for i, r in enumerate(X.call_function(st, fi, [a, a], {})):
                goal = z3.BoolVal(False) if r.exc is not None else X.truth(r.st, r.v)
                vc = smt.build_vc("c17", r.st.fork(), goal)
                record(out, prop, fi.qualname, "ensures:reflexive", f"{what}:p{i}", what, vc, tier)
