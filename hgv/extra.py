"""Obligation families that are not per-method interface clauses: algebraic laws, fp64 routing,
JSON round trip, cross-reference check, user-function wrappers, pickle hooks, numpy layer, accessors."""


def tasks_for(prop, tier):
    ts = []
    try:
        from . import laws

        ts += laws.tasks_for(prop, tier)
    except ImportError:
        pass
    return ts


def run_task(P, task, prop, tier, out):
    kind = task[0]
    if kind == "law":
        from . import laws

        return laws.run_task(P, task, prop, tier, out)
    raise ValueError(f"unknown task {task}")
