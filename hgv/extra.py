"""Obligation families that are not per-method interface clauses: algebraic laws, fp64 routing,
JSON round trip, cross-reference check, user-function wrappers, pickle hooks, numpy layer, accessors."""

import importlib

from . import smt

MODULES = {
    "law": "laws",
    "c17": "c17",
    "c16": "c16",
    "fp64": "fp64",
    "json": "jsonob",
    "c11": "c11",
    "ctor": "ctor",
    "c13": "c13",
    "part": "partition",
    "xref": "xref",
    "numeq": "numeqob",
    "accframe": "accframe",
    "c03": "c03",
    "native": "nativeob",
    "lean": "leanob",
    "syn": "syntactic",
}


def _mods():
    for kind, name in MODULES.items():
        try:
            yield kind, importlib.import_module("." + name, __package__)
        except ImportError as e:
            if name not in str(e):
                raise


def tasks_for(prop, tier):
    ts = []
    for kind, m in _mods():
        ts += m.tasks_for(prop, tier)
    return ts


def run_task(P, task, prop, tier, out):
    kind = task[0]
    m = importlib.import_module("." + MODULES[kind], __package__)
    return m.run_task(P, task, prop, tier, out)


def record(out, prop, fn_qual, clause, path, variant, vc, tier="quick", describe=None):
    """discharge a VC and append a record in the common format"""
    smt.discharge(vc, tier, want_model=getattr(vc, "inputs", None))
    rec = {
        "obligation": f"{prop}/{fn_qual}/{clause}",
        "function": fn_qual,
        "clause": clause,
        "path": path,
        "variant": variant,
        "verdict": vc.verdict,
        "backend": vc.backend,
        "seconds": round(vc.seconds, 4),
        "hyps": len(vc.hyps),
        "instances": vc.n_instances,
        "reason": vc.reason,
    }
    if getattr(vc, "cross", None) is not None:
        rec["cross"] = vc.cross
        rec["cross_seconds"] = vc.cross_seconds
    if vc.verdict == "sat":
        rec["model"] = getattr(vc, "model_values", {})
        try:
            rec["model_text"] = str(vc.model)[:3000]
        except Exception:
            rec["model_text"] = ""
    out["records"].append(rec)
    return rec


def record_fact(out, prop, fn_qual, clause, ok, detail="", backend="syntactic/ast"):
    """an obligation decided by a syntactic / structural check over the AST (no solver)"""
    out["records"].append(
        {
            "obligation": f"{prop}/{fn_qual}/{clause}",
            "function": fn_qual,
            "clause": clause,
            "path": "p0",
            "variant": "syntactic",
            "verdict": "unsat" if ok else "sat",
            "backend": backend,
            "seconds": 0.0,
            "hyps": 0,
            "instances": 0,
            "reason": detail,
            "model": {"detail": detail} if not ok else {},
        }
    )


def add_function(out, fi, variant="", paths=0, vcs=0):
    d = fi.describe()
    d.update({"variant": variant, "paths": paths, "vcs": vcs})
    out["functions"].append(d)
