"""Assumed contracts of Python built-ins and library functions, as encoded by HGV.

Everything in this file is part of the trusted base (DESIGN §5): each entry states the
behaviour the executor assumes for a built-in / stdlib function.
"""

import ast

import z3

from . import core
from .core import (
    NONE,
    CDict,
    CList,
    CSet,
    Inst,
    LDict,
    LList,
    LSet,
    Unsupported,
    V,
    VBool,
    VBuiltin,
    VChild,
    VClass,
    VFl,
    VFunc,
    VInt,
    VIte,
    VJson,
    VLambda,
    VModule,
    VNone,
    VObj,
    VOpq,
    VStr,
    VTuple,
    vite,
)
from .fl import Fl


class VKey(V):
    """A dictionary key known only as a term of sort Key."""

    kind = "key"

    def __init__(self, t):
        self.t = t

    def __repr__(self):
        return f"VKey({self.t})"


class VIter(V):
    kind = "iter"

    def __init__(self, what, *parts):
        self.what = what
        self.parts = parts

    def __repr__(self):
        return f"VIter({self.what})"


# opaque python mappings (a function's __globals__, a module's globals()): membership and lookup by name
mhas = z3.Function("mapping_has", core.Opq, core.StrS, z3.BoolSort())
mget = z3.Function("mapping_get", core.Opq, core.StrS, core.Opq)
MAPPING_TAGS = ("attr:__globals__", "opaque-dict")


def name_term(v):
    """StrS term of a string-like value (VStr or a string dict key)"""
    if isinstance(v, VStr):
        return v.t
    if isinstance(v, VKey):
        return core.Key.ks(v.t)
    return None


# uninterpreted helpers
key2str = z3.Function("key2str", core.Key, core.StrS)  # str(k) for a dict key
str2key = z3.Function("str2key", core.StrS, core.Key)  # inverse of key2str on the keys of one dict (injectivity assumed for int keys)
int2str = z3.Function("int2str", z3.IntSort(), core.StrS)
str2int = z3.Function("str2int", core.StrS, z3.IntSort())
str2int_ok = z3.Function("str2int_ok", core.StrS, z3.BoolSort())
denum = z3.Function("denum", z3.IntSort(), z3.IntSort(), core.Key)
dpos = z3.Function("dpos", z3.IntSort(), core.Key, z3.IntSort())
uf_kind = z3.Function("uf_kind", core.Opq, core.Datum, z3.IntSort())
uf_nan = z3.Function("uf_nan", core.Opq, core.Datum, z3.BoolSort())
uf_pinf = z3.Function("uf_pinf", core.Opq, core.Datum, z3.BoolSort())
uf_ninf = z3.Function("uf_ninf", core.Opq, core.Datum, z3.BoolSort())
uf_r = z3.Function("uf_r", core.Opq, core.Datum, z3.RealSort())
uf_b = z3.Function("uf_b", core.Opq, core.Datum, z3.BoolSort())
uf_s = z3.Function("uf_s", core.Opq, core.Datum, core.StrS)
uf_o = z3.Function("uf_o", core.Opq, core.Datum, core.Opq)
datum_of_real = z3.Function("datum_of_real", z3.RealSort(), core.Datum)
hash_of = z3.Function("hash_of", core.Opq, z3.IntSort())

UF_RAISE, UF_NUM, UF_BOOL, UF_STR, UF_NONE, UF_OTHER = range(6)

TYPE_NAMES = {
    "str": "type.str",
    "basestring": "type.str",
    "bool": "type.bool",
    "int": "type.int",
    "long": "type.int",
    "float": "type.float",
    "list": "type.list",
    "tuple": "type.tuple",
    "dict": "type.dict",
    "set": "type.set",
}

BUILTIN_FUNCS = {
    "object",
    "len",
    "isinstance",
    "hasattr",
    "getattr",
    "setattr",
    "callable",
    "hash",
    "abs",
    "min",
    "max",
    "all",
    "any",
    "sum",
    "sorted",
    "zip",
    "enumerate",
    "range",
    "xrange",
    "map",
    "repr",
    "type",
    "print",
    "id",
    "round",
    "super",
    "compile",
    "eval",
    "globals",
}

EXC_NAMES = {
    "TypeError",
    "ValueError",
    "KeyError",
    "IndexError",
    "AttributeError",
    "RuntimeError",
    "NotImplementedError",
    "NameError",
    "ImportError",
    "BaseException",
    "Exception",
    "AssertionError",
    "ZeroDivisionError",
    "OverflowError",
}


def Res(st, v=None, exc=None):
    from .execu import Res as R

    return R(st, v, exc)


class Builtins:
    def __init__(self, X):
        self.X = X

    # ------------------------------------------------------------------ names
    def builtin_name(self, name):
        if name in TYPE_NAMES:
            return VBuiltin(TYPE_NAMES[name])
        if name in BUILTIN_FUNCS:
            return VBuiltin(name)
        if name in EXC_NAMES:
            return VBuiltin("exc." + name)
        if name == "True":
            return VBool(True)
        return None

    def module_constant(self, st, mod, name):
        g = self.X.hooks.get("globals", {})
        if (mod.name, name) in g:
            return g[(mod.name, name)]
        node = mod.constants[name]
        if isinstance(node, ast.Name):
            return self.X.lookup_global(st, node.id, mod.name)
        if isinstance(node, ast.Constant) or (isinstance(node, ast.UnaryOp) and isinstance(node.operand, ast.Constant)):
            v = ast.literal_eval(node)
            if isinstance(v, bool):
                return VBool(v)
            if isinstance(v, int):
                return VInt(v)
            if isinstance(v, float):
                return VFl(Fl.const(v))
            if isinstance(v, str):
                return VStr(v)
        if name in ("identity", "unweighted", "square") and mod.name == "histogrammar.defs":
            return self.global_userfcn(st, name)
        if mod.name == "histogrammar.version" and name == "specification":
            return VStr(z3.Const("version.specification", core.StrS))  # "<major>.<minor>" of version (string ops not modelled)
        raise Unsupported(f"module constant {mod.name}.{name}")

    def global_userfcn(self, st, name):
        reg = st.heap.setdefault("__globals__", {})
        if name not in reg:
            reg = dict(reg)
            oid = core.uid()
            st.heap[oid] = Inst(
                "UserFcn",
                {"expr": VOpq(z3.Const("fn:" + name, core.Opq), "function"), "name": VStr(name)},
            )
            reg[name] = oid
            st.heap["__globals__"] = reg
        return VObj(reg[name])

    def default_value(self, st, fi, pname, node):
        if isinstance(node, ast.Constant):
            return self.X.ev_Constant(st, node)[0].v
        if isinstance(node, ast.Name):
            return self.X.lookup_global(st, node.id, fi.module)
        src = ast.unparse(node)
        if src == "Count()":
            # an aggregator created at import time: a *global* object shared by every call
            n = abs(hash((fi.qualname, pname))) % (10**9)
            ref = core.Ref.Glob(z3.IntVal(n))
            v = core.V0(ref)
            st.add(core.cname(core.SH(v)) == core.strlit("Count"), core.E(v) == 0, core.wfv(v), core.bkv(v))
            return VChild(ref)
        if src == "set()":
            return st.alloc(CSet([]), new=False)
        if src == "[]":
            return st.alloc(CList([]), new=False)
        if isinstance(node, ast.UnaryOp):
            return self.X.ev(st, node)[0].v
        raise Unsupported(f"default value {src}")

    def class_attr(self, st, cls, name, node):
        if cls == "Factory" and name == "registered":
            return [Res(st, VBuiltin("Factory.registered"))]
        r = self.X.ev(st, node)
        return r

    def post_class_attr(self, st, v, cls, name):
        # Count.n_dim = n_dim ; Count.datatype = datatype  (util properties)
        if name in ("n_dim", "datatype"):
            fi = self.X.P.modules["histogrammar.util"].functions[name]
            return self.X.call_function(st, fi, [v], {})
        raise Unsupported(f"class attribute {cls}.{name}")

    def class_getattr(self, st, v, name):
        fi = self.X.P.lookup_method(v.name, name)
        if fi is not None:
            return [Res(st, VFunc(fi))]
        ca = self.X.P.lookup_class_attr(v.name, name)
        if ca is not None:
            return self.class_attr(st, ca[0], name, ca[1])
        if name == "__name__":
            return [Res(st, VStr(v.name))]
        if name == "__new__":
            return [Res(st, VBuiltin("class.__new__", v))]
        return self.X.raise_(st, "AttributeError", f"{v.name}.{name}")

    def module_getattr(self, st, v, name):
        m = v.name
        if m + "." + name in self.X.P.modules:
            return [Res(st, VModule(m + "." + name))]
        if m in self.X.P.modules:
            return [Res(st, self.X.lookup_global(st, name, m))]
        if m == "numpy" and name in ("inf", "nan"):
            return [Res(st, VFl(Fl.const(float(name))))]
        return [Res(st, VBuiltin(f"{m}.{name}"))]

    def value_getattr(self, st, v, name):
        if isinstance(v, VOpq) and v.tag == "function" and name == "__name__":
            return [Res(st, VStr(z3.Function("fn_name", core.Opq, core.StrS)(v.t)))]
        if isinstance(v, VOpq) and v.tag == "function" and name in ("__defaults__", "__closure__", "__globals__"):
            f = z3.Function("attr_" + name, core.Opq, core.Opq)
            return [Res(st, VOpq(f(v.t), "attr:" + name))]
        if isinstance(v, VOpq) and v.tag == "attr:__code__" and name == "co_names":
            return [Res(st, VOpq(z3.Function("attr_co_names", core.Opq, core.Opq)(v.t), "attr:co_names"))]
        if isinstance(v, VOpq) and v.tag in ("function", "attr:__code__") and name in ("__code__", "co_code", "func_code", "__name__"):
            if name == "func_code":
                return self.X.raise_(st, "AttributeError", "func_code")
            f = z3.Function("attr_" + name, v.t.sort(), core.Opq)
            return [Res(st, VOpq(f(v.t), "attr:" + name))]
        return [Res(st, VBuiltin("val." + name, v))]

    def builtin_getattr(self, st, v, name):
        if v.name == "child.quantity" and name == "name":
            vw = st.view(v.self_v.ref)
            return [Res(st, vite(core.has_qname(vw), VStr(core.qname(vw)), NONE))]
        if v.name == "np.finfo.obj" and name == "eps":
            return [Res(st, VFl(Fl.const(2.0**-52), "npfloat"))]
        return [Res(st, VBuiltin(v.name + "." + name, v.self_v))]

    def func_getattr(self, st, v, name):
        if name == "__name__":
            if isinstance(v, VLambda):
                nm = getattr(v.node, "name", "<lambda>")
                return [Res(st, VStr(nm))]
            return [Res(st, VStr(v.fi.name))]
        return [Res(st, VOpq(st.fresh("fnattr." + name, core.Opq), "fnattr"))]

    # ------------------------------------------------------------------ keys
    def pykey(self, v):
        if isinstance(v, VStr) and v.py is not None:
            return v.py
        if isinstance(v, VInt) and z3.is_int_value(z3.simplify(v.t)):
            return z3.simplify(v.t).as_long()
        if isinstance(v, VBool) and (z3.is_true(v.t) or z3.is_false(v.t)):
            return z3.is_true(v.t)
        raise Unsupported(f"non-literal key {v!r} for concrete dict")

    def try_pykey(self, v):
        try:
            return self.pykey(v)
        except Unsupported:
            return None

    def keyterm(self, v):
        if isinstance(v, VKey):
            return v.t
        if isinstance(v, VStr):
            return core.KStr(v.t)
        if isinstance(v, VInt):
            return core.KInt(v.t)
        if isinstance(v, VBool):
            return core.Key.KBool(v.t)
        if isinstance(v, VNone):
            return core.KNONE
        if isinstance(v, VFl):
            # float keys (Bag): nan never reaches a dict in this code base (floatOrNan maps it to "nan")
            return z3.If(v.fl.pinf, core.Key.KPInf, z3.If(v.fl.ninf, core.Key.KNInf, core.Key.KReal(v.fl.r)))
        raise Unsupported(f"key term of {v!r}")

    def pykey_term(self, pk):
        if isinstance(pk, bool):
            return core.Key.KBool(z3.BoolVal(pk))
        if isinstance(pk, str):
            return core.KStr(core.strlit(pk))
        if isinstance(pk, int):
            return core.KInt(z3.IntVal(pk))
        raise Unsupported("pykey_term")

    def pykey_value(self, pk):
        if isinstance(pk, bool):
            return VBool(pk)
        if isinstance(pk, str):
            return VStr(pk)
        return VInt(pk)

    # ------------------------------------------------------------------ numbers
    def num(self, v):
        """-> Fl or None"""
        if isinstance(v, VFl):
            return v.fl
        if isinstance(v, VInt):
            return Fl.fin(z3.ToReal(v.t))
        if isinstance(v, VBool):
            return Fl.fin(z3.If(v.t, z3.RealVal(1), z3.RealVal(0)))
        return None

    def _split_args(self, st, vals, fn):
        """Resolve VIte arguments by forking, then call fn(state, values)."""
        states = [(st, [])]
        for v in vals:
            nxt = []
            for s, acc in states:
                for s2, v2 in self.X.split_ite(s, v):
                    nxt.append((s2, acc + [v2]))
            states = nxt
        out = []
        for s, acc in states:
            out.extend(fn(s, acc))
        return out

    # ------------------------------------------------------------------ comparisons
    def compare(self, st, op, a, b):
        return self._split_args(st, [a, b], lambda s, vs: self._compare(s, op, vs[0], vs[1]))

    def _compare(self, st, op, a, b):
        X = self.X
        from . import npmodel

        if (npmodel.is_arr(st, a) or npmodel.is_arr(st, b)) and not isinstance(op, (ast.Is, ast.IsNot, ast.In, ast.NotIn)):
            return npmodel.compare(X, st, op, a, b)
        if isinstance(op, (ast.Is, ast.IsNot)):
            r = self.identical(st, a, b)
            return [Res(st, VBool(r if isinstance(op, ast.Is) else z3.Not(r)))]
        if isinstance(op, (ast.In, ast.NotIn)):
            out = []
            for r in self.contains(st, b, a):
                if r.exc is None and isinstance(op, ast.NotIn):
                    r = Res(r.st, VBool(z3.Not(r.v.t)))
                out.append(r)
            return out
        if isinstance(op, (ast.Eq, ast.NotEq)):
            out = []
            for r in self.equals(st, a, b):
                if r.exc is None and isinstance(op, ast.NotEq):
                    # a != b on instances dispatches to __ne__
                    r = Res(r.st, VBool(z3.Not(X.truth(r.st, r.v))))
                out.append(r)
            return out
        fa, fb = self.num(a), self.num(b)
        if fa is not None and fb is not None:
            if isinstance(a, VInt) and isinstance(b, VInt):
                t = {ast.Lt: a.t < b.t, ast.LtE: a.t <= b.t, ast.Gt: a.t > b.t, ast.GtE: a.t >= b.t}[type(op)]
            else:
                t = {ast.Lt: fa.lt(fb), ast.LtE: fa.le(fb), ast.Gt: fa.gt(fb), ast.GtE: fa.ge(fb)}[type(op)]
            return [Res(st, VBool(t))]
        if isinstance(a, VJson) or isinstance(b, VJson):
            from . import jsonmodel

            return jsonmodel.compare(X, st, op, a, b)
        if isinstance(a, VStr) and isinstance(b, VStr):
            raise Unsupported("string ordering")
        kinds = (a.kind, b.kind)
        if "none" in kinds or (("str" in kinds) and (fa is not None or fb is not None)):
            return X.raise_(st, "TypeError", "ordering of incomparable types")
        if isinstance(a, (VChild, VObj, VOpq)) or isinstance(b, (VChild, VObj, VOpq)):
            if fa is not None or fb is not None or isinstance(a, VStr) or isinstance(b, VStr):
                return X.raise_(st, "TypeError", "ordering of incomparable types")
        raise Unsupported(f"compare {type(op).__name__} {a!r} {b!r}")

    def identical(self, st, a, b):
        for x, y in ((a, b), (b, a)):
            if isinstance(x, VBuiltin) and x.name == "child.transform":
                g = st.heap.get("__globals__", {})
                if isinstance(y, VObj) and y.oid == g.get("identity"):
                    return z3.Function("count_identity", core.View, z3.BoolSort())(st.view(x.self_v.ref))
                raise Unsupported("identity of a child's transform")
        if isinstance(a, VNone) or isinstance(b, VNone):
            return z3.BoolVal(isinstance(a, VNone) and isinstance(b, VNone))
        if isinstance(a, VObj) and isinstance(b, VObj):
            return z3.BoolVal(a.oid == b.oid)
        if isinstance(a, VChild) and isinstance(b, VChild):
            return a.ref == b.ref
        if isinstance(a, VBool) and isinstance(b, VBool):
            return a.t == b.t
        if a.kind != b.kind:
            return z3.BoolVal(False)
        if isinstance(a, VOpq) and isinstance(b, VOpq):
            return a.t == b.t
        if isinstance(a, VClass):
            return z3.BoolVal(a.name == b.name)
        if isinstance(a, VStr):
            return a.t == b.t  # interned / same object assumption only used for literals
        raise Unsupported(f"identity of {a!r} and {b!r}")

    def equals(self, st, a, b):
        """python a == b  -> list of Res(VBool)"""
        X = self.X
        fa, fb = self.num(a), self.num(b)
        if fa is not None and fb is not None:
            if isinstance(a, VInt) and isinstance(b, VInt):
                return [Res(st, VBool(a.t == b.t))]
            return [Res(st, VBool(fa.eq(fb)))]
        if isinstance(a, VJson) or isinstance(b, VJson):
            from . import jsonmodel

            return jsonmodel.compare(X, st, ast.Eq(), a, b)
        if isinstance(a, VStr) and isinstance(b, VStr):
            return [Res(st, VBool(a.t == b.t))]
        if isinstance(a, VKey) or isinstance(b, VKey):
            return [Res(st, VBool(self.keyterm(a) == self.keyterm(b)))]
        if isinstance(a, VObj):
            o = st.obj(a)
            if isinstance(o, Inst):
                fi = X.P.lookup_method(o.cls, "__eq__")
                if fi is not None:
                    return X.call_function(st, fi, [a, b], {})
                return [Res(st, VBool(isinstance(b, VObj) and b.oid == a.oid))]
            if isinstance(b, VObj):
                from . import loops

                return loops.collection_equals(X, st, a, b)
            return [Res(st, VBool(False))]
        if isinstance(b, VObj) and isinstance(st.obj(b), Inst) and not isinstance(a, VChild):
            fi = X.P.lookup_method(st.obj(b).cls, "__eq__")
            if fi is not None and isinstance(a, (VNone, VStr, VFl, VInt, VBool, VTuple)):
                return [Res(st, VBool(False))]
        if isinstance(a, VChild):
            return X.I.eq(st, a, b)
        if isinstance(b, VChild):
            return X.I.eq(st, b, a)
        if isinstance(a, VTuple) and isinstance(b, VTuple):
            if len(a.items) != len(b.items):
                return [Res(st, VBool(False))]
            results = [Res(st, VBool(True))]
            for x, y in zip(a.items, b.items):
                nxt = []
                for r in results:
                    if r.exc is not None:
                        nxt.append(r)
                        continue
                    for s, tv in X.branch(r.st, r.v.t):
                        if not tv:
                            nxt.append(Res(s, VBool(False)))
                        else:
                            nxt.extend(self.elem_equals(s, x, y))
                results = nxt
            return results
        if isinstance(a, VOpq) and isinstance(b, VOpq):
            return [Res(st, VBool(a.t == b.t))]
        if isinstance(a, VNone) or isinstance(b, VNone):
            return [Res(st, VBool(isinstance(a, VNone) and isinstance(b, VNone)))]
        if a.kind != b.kind:
            return [Res(st, VBool(False))]
        if isinstance(a, VClass):
            return [Res(st, VBool(a.name == b.name))]
        raise Unsupported(f"equality of {a!r} and {b!r}")

    def elem_equals(self, st, x, y):
        """Element comparison inside containers: identity shortcut, then ==."""
        try:
            ident = self.identical(st, x, y)
        except Unsupported:
            ident = z3.BoolVal(False)
        out = []
        for s, same in self.X.branch(st, ident):
            if same:
                out.append(Res(s, VBool(True)))
            else:
                out.extend(self.equals(s, x, y))
        return out

    def contains(self, st, cont, item):
        X = self.X
        if isinstance(cont, VOpq) and cont.tag in MAPPING_TAGS and name_term(item) is not None:
            return [Res(st, VBool(mhas(cont.t, name_term(item))))]
        if isinstance(cont, VTuple) and isinstance(item, VJson) and all(isinstance(x, VStr) for x in cont.items):
            from . import jsonmodel as JM

            t = item.t
            return [Res(st, VBool(z3.And(JM.jtag(t) == JM.STR, z3.Or([JM.jstr(t) == x.t for x in cont.items]))))]
        if isinstance(cont, VTuple):
            results = [Res(st, VBool(False))]
            for x in cont.items:
                nxt = []
                for r in results:
                    if r.exc is not None:
                        nxt.append(r)
                        continue
                    for s, tv in X.branch(r.st, r.v.t):
                        if tv:
                            nxt.append(Res(s, VBool(True)))
                        else:
                            nxt.extend(self.elem_equals(s, item, x))
                results = nxt
            return results
        if isinstance(cont, VObj):
            o = st.obj(cont)
            if isinstance(o, CList):
                return self.contains(st, VTuple(o.items), item)
            if isinstance(o, CDict):
                pk = self.try_pykey(item)
                if pk is not None:
                    return [Res(st, VBool(pk in o.items))]
                kt = self.keyterm(item)
                return [Res(st, VBool(z3.Or([kt == self.pykey_term(k) for k in o.items] or [z3.BoolVal(False)])))]
            if isinstance(o, LDict):
                kt = self.keyterm(item)
                st.add_index(kt)
                return [Res(st, VBool(o.present(kt)))]
            if isinstance(o, LList) and self.num(item) is not None and o.getter is not None:
                # x in list-of-numbers: some element compares == to x
                fx = self.num(item)
                i = z3.Int(f"mem!{core.uid()}")
                fe = self.num(o.get(i))
                if fe is not None:
                    none = st.forall(i, z3.And(i >= 0, i < o.length()), z3.Not(fx.eq(fe)), equiv=True, name="list-membership")
                    return [Res(st, VBool(z3.Not(none)))]
            if isinstance(o, CSet):
                pk = self.try_pykey(item)
                if pk is not None:
                    return [Res(st, VBool(pk in o.items))]
                kt = self.keyterm(item)
                return [Res(st, VBool(z3.Or([kt == self.pykey_term(k) for k in o.items] or [z3.BoolVal(False)])))]
            if isinstance(o, LSet):
                return [Res(st, VBool(o.member(self.keyterm(item))))]
        if isinstance(cont, core.VRec):
            pk = self.try_pykey(item)
            if pk is None:
                raise Unsupported("symbolic key in record")
            return [Res(st, VBool(pk in cont.items))]
        if isinstance(cont, VBuiltin) and cont.name == "inst.__dict__":
            o = st.obj(cont.self_v)
            if isinstance(item, VStr) and item.py is not None:
                return [Res(st, VBool(item.py in o.fields))]
        if isinstance(cont, VBuiltin) and cont.name == "Factory.registered":
            from .frontend import PRIMITIVES

            if isinstance(item, VStr):
                return [Res(st, VBool(z3.Or([item.t == core.strlit(p) for p in PRIMITIVES])))]
            if isinstance(item, VJson):
                from . import jsonmodel as JM

                return [Res(st, VBool(z3.And(JM.jtag(item.t) == JM.STR, z3.Or([JM.jstr(item.t) == core.strlit(p) for p in PRIMITIVES]))))]
        if isinstance(cont, VIter) and cont.what == "keys":
            return self.contains(st, cont.parts[0], item)
        if isinstance(cont, VIter) and cont.what == "range" and all(isinstance(p_, VInt) for p_ in cont.parts):
            lo_, hi_ = cont.parts[0].t, cont.parts[1].t
            if isinstance(item, VInt):
                return [Res(st, VBool(z3.And(lo_ <= item.t, item.t < hi_)))]
            f_ = self.num(item)
            if f_ is not None:
                return [Res(st, VBool(z3.And(f_.isfin(), f_.r == z3.ToReal(z3.ToInt(f_.r)), z3.ToReal(lo_) <= f_.r, f_.r < z3.ToReal(hi_))))]
            return [Res(st, VBool(False))]
        if isinstance(cont, VJson):
            from . import jsonmodel

            return jsonmodel.contains(X, st, cont, item)
        raise Unsupported(f"membership in {cont!r}")

    # ------------------------------------------------------------------ arithmetic
    def binop(self, st, op, a, b):
        return self._split_args(st, [a, b], lambda s, vs: self._binop(s, op, vs[0], vs[1]))

    def _binop(self, st, op, a, b):
        X = self.X
        from . import npmodel

        if npmodel.is_arr(st, a) or npmodel.is_arr(st, b):
            return npmodel.binop(X, st, op, a, b)
        fa, fb = self.num(a), self.num(b)
        if fa is not None and fb is not None:
            both_int = isinstance(a, (VInt, VBool)) and isinstance(b, (VInt, VBool))
            if both_int and isinstance(op, (ast.Add, ast.Sub, ast.Mult)):
                ia = a.t if isinstance(a, VInt) else z3.If(a.t, 1, 0)
                ib = b.t if isinstance(b, VInt) else z3.If(b.t, 1, 0)
                return [Res(st, VInt({ast.Add: ia + ib, ast.Sub: ia - ib, ast.Mult: ia * ib}[type(op)]))]
            if isinstance(op, ast.Add):
                return [Res(st, VFl(fa.add(fb)))]
            if isinstance(op, ast.Sub):
                return [Res(st, VFl(fa.sub(fb)))]
            if isinstance(op, ast.Mult):
                return [Res(st, VFl(fa.mul(fb)))]
            if isinstance(op, ast.Div):
                np_sem = (isinstance(a, VFl) and a.pytype == "npfloat") or (isinstance(b, VFl) and b.pytype == "npfloat")
                out = []
                for s, z in X.branch(st, fb.iszero()):
                    if z:
                        if np_sem:
                            raise Unsupported("numpy scalar division by zero")
                        out.extend(X.raise_(s, "ZeroDivisionError", "division"))
                    else:
                        rb = z3.simplify(fb.r)
                        if z3.is_rational_value(rb) or z3.is_int_value(rb):
                            q = fa.r / fb.r
                        else:
                            q = s.fresh("quot", z3.RealSort())
                            s.add(z3.Implies(z3.And(fa.isfin(), fb.isfin()), q * fb.r == fa.r))
                        out.append(Res(s, VFl(fa.div_cases(fb, q))))
                return out
            raise Unsupported(f"numeric op {type(op).__name__}")
        # sequences
        if isinstance(op, ast.Add):
            sa, sb = self.seqobj(st, a), self.seqobj(st, b)
            if sa is not None and sb is not None:
                return [Res(st, self.concat(st, a, b, sa, sb))]
        if isinstance(op, ast.Mult):
            sa = self.seqobj(st, a)
            if sa is not None and isinstance(b, VInt) and isinstance(sa, CList) and len(sa.items) == 1:
                item = sa.items[0]
                n = b.t
                return [Res(st, st.alloc(LList(z3.If(n > 0, n, 0), lambda i: item, is_tuple=sa.is_tuple)))]
        # instances and abstract containers
        mname = {ast.Add: "__add__", ast.Mult: "__mul__", ast.Sub: "__sub__"}.get(type(op))
        rname = {ast.Add: "__radd__", ast.Mult: "__rmul__"}.get(type(op))
        if isinstance(a, VObj) and isinstance(st.obj(a), Inst) and mname:
            fi = X.P.lookup_method(st.obj(a).cls, mname)
            if fi is not None:
                return X.call_function(st, fi, [a, b], {})
        if isinstance(a, VChild) and mname:
            return X.I.binop(st, mname, a, b)
        if isinstance(b, VObj) and isinstance(st.obj(b), Inst) and rname and fa is not None:
            fi = X.P.lookup_method(st.obj(b).cls, rname)
            if fi is not None:
                return X.call_function(st, fi, [b, a], {})
        if isinstance(b, VChild) and rname and fa is not None:
            return X.I.binop(st, rname, b, a)
        if isinstance(a, VStr) and isinstance(b, VStr) and isinstance(op, ast.Add):
            return [Res(st, VStr(st.fresh("strcat", core.StrS)))]
        if isinstance(a, VStr) and isinstance(op, ast.Mod):
            return [Res(st, VStr(st.fresh("strfmt", core.StrS)))]
        if isinstance(a, VNone) or isinstance(b, VNone) or isinstance(a, VStr) or isinstance(b, VStr):
            return X.raise_(st, "TypeError", "unsupported operand types")
        if isinstance(a, VObj) and isinstance(st.obj(a), Inst):
            return X.raise_(st, "TypeError", "unsupported operand types")
        raise Unsupported(f"binop {type(op).__name__} on {a!r}, {b!r}")

    def augop(self, st, op, a, b):
        return self._split_args(st, [a, b], lambda s, vs: self._augop(s, op, vs[0], vs[1]))

    def _augop(self, st, op, a, b):
        X = self.X
        iname = {ast.Add: "__iadd__", ast.Mult: "__imul__"}.get(type(op))
        if isinstance(a, VObj) and isinstance(st.obj(a), Inst) and iname:
            fi = X.P.lookup_method(st.obj(a).cls, iname)
            if fi is not None:
                return X.call_function(st, fi, [a, b], {})
        if isinstance(a, VChild) and iname == "__iadd__":
            return X.I.iadd(st, a, b)
        return self._binop(st, op, a, b)

    # ------------------------------------------------------------------ sequences / dicts
    def seqobj(self, st, v):
        if isinstance(v, VTuple):
            return CList(v.items, is_tuple=True)
        if isinstance(v, VObj):
            o = st.obj(v)
            if isinstance(o, (CList, LList)):
                return o
        return None

    def as_sequence(self, st, v):
        """python list of element values if the length is concrete, else None"""
        if isinstance(v, VTuple):
            return list(v.items)
        if isinstance(v, VObj):
            o = st.obj(v)
            if isinstance(o, CList):
                return list(o.items)
            if isinstance(o, LList):
                n = z3.simplify(o.length())
                if z3.is_int_value(n):
                    return [o.get(z3.IntVal(i)) for i in range(n.as_long())]
        return None

    def to_tuple_value(self, st, v):
        s = self.as_sequence(st, v)
        if s is not None:
            return VTuple(s)
        o = st.obj(v)
        if isinstance(o, LList):
            if o.is_tuple:
                return v
            return st.alloc(LList(o.length(), o.getter, is_tuple=True), new=True)
        raise Unsupported("to_tuple_value")

    def copy_dict_value(self, st, v):
        o = st.obj(v)
        if isinstance(o, CDict):
            return st.alloc(CDict(o.items))
        if isinstance(o, LDict):
            return st.alloc(LDict(o.present, o.val, o.length(), did=o.did, keykind=o.keykind))
        raise Unsupported("copy_dict_value")

    def concat(self, st, a, b, sa, sb):
        is_tuple = sa.is_tuple
        if isinstance(sa, CList) and isinstance(sb, CList):
            if is_tuple:
                return VTuple(sa.items + sb.items)
            return st.alloc(CList(sa.items + sb.items))
        la = sa.length()
        geta = (lambda i: sa.get(i)) if isinstance(sa, LList) else (lambda i: self.clist_get(sa, i))
        getb = (lambda i: sb.get(i)) if isinstance(sb, LList) else (lambda i: self.clist_get(sb, i))
        return st.alloc(LList(la + sb.length(), lambda i: vite(i < la, geta(i), getb(i - la)), is_tuple=is_tuple))

    def clist_get(self, cl, i):
        i = z3.simplify(i) if not isinstance(i, int) else z3.IntVal(i)
        if z3.is_int_value(i):
            return cl.items[i.as_long()]
        res = cl.items[-1]
        for j in range(len(cl.items) - 2, -1, -1):
            res = vite(i == j, cl.items[j], res)
        return res

    def getitem(self, st, a, i):
        return self._split_args(st, [a, i], lambda s, vs: self._getitem(s, vs[0], vs[1]))

    def _getitem(self, st, a, i):
        X = self.X
        from . import npmodel

        if isinstance(a, VOpq) and a.tag in MAPPING_TAGS and name_term(i) is not None:
            out = []
            for s, has in X.branch(st, mhas(a.t, name_term(i))):
                if has:
                    out.append(Res(s, VOpq(mget(a.t, name_term(i)), "other")))
                else:
                    out.extend(X.raise_(s, "KeyError", "name"))
            return out

        if npmodel.is_arr(st, a):
            return npmodel.getitem(X, st, a, i)
        if isinstance(a, VTuple) or (isinstance(a, VObj) and isinstance(st.obj(a), CList)):
            items = a.items if isinstance(a, VTuple) else list(st.obj(a).items)
            if isinstance(i, VBool):
                i = VInt(z3.If(i.t, 1, 0))
            if not isinstance(i, VInt):
                return X.raise_(st, "TypeError", "index type")
            it = z3.simplify(i.t)
            n = len(items)
            if z3.is_int_value(it):
                j = it.as_long()
                if -n <= j < n:
                    return [Res(st, items[j])]
                return X.raise_(st, "IndexError", "index")
            out = []
            for s, ok in X.branch(st, z3.And(it >= -n, it < n)):
                if ok:
                    if n == 0:
                        continue
                    idx = z3.If(it < 0, it + n, it)
                    out.append(Res(s, self.clist_get(CList(items), idx)))
                else:
                    out.extend(X.raise_(s, "IndexError", "index"))
            return out
        if isinstance(a, VObj):
            o = st.obj(a)
            if isinstance(o, LList):
                if not isinstance(i, VInt):
                    return X.raise_(st, "TypeError", "index type")
                n = o.length()
                out = []
                for s, ok in X.branch(st, z3.And(i.t >= -n, i.t < n)):
                    if ok:
                        for s2, nonneg in X.branch(s, i.t >= 0):
                            idx = z3.simplify(i.t if nonneg else i.t + n)
                            s2.add_index(idx)
                            if s2.readlog is not None:
                                s2.readlog.append(("list", a.oid, idx))
                            out.append(Res(s2, o.get(idx)))
                    else:
                        out.extend(X.raise_(s, "IndexError", "index"))
                return out
            if isinstance(o, CDict):
                pk = self.try_pykey(i)
                if pk is not None:
                    if pk in o.items:
                        return [Res(st, o.items[pk])]
                    return X.raise_(st, "KeyError", str(pk))
                kt = self.keyterm(i)
                out = []
                rest = st
                for k, v in o.items.items():
                    brs = X.branch(rest, kt == self.pykey_term(k))
                    rest = None
                    for s, eq in brs:
                        if eq:
                            out.append(Res(s, v))
                        else:
                            rest = s
                    if rest is None:
                        break
                if rest is not None:
                    out.extend(X.raise_(rest, "KeyError", "key"))
                return out
            if isinstance(o, LDict):
                kt = self.keyterm(i)
                st.add_index(kt)
                out = []
                for s, ok in X.branch(st, o.present(kt)):
                    if ok:
                        if s.readlog is not None:
                            s.readlog.append(("dict", a.oid, kt))
                        out.append(Res(s, o.val(kt)))
                    else:
                        out.extend(X.raise_(s, "KeyError", "key"))
                return out
        if isinstance(a, core.VRec):
            pk = self.try_pykey(i)
            if pk is None:
                raise Unsupported("symbolic key into a record")
            if pk in a.items:
                return [Res(st, a.items[pk])]
            return X.raise_(st, "KeyError", str(pk))
        if isinstance(a, VBuiltin) and a.name == "inst.__dict__":
            o = st.obj(a.self_v)
            if isinstance(i, VStr) and i.py is not None:
                if i.py in o.fields:
                    return [Res(st, o.fields[i.py])]
                return X.raise_(st, "KeyError", i.py)
        if isinstance(a, VBuiltin) and a.name == "Factory.registered":
            from .frontend import PRIMITIVES

            if isinstance(i, VStr):
                out = []
                for s, ok in X.branch(st, z3.Or([i.t == core.strlit(p) for p in PRIMITIVES])):
                    if ok:
                        out.append(Res(s, VOpq(i.t, "factory")))
                    else:
                        out.extend(X.raise_(s, "KeyError", "Factory.registered"))
                return out
            if isinstance(i, VJson):
                from . import jsonmodel

                return jsonmodel.registered_lookup(X, st, i)
            return X.raise_(st, "TypeError", "unhashable / wrong key for Factory.registered")
        if isinstance(a, VJson):
            from . import jsonmodel

            return jsonmodel.getitem(X, st, a, i)
        if isinstance(a, VStr):
            return [Res(st, VStr(st.fresh("strelem", core.StrS)))]
        if isinstance(a, VNone):
            return X.raise_(st, "TypeError", "None is not subscriptable")
        if isinstance(a, VFl) or isinstance(a, VInt) or isinstance(a, VBool):
            return X.raise_(st, "TypeError", "number is not subscriptable")
        raise Unsupported(f"getitem {a!r}[{i!r}]")

    def getslice(self, st, a, lo, hi):
        X = self.X
        if isinstance(a, VStr):
            return [Res(st, VStr(st.fresh("strslice", core.StrS)))]
        from . import npmodel

        if npmodel.is_arr(st, a):
            return npmodel.getslice(X, st, a, lo, hi)
        so = self.seqobj(st, a)
        if so is None:
            if isinstance(a, (VFl, VInt, VNone, VBool)):
                return X.raise_(st, "TypeError", "not subscriptable")
            raise Unsupported(f"slice of {a!r}")
        n = so.length()

        def norm(b, default):
            if isinstance(b, VNone):
                return default
            if not isinstance(b, VInt):
                raise Unsupported("slice bound")
            t = b.t
            t = z3.If(t < 0, t + n, t)
            return z3.If(t < 0, 0, z3.If(t > n, n, t))

        l, h = norm(lo, z3.IntVal(0)), norm(hi, n)
        l, h = z3.simplify(l), z3.simplify(h)
        if isinstance(so, CList) and z3.is_int_value(l) and z3.is_int_value(h):
            items = so.items[l.as_long() : h.as_long()]
            return [Res(st, VTuple(items) if so.is_tuple else st.alloc(CList(items)))]
        get = (lambda i: so.get(i)) if isinstance(so, LList) else (lambda i: self.clist_get(so, i))
        newlen = z3.simplify(z3.If(h > l, h - l, 0))
        return [Res(st, st.alloc(LList(newlen, lambda i: get(i + l), is_tuple=so.is_tuple)))]

    def setitem(self, st, a, i, v):
        X = self.X
        from . import npmodel

        if npmodel.is_arr(st, a):
            return npmodel.setitem(X, st, a, i, v)
        if isinstance(a, VObj):
            o = st.obj(a)
            if isinstance(o, CList):
                if o.is_tuple:
                    return X.raise_(st, "TypeError", "tuple assignment")
                it = z3.simplify(i.t) if isinstance(i, VInt) else None
                if it is not None and z3.is_int_value(it):
                    j = it.as_long()
                    if -len(o.items) <= j < len(o.items):
                        items = list(o.items)
                        items[j] = v
                        st.set_obj(a, CList(items))
                        return [Res(st, NONE)]
                    return X.raise_(st, "IndexError", "assign")
                # symbolic index into a concrete list: convert to lazy list
                cl = o
                o = LList(z3.IntVal(len(cl.items)), lambda k: self.clist_get(cl, k))
                st.set_obj(a, o)
            if isinstance(o, LList):
                if o.is_tuple:
                    return X.raise_(st, "TypeError", "tuple assignment")
                if not isinstance(i, VInt):
                    return X.raise_(st, "TypeError", "index type")
                n = o.length()
                out = []
                for s, ok in X.branch(st, z3.And(i.t >= -n, i.t < n)):
                    if ok:
                        for s2, nonneg in X.branch(s, i.t >= 0):
                            idx = z3.simplify(i.t if nonneg else i.t + n)
                            s2.set_obj(a, s2.obj(a).write(idx, v))
                            out.append(Res(s2, NONE))
                    else:
                        out.extend(X.raise_(s, "IndexError", "assign"))
                return out
            if isinstance(o, CDict):
                pk = self.try_pykey(i)
                if pk is not None:
                    d = dict(o.items)
                    d[pk] = v
                    st.set_obj(a, CDict(d))
                    return [Res(st, NONE)]
                o = self.cdict_to_ldict(st, o)
                st.set_obj(a, o)
            if isinstance(o, LDict):
                kt = self.keyterm(i)
                st.add_index(kt)
                newlen = z3.If(o.present(kt), o.length(), o.length() + 1)
                st.set_obj(a, o.write(kt, v, newlen))
                return [Res(st, NONE)]
        if isinstance(a, VTuple):
            return X.raise_(st, "TypeError", "tuple assignment")
        raise Unsupported(f"setitem {a!r}[{i!r}]")

    def cdict_to_ldict(self, st, o):
        items = list(o.items.items())
        terms = [(self.pykey_term(k), v) for k, v in items]

        def present(x):
            return z3.Or([x == t for t, _ in terms] or [z3.BoolVal(False)])

        def val(x):
            res = NONE
            for t, v in reversed(terms):
                res = vite(x == t, v, res)
            return res

        return LDict(present, val, z3.IntVal(len(items)))

    def setslice(self, st, a, slc, v):
        from . import npmodel

        if npmodel.is_arr(st, a) and slc.lower is None and slc.upper is None and slc.step is None:
            return npmodel.setslice(self.X, st, a, v)
        raise Unsupported("slice assignment")

    def delitem(self, st, a, i):
        X = self.X
        if isinstance(a, VBuiltin) and a.name == "inst.__dict__":
            o = st.obj(a.self_v)
            pk = self.pykey(i)
            if pk in o.fields:
                st.set_obj(a.self_v, o.without_field(pk))
                st.events.append(("delattr", a.self_v.oid, pk))
                return [Res(st, NONE)]
            return X.raise_(st, "KeyError", "del __dict__")
        if isinstance(a, VObj):
            o = st.obj(a)
            if isinstance(o, CDict):
                pk = self.pykey(i)
                if pk in o.items:
                    d = dict(o.items)
                    del d[pk]
                    st.set_obj(a, CDict(d))
                    return [Res(st, NONE)]
                return X.raise_(st, "KeyError", "del")
        raise Unsupported("delitem")

    def length(self, st, v):
        if isinstance(v, VTuple):
            return z3.IntVal(len(v.items))
        if isinstance(v, VObj):
            o = st.obj(v)
            if isinstance(o, (CList, LList, LDict)):
                return o.length()
            if type(o).__name__ == "ArrO":
                return o.length
            if isinstance(o, CDict):
                return z3.IntVal(len(o.items))
            if isinstance(o, CSet):
                return z3.IntVal(len(o.items))
            if isinstance(o, LSet):
                # the cardinality of a symbolic set: an unconstrained non-negative integer (one per set object)
                n = z3.Int(f"card.set{v.oid}")
                st.add(n >= 0)
                return n
        if isinstance(v, VIter) and v.what in ("keys", "values", "items"):
            return self.length(st, v.parts[0])
        return None

    # ------------------------------------------------------------------ isinstance
    def isinstance_(self, st, v, t):
        """-> z3 Bool"""
        if isinstance(t, VTuple):
            return z3.Or([self.isinstance_(st, v, x) for x in t.items])
        P = self.X.P
        if isinstance(t, VClass):
            if isinstance(v, VObj):
                o = st.obj(v)
                return z3.BoolVal(isinstance(o, Inst) and P.is_subclass(o.cls, t.name))
            if isinstance(v, VChild):
                if t.name in ("Container", "Factory"):
                    return z3.BoolVal(True)
                if t.name == "Collection":
                    cn = core.cname(core.SH(st.view(v.ref)))
                    return z3.Or([cn == core.strlit(c) for c in ("Label", "UntypedLabel", "Index", "Branch")])
                return core.cname(core.SH(st.view(v.ref))) == core.strlit(t.name)
            return z3.BoolVal(False)
        if isinstance(t, VBuiltin):
            n = t.name
            if isinstance(v, VJson):
                from . import jsonmodel

                return jsonmodel.isinstance_(v, n)
            if isinstance(v, VKey):
                if n == "type.str":
                    return core.Key.is_KStr(v.t)
                if n == "type.bool":
                    return core.Key.is_KBool(v.t)
                if n == "type.int":
                    return z3.Or(core.Key.is_KInt(v.t), core.Key.is_KBool(v.t))
                if n == "numbers.Real":
                    return z3.Or(core.Key.is_KInt(v.t), core.Key.is_KBool(v.t), core.Key.is_KReal(v.t))
                return z3.BoolVal(False)
            if n == "numbers.Real":
                return z3.BoolVal(isinstance(v, (VFl, VInt, VBool)))
            if n in ("numbers.Number", "numbers.Complex"):
                if isinstance(v, (VFl, VInt, VBool)):
                    return z3.BoolVal(True)
                if isinstance(v, VOpq) and v.tag == "other":
                    # an arbitrary object returned by a user function may be a non-real number (complex)
                    return z3.Function("opq_is_number", core.Opq, z3.BoolSort())(v.t)
                return z3.BoolVal(False)
            if n == "type.str":
                return z3.BoolVal(isinstance(v, VStr))
            if n == "type.bool":
                return z3.BoolVal(isinstance(v, VBool))
            if n == "type.int":
                return z3.BoolVal(isinstance(v, (VInt, VBool)))
            if n == "type.float":
                if isinstance(v, VFl) and v.pytype == "num":
                    raise Unsupported("isinstance(float) on a number of unknown python type")
                return z3.BoolVal(isinstance(v, VFl))
            if n in ("type.list", "type.tuple"):
                if isinstance(v, VTuple):
                    return z3.BoolVal(n == "type.tuple")
                if isinstance(v, VObj) and isinstance(st.obj(v), (CList, LList)):
                    return z3.BoolVal(st.obj(v).is_tuple == (n == "type.tuple"))
                return z3.BoolVal(False)
            if n == "type.dict":
                return z3.BoolVal(isinstance(v, core.VRec) or (isinstance(v, VObj) and isinstance(st.obj(v), (CDict, LDict))))
            if n == "type.set":
                return z3.BoolVal(isinstance(v, VObj) and isinstance(st.obj(v), (CSet, LSet)))
            if n in ("numpy.ndarray", "np.ndarray", "numpy.number", "np.number"):
                from . import npmodel

                return z3.BoolVal(npmodel.is_arr(st, v)) if "ndarray" in n else z3.BoolVal(isinstance(v, VFl) and v.pytype == "npfloat")
            if n in ("numpy.generic", "np.generic"):
                # numpy scalars: numeric ones are modelled as npfloat; an arbitrary object returned by a user function
                # may be a non-numeric numpy scalar (numpy.str_, numpy.datetime64, ...)
                if isinstance(v, VFl):
                    return z3.BoolVal(v.pytype == "npfloat")
                if isinstance(v, VOpq) and v.tag == "other":
                    return z3.Function("opq_is_numpy_scalar", core.Opq, z3.BoolSort())(v.t)
                return z3.BoolVal(False)
            if n == "types.FunctionType":
                return z3.BoolVal(isinstance(v, (VLambda, VFunc)) or (isinstance(v, VOpq) and v.tag == "function"))
            if n == "pyspark.sql.column.Column":
                return z3.BoolVal(False)
        raise Unsupported(f"isinstance(_, {t!r})")

    # ------------------------------------------------------------------ instantiate
    def instantiate(self, st, cname_, args, kwargs, starargs=None, starkw=None):
        X = self.X
        P = X.P
        ci = P.classes.get(cname_)
        if ci is None:
            raise Unsupported(f"instantiate {cname_}")
        if "Exception" in ci.bases or any("Exception" in P.classes[b].bases for b in ci.bases if b in P.classes):
            return [Res(st, st.alloc(Inst(cname_, {})))]
        obj = st.alloc(Inst(cname_, {}))
        fi = P.lookup_method(cname_, "__init__")
        if fi is None:
            return [Res(st, obj)]
        out = []
        for r in X.call_function(st, fi, [obj] + list(args), kwargs, starargs=starargs, starkw=starkw):
            out.append(r if r.exc is not None else Res(r.st, obj))
        return out

    # ------------------------------------------------------------------ user functions (A-USERFN)
    def call_userfcn(self, st, fv, args, kwargs):
        X = self.X
        o = st.obj(fv)
        expr = o.fields.get("expr")
        if isinstance(expr, VNone):
            return X.raise_(st, "TypeError", "immutable container cannot be filled")
        if kwargs:
            raise Unsupported("user function arity")
        g = st.heap.get("__globals__", {})
        if fv.oid == g.get("identity") and len(args) == 1:
            return [Res(st, args[0])]
        if not isinstance(expr, VOpq):
            raise Unsupported("user function expr")
        return self.apply_userfn(st, expr.t, args)

    def apply_userfn(self, st, e, args):
        """A-USERFN: the result of applying user function e is a deterministic function of its argument"""
        X = self.X
        if len(args) == 0:
            raise Unsupported("user function arity")
        if len(args) > 1:
            # several positional arguments: one datum that is an injective pairing of them
            pair = z3.Function("datum_pair", core.Datum, core.Datum, core.Datum)
            ds = []
            for a in args:
                if not (isinstance(a, VOpq) and a.tag == "datum"):
                    raise Unsupported("user function arguments")
                ds.append(a.t)
            t = ds[0]
            for d2 in ds[1:]:
                t = pair(t, d2)
            args = [VOpq(t, "datum")]
        arg = args[0]
        if isinstance(arg, VOpq) and arg.tag == "batch":
            # vectorised call (A-USERFN for arrays): element i is the function's value on row i
            from . import npmodel

            n = z3.Function("batchlen", core.Datum, z3.IntSort())(arg.t)
            st.add(n >= 0)
            i = z3.Int(f"ufi!{core.uid()}")

            def fl_at(j):
                d_ = npmodel.rowof(arg.t, j)
                return Fl(uf_nan(e, d_), uf_pinf(e, d_), uf_ninf(e, d_), uf_r(e, d_))

            st.forall(i, z3.And(i >= 0, i < n), fl_at(i).wf(), name="userfn-array-wf", base_only=True)
            st.events.append(("userfn", "batch"))
            return [Res(st, npmodel.new_arr(st, n, lambda j: VFl(fl_at(j), "float"), "float"))]
        if isinstance(arg, VOpq) and arg.tag == "datum":
            d = arg.t
        elif self.num(arg) is not None:
            fl = self.num(arg)
            d = datum_of_real(fl.r)
        else:
            raise Unsupported(f"user function argument {arg!r}")
        kinds = X.hooks.get("userfn_kinds", ["raise", "num", "bool", "str", "none", "other"])
        out = []
        kk = uf_kind(e, d)
        st.add(kk >= 0, kk <= 5)
        table = {"raise": UF_RAISE, "num": UF_NUM, "bool": UF_BOOL, "str": UF_STR, "none": UF_NONE, "other": UF_OTHER}
        st.add(z3.Or([kk == table[k] for k in kinds]))
        for k in kinds:
            s = st.fork()
            s.pc.append(kk == table[k])
            from .execu import is_feasible

            if not is_feasible(s.pc):
                continue
            s.trace.append("uf:" + k)
            s.events.append(("userfn", k))
            if k == "raise":
                out.extend(X.raise_(s, "UserException", "user function"))
            elif k == "num":
                fl = Fl(uf_nan(e, d), uf_pinf(e, d), uf_ninf(e, d), uf_r(e, d))
                s.add(fl.wf())
                out.append(Res(s, VFl(fl, "num")))
            elif k == "bool":
                out.append(Res(s, VBool(uf_b(e, d))))
            elif k == "str":
                out.append(Res(s, VStr(uf_s(e, d))))
            elif k == "none":
                out.append(Res(s, NONE))
            else:
                out.append(Res(s, VOpq(uf_o(e, d), "other")))
        return out

    def call_opaque(self, st, fv, args, kwargs):
        if fv.tag == "function":
            if kwargs:
                raise Unsupported("keyword arguments to a user function")
            return self.apply_userfn(st, fv.t, args)
        raise Unsupported(f"call of opaque {fv.tag}")

    # ------------------------------------------------------------------ builtin calls
    def call(self, st, fv, args, kwargs, node=None):
        return self._split_args(st, list(args), lambda s, vs: self._call(s, fv, vs, kwargs, node))

    def _call(self, st, fv, args, kwargs, node):
        X = self.X
        n = fv.name
        m = getattr(self, "bi_" + n.replace(".", "_"), None)
        if m is not None:
            return m(st, fv, args, kwargs)
        if n == "class.__new__":
            c = args[0]
            if not isinstance(c, VClass):
                raise Unsupported("__new__ of a non-class")
            return [Res(st, st.alloc(Inst(c.name, {})))]
        if n.startswith("exc."):
            return [Res(st, VBuiltin(n))]
        if n.startswith("child."):
            return X.I.method(st, fv.self_v, n[6:], args, kwargs)
        if n.startswith("type."):
            return self.construct_builtin(st, n[5:], args, kwargs)
        if n.startswith("obj."):
            return self.obj_method(st, fv.self_v, n[4:], args, kwargs)
        if n.startswith("arr."):
            from . import npmodel

            return npmodel.method(X, st, fv.self_v, n[4:], args, kwargs)
        if n.startswith("val."):
            return self.val_method(st, fv.self_v, n[4:], args, kwargs)
        if n.startswith("iter."):
            return self.val_method(st, fv.self_v, n[5:], args, kwargs)
        if n.startswith(("numpy.", "np.")):
            from . import npmodel

            return npmodel.call(X, st, n.split(".", 1)[1], args, kwargs)
        raise Unsupported(f"builtin {n}")

    def bi_len(self, st, fv, args, kw):
        n = self.length(st, args[0])
        if n is None:
            if isinstance(args[0], VJson):
                from . import jsonmodel

                return jsonmodel.length(self.X, st, args[0])
            if isinstance(args[0], (VNone, VFl, VInt, VBool)):
                return self.X.raise_(st, "TypeError", "len")
            raise Unsupported(f"len of {args[0]!r}")
        return [Res(st, VInt(n))]

    def bi_isinstance(self, st, fv, args, kw):
        return [Res(st, VBool(self.isinstance_(st, args[0], args[1])))]

    def bi_callable(self, st, fv, args, kw):
        v = args[0]
        ok = isinstance(v, (VFunc, VLambda, VBuiltin, VClass)) or (isinstance(v, VOpq) and v.tag == "function")
        return [Res(st, VBool(ok))]

    def bi_hasattr(self, st, fv, args, kw):
        v, nm = args
        if not (isinstance(nm, VStr) and nm.py is not None):
            raise Unsupported("hasattr dynamic name")
        out = []
        for r in self.X.getattr(st, v, nm.py):
            if r.exc is not None:
                if r.exc.cls in ("AttributeError", "KeyError"):
                    out.append(Res(r.st, VBool(r.exc.cls != "AttributeError" and False)))
                else:
                    out.append(r)
            else:
                out.append(Res(r.st, VBool(True)))
        return out

    def bi_getattr(self, st, fv, args, kw):
        v, nm = args[0], args[1]
        if not (isinstance(nm, VStr) and nm.py is not None):
            raise Unsupported("getattr dynamic name")
        out = []
        for r in self.X.getattr(st, v, nm.py):
            if r.exc is not None and r.exc.cls == "AttributeError" and len(args) > 2:
                out.append(Res(r.st, args[2]))
            else:
                out.append(r)
        return out

    def bi_setattr(self, st, fv, args, kw):
        v, nm, val = args
        if isinstance(nm, VStr) and nm.py is not None:
            outs = self.X.setattr(st, v, nm.py, val)
            return [Res(o.st, NONE) if o.kind == "next" else Res(o.st, exc=o.exc) for o in outs]
        # dynamic attribute name (Branch.i<N> aliases of self.values[N]): not modelled attribute by attribute; a
        # ghost field remembers which `values` object the aliases were bound to (contracts.alias_goal)
        st.events.append(("dynamic-setattr",))
        if isinstance(v, VObj) and isinstance(st.obj(v), Inst) and st.obj(v).cls == "Branch":
            o = st.obj(v)
            st.set_obj(v, o.with_field("%ialias", o.fields.get("values", NONE)))
        return [Res(st, NONE)]

    def bi_hash(self, st, fv, args, kw):
        def hashable(v):
            if isinstance(v, VTuple):
                return all(hashable(x) for x in v.items)
            if isinstance(v, VObj):
                o = st.obj(v)
                if isinstance(o, (CList, LList)):
                    return o.is_tuple  # elements of lazy tuples are (float, container) pairs
                if isinstance(o, (CDict, LDict, CSet, LSet)):
                    return False
                if isinstance(o, Inst):
                    return True
            return True

        if not hashable(args[0]):
            return self.X.raise_(st, "TypeError", "unhashable")
        return [Res(st, VInt(st.fresh("hash", z3.IntSort())))]

    def bi_abs(self, st, fv, args, kw):
        f = self.num(args[0])
        if f is None:
            return self.X.raise_(st, "TypeError", "abs")
        if isinstance(args[0], VInt):
            return [Res(st, VInt(z3.If(args[0].t >= 0, args[0].t, -args[0].t)))]
        return [Res(st, VFl(f.abs()))]

    def _minmax(self, st, args, is_min):
        if len(args) == 2 and self.num(args[0]) is not None and self.num(args[1]) is not None:
            a, b = self.num(args[0]), self.num(args[1])
            # CPython: min(a,b) = b if b < a else a ; max(a,b) = b if b > a else a
            c = b.lt(a) if is_min else b.gt(a)
            if isinstance(args[0], VInt) and isinstance(args[1], VInt):
                ci = args[1].t < args[0].t if is_min else args[1].t > args[0].t
                return [Res(st, VInt(z3.If(ci, args[1].t, args[0].t)))]
            return [Res(st, VFl(Fl.ite(c, b, a)))]
        if len(args) == 1 and isinstance(args[0], VIter) and args[0].what == "keys" and isinstance(args[0].parts[0], VObj):
            d = st.obj(args[0].parts[0])
            if isinstance(d, LDict) and d.keykind == "int":
                # assumed contract of min / max over the integer keys of a dict: ValueError when empty, else a
                # present key that bounds every present key
                out = []
                for s, empty in self.X.branch(st, d.length() == 0):
                    if empty:
                        out.extend(self.X.raise_(s, "ValueError", "min/max of an empty sequence"))
                        continue
                    r = s.fresh("dictmin" if is_min else "dictmax", z3.IntSort())
                    s.add(d.present(core.KInt(r)))
                    s.add_index(core.KInt(r))
                    k = z3.Const(f"mm!{core.uid()}", core.Key)
                    s.forall(k, d.present(k), (r <= core.Key.ki(k)) if is_min else (core.Key.ki(k) <= r), name="minmax-bound")
                    out.append(Res(s, VInt(r)))
                return out
        raise Unsupported("min/max form")

    def bi_bisect_bisect(self, st, fv, args, kw):
        """assumed contract of bisect.bisect (= bisect_right) on a list sorted with respect to <: the
        insertion point r, with not (x < a[i]) for every i < r and x < a[i] for every i >= r"""
        so = self.seqobj(st, args[0])
        fx = self.num(args[1])
        if so is None or fx is None or len(args) != 2:
            raise Unsupported("bisect.bisect form")
        n = so.length()
        get = so.get if isinstance(so, LList) else (lambda i, so=so: self.clist_get(so, i))

        def el(i):
            f = self.num(get(i))
            if f is None:
                raise Unsupported("bisect over non-numeric elements")
            return f

        r = st.fresh("bisect", z3.IntSort())
        st.add(r >= 0, r <= n)
        st.add_index(r)
        i = z3.Int(f"bis!{core.uid()}")
        st.forall(i, z3.And(i >= 0, i < r), z3.Not(fx.lt(el(i))), name="bisect-left-part")
        i2 = z3.Int(f"bis!{core.uid()}")
        st.forall(i2, z3.And(i2 >= r, i2 < n), fx.lt(el(i2)), name="bisect-right-part")
        return [Res(st, VInt(r))]

    bi_bisect_bisect_right = bi_bisect_bisect

    def bi_inst___dict___update(self, st, fv, args, kw):
        """obj.__dict__.update(other.__dict__): every instance attribute of the other object is installed on obj"""
        tgt = fv.self_v
        src = args[0] if args else None
        if not (isinstance(tgt, VObj) and isinstance(src, VBuiltin) and src.name == "inst.__dict__" and isinstance(src.self_v, VObj)):
            raise Unsupported("__dict__.update form")
        o, so = st.obj(tgt), st.obj(src.self_v)
        if not (isinstance(o, Inst) and isinstance(so, Inst)):
            raise Unsupported("__dict__.update on a non-instance")
        for k, v in so.fields.items():
            o = o.with_field(k, v)
        st.set_obj(tgt, o)
        return [Res(st, NONE)]

    def bi_inst___dict___get(self, st, fv, args, kw):
        o = st.obj(fv.self_v)
        if not (isinstance(o, Inst) and args and isinstance(args[0], VStr) and args[0].py is not None):
            raise Unsupported("__dict__.get form")
        return [Res(st, o.fields.get(args[0].py, args[1] if len(args) > 1 else NONE))]

    def bi_min(self, st, fv, args, kw):
        return self._minmax(st, args, True)

    def bi_max(self, st, fv, args, kw):
        if "key" in kw and len(args) == 1:
            return self._argmax(st, args[0], kw["key"])
        return self._minmax(st, args, False)

    def _argmax(self, st, it, key):
        """max(enumerate(seq), key=lambda x: x[1]): assumed contract of max with a key over numbers that are not
        NaN -- the first position holding the maximum; ValueError on an empty sequence"""
        import ast as _ast

        from . import npmodel

        ok = isinstance(key, VLambda) and isinstance(key.node, _ast.Lambda) and len(key.node.args.args) == 1
        if ok:
            b, a = key.node.body, key.node.args.args[0].arg
            ok = isinstance(b, _ast.Subscript) and isinstance(b.value, _ast.Name) and b.value.id == a and isinstance(b.slice, _ast.Constant) and b.slice.value == 1
        if not (ok and isinstance(it, VIter) and it.what == "enumerate"):
            raise Unsupported("max with this key")
        n, el = npmodel.seq_parts(self.X, st, it.parts[0])
        out = []
        for s, empty in self.X.branch(st, n <= 0):
            if empty:
                out.extend(self.X.raise_(s, "ValueError", "max() of an empty sequence"))
                continue
            r = s.fresh("argmax", z3.IntSort())
            fr = self.num(el(r))
            if fr is None:
                raise Unsupported("max over non-numbers")
            s.add(r >= 0, r < n)
            s.add_index(r)
            j = z3.Int(f"amx!{core.uid()}")
            fj = self.num(el(j))
            s.forall(j, z3.And(j >= 0, j < n), z3.And(z3.Implies(z3.Not(fj.nan), fj.le(fr)), z3.Implies(j < r, fj.lt(fr))), name="argmax-first-maximum")
            out.append(Res(s, VTuple([VInt(r), el(r)])))
        return out

    def bi_math_isnan(self, st, fv, args, kw):
        f = self.num(args[0])
        if f is None:
            return self.X.raise_(st, "TypeError", "isnan")
        return [Res(st, VBool(f.nan))]


    def bi_math_isinf(self, st, fv, args, kw):
        f = self.num(args[0])
        if f is None:
            return self.X.raise_(st, "TypeError", "isinf")
        return [Res(st, VBool(f.isinf()))]

    def bi_math_floor(self, st, fv, args, kw):
        X = self.X
        f = self.num(args[0])
        if f is None:
            return X.raise_(st, "TypeError", "floor")
        if isinstance(args[0], VInt):
            return [Res(st, args[0])]
        out = []
        for s, isn in X.branch(st, f.nan):
            if isn:
                out.extend(X.raise_(s, "ValueError", "floor(nan)"))
                continue
            for s2, isi in X.branch(s, f.isinf()):
                if isi:
                    out.extend(X.raise_(s2, "OverflowError", "floor(inf)"))
                else:
                    out.append(Res(s2, VInt(z3.ToInt(f.r))))
        return out

    def construct_builtin(self, st, tname, args, kw):
        X = self.X
        if tname == "float":
            return self.to_float(st, args[0])
        if tname == "int":
            return self.to_int(st, args[0])
        if tname == "str":
            v = args[0]
            if isinstance(v, VStr):
                return [Res(st, v)]
            if isinstance(v, VInt):
                return [Res(st, VStr(int2str(v.t)))]
            if isinstance(v, VKey):
                ks_ = key2str(v.t)
                # str() of an int key parses back to that int
                st.add(z3.Implies(core.Key.is_KInt(v.t), z3.And(str2int_ok(ks_), str2int(ks_) == core.Key.ki(v.t))))
                st.add(z3.Implies(core.Key.is_KStr(v.t), ks_ == core.Key.ks(v.t)))  # str(s) is s
                st.add(z3.Implies(core.Key.is_KInt(v.t), ks_ == int2str(core.Key.ki(v.t))))  # canonical decimal
                st.add(z3.Implies(z3.Not(core.Key.is_KBool(v.t)), str2key(ks_) == v.t))
                return [Res(st, VStr(ks_))]
            if isinstance(v, VBool):
                return [Res(st, VStr(key2str(core.Key.KBool(v.t))))]
            return [Res(st, VStr(st.fresh("str", core.StrS)))]
        if tname == "bool":
            return [Res(st, VBool(X.truth(st, args[0])))]
        if tname in ("list", "tuple"):
            from . import loops

            if not args:
                return [Res(st, VTuple([]) if tname == "tuple" else st.alloc(CList([])))]
            return loops.materialize(X, st, args[0], tname)
        if tname == "dict":
            from . import loops

            if not args and not kw:
                return [Res(st, st.alloc(CDict({})))]
            if args and isinstance(args[0], VBuiltin) and args[0].name == "inst.__dict__":
                o = st.obj(args[0].self_v)
                d = dict(o.fields)
                d.update(kw)
                return [Res(st, st.alloc(CDict(d)))]
            if args and isinstance(args[0], VOpq):
                return [Res(st, VOpq(z3.Function("dict_of", args[0].t.sort(), core.Opq)(args[0].t), "opaque-dict"))]
            if args:
                return loops.make_dict(X, st, args[0], kw)
            return [Res(st, st.alloc(CDict(kw)))]
        if tname == "set":
            from . import loops

            if not args:
                return [Res(st, st.alloc(CSet([])))]
            return loops.make_set(X, st, args[0])
        raise Unsupported(f"constructor {tname}")

    def to_float(self, st, v):
        X = self.X
        if isinstance(v, VFl):
            return [Res(st, VFl(v.fl, "float"))]
        f = self.num(v)
        if f is not None:
            return [Res(st, VFl(f, "float"))]
        if isinstance(v, VStr):
            out = []
            rest = st
            for lit, val in (("nan", float("nan")), ("inf", float("inf")), ("-inf", float("-inf"))):
                nxt = None
                for s, eq in X.branch(rest, v.t == core.strlit(lit)):
                    if eq:
                        out.append(Res(s, VFl(Fl.const(val))))
                    else:
                        nxt = s
                rest = nxt
                if rest is None:
                    break
            if rest is not None:
                # any other string: ValueError, or a float the model leaves unconstrained
                s2 = rest.fork()
                out.extend(X.raise_(s2, "ValueError", "float(str)"))
                out.append(Res(rest, VFl(rest.fresh_fl("float_of_str"))))
            return out
        if isinstance(v, VJson):
            from . import jsonmodel

            return jsonmodel.to_float(X, st, v)
        return X.raise_(st, "TypeError", "float()")

    def to_int(self, st, v):
        X = self.X
        if isinstance(v, VInt):
            return [Res(st, v)]
        if isinstance(v, VBool):
            return [Res(st, VInt(z3.If(v.t, 1, 0)))]
        if isinstance(v, VFl):
            f = v.fl
            out = []
            for s, isn in X.branch(st, f.nan):
                if isn:
                    out.extend(X.raise_(s, "ValueError", "int(nan)"))
                    continue
                for s2, isi in X.branch(s, f.isinf()):
                    if isi:
                        out.extend(X.raise_(s2, "OverflowError", "int(inf)"))
                    else:
                        t = z3.If(f.r >= 0, z3.ToInt(f.r), -z3.ToInt(-f.r))
                        out.append(Res(s2, VInt(t)))
            return out
        if isinstance(v, VStr):
            out = []
            for s, ok in X.branch(st, str2int_ok(v.t)):
                if ok:
                    out.append(Res(s, VInt(str2int(v.t))))
                else:
                    out.extend(X.raise_(s, "ValueError", "int(str)"))
            return out
        if isinstance(v, VKey):
            # a key of a string-keyed mapping (JSON object)
            out = []
            for s, isstr in X.branch(st, core.Key.is_KStr(v.t)):
                if isstr:
                    out.extend(self.to_int(s, VStr(core.Key.ks(v.t))))
                else:
                    raise Unsupported("int(non-string key)")
            return out
        return X.raise_(st, "TypeError", "int()")

    # iterables
    def bi_range(self, st, fv, args, kw):
        if len(args) == 1:
            return [Res(st, VIter("range", VInt(0), args[0]))]
        if len(args) == 2:
            return [Res(st, VIter("range", args[0], args[1]))]
        raise Unsupported("range step")

    bi_xrange = bi_range

    def bi_zip(self, st, fv, args, kw):
        return [Res(st, VIter("zip", *args))]

    def bi_enumerate(self, st, fv, args, kw):
        return [Res(st, VIter("enumerate", args[0]))]

    def bi_all(self, st, fv, args, kw):
        from . import loops

        return loops.all_any(self.X, st, args[0], True)

    def bi_any(self, st, fv, args, kw):
        from . import loops

        return loops.all_any(self.X, st, args[0], False)

    def bi_sorted(self, st, fv, args, kw):
        from . import loops

        return loops.sorted_(self.X, st, args[0], kw)

    def bi_repr(self, st, fv, args, kw):
        return [Res(st, VStr(st.fresh("repr", core.StrS)))]

    def bi_type(self, st, fv, args, kw):
        v = args[0]
        if isinstance(v, VObj) and isinstance(st.obj(v), Inst):
            return [Res(st, VClass(st.obj(v).cls))]
        raise Unsupported("type()")

    def bi_globals(self, st, fv, args, kw):
        return [Res(st, VOpq(z3.Const("module_globals", core.Opq), "opaque-dict"))]

    def bi_marshal_dumps(self, st, fv, args, kw):
        # assumed: marshal.loads(marshal.dumps(code)) == code
        return [Res(st, VOpq(args[0].t, "marshalled:" + args[0].tag))]

    def bi_marshal_loads(self, st, fv, args, kw):
        a = args[0]
        if isinstance(a, VOpq) and a.tag.startswith("marshalled:"):
            return [Res(st, VOpq(a.t, a.tag[len("marshalled:"):]))]
        raise Unsupported("marshal.loads of a non-marshalled value")

    def bi_types_FunctionType(self, st, fv, args, kw):
        """assumed: types.FunctionType(code, globals, name, defaults, closure) rebuilds a function that is
        determined by (code, name, defaults, closure); rebuilt from a function's own four attributes it is
        that function (as far as A-USERFN is concerned)"""
        vals = list(args) + [NONE] * (5 - len(args))
        code, g, name, defaults, closure = vals[:5]
        if "name" in kw:
            name = kw["name"]
        if "argdefs" in kw:
            defaults = kw["argdefs"]
        if "closure" in kw:
            closure = kw["closure"]

        def opq(v):
            if isinstance(v, VOpq):
                return v.t
            if isinstance(v, VNone):
                return z3.Const("py:None", core.Opq)
            if isinstance(v, VStr):
                return z3.Function("opq_of_str", core.StrS, core.Opq)(v.t)
            raise Unsupported(f"FunctionType argument {v!r}")

        mk = z3.Function("mkfn", core.Opq, core.Opq, core.Opq, core.Opq, core.Opq)
        t = mk(opq(code), opq(name), opq(defaults), opq(closure))
        st.events.append(("function-globals", t, g))  # checked separately (c11: the names the code refers to)
        return [Res(st, VOpq(t, "function"))]

    def bi_id(self, st, fv, args, kw):
        raise Unsupported("id()")

    # ---- methods on objects
    def obj_method(self, st, selfv, name, args, kw):
        from . import loops, npmodel

        X = self.X
        o = st.obj(selfv)
        if isinstance(o, npmodel.ArrO):
            return npmodel.method(X, st, selfv, name, args, kw)
        if isinstance(o, (CDict, LDict)):
            if name == "keys":
                return [Res(st, VIter("keys", selfv))]
            if name == "values":
                return [Res(st, VIter("values", selfv))]
            if name == "items":
                return [Res(st, VIter("items", selfv))]
            if name == "get":
                default = args[1] if len(args) > 1 else NONE
                out = []
                for r in self.contains(st, selfv, args[0]):
                    for s, has in X.branch(r.st, r.v.t):
                        if has:
                            out.extend(self.getitem(s, selfv, args[0]))
                        else:
                            out.append(Res(s, default))
                return out
            if name == "setdefault" and len(args) in (1, 2):
                default = args[1] if len(args) > 1 else NONE
                out = []
                for r in self.contains(st, selfv, args[0]):
                    for s, has in X.branch(r.st, r.v.t):
                        if has:
                            out.extend(self.getitem(s, selfv, args[0]))
                        else:
                            for o2 in self.setitem(s, selfv, args[0], default):
                                out.append(Res(o2.st, default) if getattr(o2, "exc", None) is None else o2)
                return out
            if name == "copy":
                return [Res(st, self.copy_dict_value(st, selfv))]
            if name == "update":
                return loops.dict_update(X, st, selfv, args[0] if args else None, kw)
        if isinstance(o, (CList, LList)):
            if name == "append":
                if isinstance(o, CList):
                    st.set_obj(selfv, CList(o.items + (args[0],)))
                    return [Res(st, NONE)]
                n = o.length()
                item = args[0]
                st.set_obj(selfv, LList(n + 1, lambda i: vite(i == n, item, o.get(i))))
                return [Res(st, NONE)]
            if name == "index":
                return loops.list_index(X, st, selfv, args[0])
            if name == "copy":
                return [Res(st, st.alloc(o))]
        if isinstance(o, (CSet, LSet)):
            if name in ("union", "issubset", "add", "update", "issuperset"):
                return loops.set_method(X, st, selfv, name, args)
        raise Unsupported(f"method {name} on {type(o).__name__}")

    def val_method(self, st, selfv, name, args, kw):
        X = self.X
        if isinstance(selfv, VStr):
            if name in ("startswith", "endswith"):
                if selfv.py is not None and isinstance(args[0], VStr) and args[0].py is not None:
                    return [Res(st, VBool(getattr(selfv.py, name)(args[0].py)))]
                return [Res(st, VBool(st.fresh("str." + name, z3.BoolSort())))]
            if name == "format":
                return [Res(st, VStr(st.fresh("strfmt", core.StrS)))]
            if name == "join":
                return [Res(st, VStr(st.fresh("strjoin", core.StrS)))]
            if name == "split":
                raise Unsupported("str.split")
        if isinstance(selfv, core.VRec):
            if name == "keys":
                return [Res(st, VTuple([self.pykey_value(k) for k in selfv.items]))]
            if name == "items":
                return [Res(st, VTuple([VTuple([self.pykey_value(k), v]) for k, v in selfv.items.items()]))]
            if name == "get":
                pk = self.pykey(args[0])
                return [Res(st, selfv.items.get(pk, args[1] if len(args) > 1 else NONE))]
        if isinstance(selfv, VJson):
            from . import jsonmodel

            return jsonmodel.method(X, st, selfv, name, args, kw)
        if isinstance(selfv, VIter) and selfv.what == "keys" and name == "isdisjoint" and len(args) == 1:
            # d.keys().isdisjoint(e.keys()) / isdisjoint(a set): no common key
            a = st.obj(selfv.parts[0])
            other = args[0]
            if isinstance(other, VIter) and other.what == "keys":
                other = other.parts[0]
            b = st.obj(other) if isinstance(other, VObj) else None

            def member(o):
                if isinstance(o, LDict):
                    return o.present
                if isinstance(o, CDict):
                    ks = list(o.items)
                    return lambda x: z3.Or([x == self.pykey_term(k) for k in ks] or [z3.BoolVal(False)])
                if isinstance(o, LSet):
                    return o.member
                if isinstance(o, CSet):
                    ks = list(o.items)
                    return lambda x: z3.Or([x == self.pykey_term(k) for k in ks] or [z3.BoolVal(False)])
                raise Unsupported("isdisjoint operand")

            ma, mb = member(a), member(b)
            k = z3.Const(f"dj!{core.uid()}", core.Key)
            none = st.forall(k, z3.BoolVal(True), z3.Not(z3.And(ma(k), mb(k))), equiv=True, name="isdisjoint")
            return [Res(st, VBool(none))]
        if isinstance(selfv, VOpq) and selfv.tag == "opaque-dict" and name == "update" and len(args) == 1:
            # mutation of a module namespace (globals() is the live dict, not a snapshot): recorded; the frame
            # clause of the caller decides whether it is allowed
            st.events.append(("globals-mutated", selfv.t, args[0]))
            return [Res(st, NONE)]
        if isinstance(selfv, VOpq) and selfv.tag == "factory" and name == "fromJsonFragment":
            return X.I.child_from_json(st, selfv, args)
        if isinstance(selfv, VOpq) and selfv.tag == "ndarray":
            from . import npmodel

            return npmodel.method(X, st, selfv, name, args, kw)
        if isinstance(selfv, VTuple) and name == "index":
            from . import loops

            return loops.list_index(X, st, selfv, args[0])
        raise Unsupported(f"method {name} on {selfv!r}")
