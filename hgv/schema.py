"""Symbolic well-formed instances of the 19 primitive classes (the representation invariant `wf`).

make_instance builds, in a State, an object of class K whose fields are fully symbolic and
constrained only by wf_K (DESIGN §2.4): field types, entries finite and >= 0, empty => moments
nan, low < high, thresholds increasing, children = distinct slots of an ownership tree
(encoded by the injective Ref.Old(owner, field, key) constructor).
"""

import z3

from . import core
from .builtins_model import VKey
from .core import NONE, CDict, Inst, LDict, LList, VBool, VChild, VFl, VObj, VOpq, VStr, VTuple, vite
from .fl import Fl


def sym_fl(st, name, kind="any"):
    f, wf = Fl.sym(name)
    st.add(wf)
    if kind == "fin":
        st.add(f.isfin())
    elif kind == "entries":
        st.add(f.isfin(), f.r >= 0)
    elif kind == "pos":
        st.add(f.isfin(), f.r > 0)
    return f


def child_ref(owner, field, key=None):
    return core.Ref.Old(z3.IntVal(owner), z3.IntVal(core.fld_id(field)), key if key is not None else core.KNONE)


def registered_class(v):
    from .frontend import PRIMITIVES

    cn = core.cname(core.SH(v))
    return z3.Or([cn == core.strlit(c) for c in PRIMITIVES])


def child_facts(st, ref, bk=False):
    v = core.V0(ref)
    st.add(core.wfv(v), core.E(v) >= 0, registered_class(v), z3.Implies(core.has_qname(v), core.has_quantity(v)))
    if bk:
        st.add(core.bkv(v))


def sym_child(st, owner, field, bk=False):
    r = child_ref(owner, field)
    child_facts(st, r, bk)
    return VChild(r)


def sym_userfcn(st, name, mode="live"):
    hasname = z3.Bool(name + ".hasname")
    nm = vite(hasname, VStr(z3.Const(name + ".name", core.StrS)), NONE)
    if mode == "reloaded":
        expr = NONE
    else:
        expr = VOpq(z3.Const(name + ".expr", core.Opq), "function")
    return st.alloc(Inst("UserFcn", {"expr": expr, "name": nm}), new=False)


def child_list(st, owner, field, n, with_float=None, is_tuple=False, bk=False, tagname=None):
    """List of n abstract children (optionally (float, child) pairs)."""
    fid = core.fld_id(field)
    own = z3.IntVal(owner)
    i = z3.Int(f"wf.{tagname or field}{owner}.i")
    ref_i = core.Ref.Old(own, z3.IntVal(fid), core.KInt(i))
    body = [core.wfv(core.V0(ref_i)), core.E(core.V0(ref_i)) >= 0, registered_class(core.V0(ref_i)), z3.Implies(core.has_qname(core.V0(ref_i)), core.has_quantity(core.V0(ref_i)))]
    if bk:
        body.append(core.bkv(core.V0(ref_i)))
    st.forall(i, z3.And(i >= 0, i < n), z3.And(body), name=f"wf-children-{field}")
    if with_float is None:
        getter = lambda j: VChild(core.Ref.Old(own, z3.IntVal(fid), core.KInt(j)))
    else:
        ff = with_float
        getter = lambda j: VTuple([VFl(ff(j)), VChild(core.Ref.Old(own, z3.IntVal(fid), core.KInt(j)))])
    return st.alloc(LList(n, getter, is_tuple=is_tuple), new=False)


def float_family(name, owner):
    """index -> Fl through uninterpreted functions (a symbolic array of floats)."""
    fn = z3.Function(f"{name}{owner}.nan", z3.IntSort(), z3.BoolSort())
    fp = z3.Function(f"{name}{owner}.pinf", z3.IntSort(), z3.BoolSort())
    fm = z3.Function(f"{name}{owner}.ninf", z3.IntSort(), z3.BoolSort())
    fr = z3.Function(f"{name}{owner}.r", z3.IntSort(), z3.RealSort())
    return lambda j: Fl(fn(j), fp(j), fm(j), fr(j))


def child_dict(st, owner, field, keykind, bk=False):
    fid = core.fld_id(field)
    own = z3.IntVal(owner)
    dom = z3.Function(f"dom.{field}{owner}", core.Key, z3.BoolSort())
    n = z3.Int(f"len.{field}{owner}")
    st.add(n >= 0)
    k = z3.Const(f"wf.{field}{owner}.k", core.Key)
    ref_k = core.Ref.Old(own, z3.IntVal(fid), k)
    body = [core.wfv(core.V0(ref_k)), core.E(core.V0(ref_k)) >= 0, registered_class(core.V0(ref_k)), z3.Implies(core.has_qname(core.V0(ref_k)), core.has_quantity(core.V0(ref_k)))]
    if keykind == "int":
        body.append(core.Key.is_KInt(k))
    elif keykind == "str":
        body.append(core.Key.is_KStr(k))
    elif keykind == "strbool":
        body.append(z3.Or(core.Key.is_KStr(k), core.Key.is_KBool(k)))
    if bk:
        body.append(core.bkv(core.V0(ref_k)))
    st.forall(k, dom(k), z3.And(body), name=f"wf-children-{field}")
    # length 0 iff empty
    w = z3.Const(f"wf.{field}{owner}.some", core.Key)
    st.add(z3.Implies(n > 0, dom(w)))
    st.forall(k, dom(k), n > 0, name=f"wf-len-{field}")
    d = LDict(lambda x: dom(x), lambda x: VChild(core.Ref.Old(own, z3.IntVal(fid), x)), n, keykind=keykind)
    return st.alloc(d, new=False), dom, n


COMMON = {"_checkedForCrossReferences": VBool(False)}


def make_instance(st, cls, owner, mode="live", bk=False, opts=None):
    """-> VObj of a fresh symbolic wf instance of cls.  `mode`: live | reloaded (built by ed / fromJson)."""
    opts = opts or {}
    o = owner
    p = f"{cls}{o}"
    f = dict(COMMON)
    f["fill"] = VOpq(z3.Const(p + ".fill", core.Opq), "fillmethod")
    f["plot"] = VOpq(z3.Const(p + ".plot", core.Opq), "plotmethod")
    f["entries"] = VFl(sym_fl(st, p + ".entries", "entries"))
    ent = f["entries"].fl
    empty = ent.r == 0
    if cls != "Count" and cls not in ("Label", "UntypedLabel", "Index", "Branch"):
        f["quantity"] = sym_userfcn(st, p + ".quantity", mode)
    if cls == "Count":
        if opts.get("transform", "identity") == "identity":
            from .builtins_model import Builtins

            f["transform"] = Builtins.global_userfcn(None, st, "identity")
        else:
            f["transform"] = sym_userfcn(st, p + ".transform", "live")
    elif cls == "Sum":
        f["sum"] = VFl(sym_fl(st, p + ".sum"))
        st.add(z3.Implies(empty, f["sum"].fl.iszero()))
    elif cls == "Average":
        f["mean"] = VFl(sym_fl(st, p + ".mean"))
        st.add(z3.Implies(empty, f["mean"].fl.nan))
    elif cls == "Deviate":
        f["mean"] = VFl(sym_fl(st, p + ".mean"))
        f["varianceTimesEntries"] = VFl(sym_fl(st, p + ".vte"))
        st.add(z3.Implies(empty, z3.And(f["mean"].fl.nan, f["varianceTimesEntries"].fl.nan)))
    elif cls == "Minimize":
        f["min"] = VFl(sym_fl(st, p + ".min"))
        st.add(z3.Implies(empty, f["min"].fl.nan))
    elif cls == "Maximize":
        f["max"] = VFl(sym_fl(st, p + ".max"))
        st.add(z3.Implies(empty, f["max"].fl.nan))
    elif cls == "Select":
        f["cut"] = sym_child(st, o, "cut", bk)
    elif cls == "Fraction":
        f["numerator"] = sym_child(st, o, "numerator", bk)
        f["denominator"] = sym_child(st, o, "denominator", bk)
        st.add(*same_template(core.V0(f["numerator"].ref), core.V0(f["denominator"].ref)))
    elif cls == "Bin":
        f["low"] = VFl(sym_fl(st, p + ".low", "fin"))
        f["high"] = VFl(sym_fl(st, p + ".high", "fin"))
        st.add(f["low"].fl.r < f["high"].fl.r)
        n = z3.Int(p + ".num")
        st.add(n >= 1)
        f["values"] = child_list(st, o, "values", n, bk=bk)
        shape_uniform_list(st, o, "values", n)
        for fl in ("underflow", "overflow", "nanflow"):
            f[fl] = sym_child(st, o, fl, bk)
        f["contentType"] = VStr(core.cname(core.SH(core.V0(child_ref(o, "values", core.KInt(z3.IntVal(0)))))))
    elif cls == "SparselyBin":
        f["binWidth"] = VFl(sym_fl(st, p + ".binWidth", "pos"))
        f["origin"] = VFl(sym_fl(st, p + ".origin", "fin"))
        f["nanflow"] = sym_child(st, o, "nanflow", bk)
        f["bins"], dom, n = child_dict(st, o, "bins", "int", bk)
        template(st, f, o, mode, bk)
        shape_uniform_dict(st, o, "bins", dom, f)
    elif cls == "Categorize":
        f["bins"], dom, n = child_dict(st, o, "bins", opts.get("catkeys", "strbool"), bk)
        template(st, f, o, mode, bk)
        shape_uniform_dict(st, o, "bins", dom, f)
    elif cls == "CentrallyBin":
        n = z3.Int(p + ".nbins")
        st.add(n >= 2)
        cf = float_family("center", o)
        i = z3.Int(p + ".ci")
        st.forall(i, z3.And(i >= 0, i < n), z3.And(cf(i).isfin(), cf(i).wf()), name="wf-centers-finite")
        st.forall(i, z3.And(i >= 0, i + 1 < n), cf(i).r < cf(i + 1).r, name="wf-centers-increasing")
        j = z3.Int(p + ".cj")
        st.forall([i, j], z3.And(i >= 0, i < j, j < n), cf(i).r < cf(j).r, name="wf-centers-monotone")
        f["bins"] = child_list(st, o, "bins", n, with_float=cf, bk=bk)
        shape_uniform_list(st, o, "bins", n)
        f["nanflow"] = sym_child(st, o, "nanflow", bk)
        template(st, f, o, mode, bk, ctype=False)
        if isinstance(f["value"], VChild):
            tv = core.V0(f["value"].ref)
            b0 = core.V0(child_ref(o, "bins", core.KInt(z3.IntVal(0))))
            st.add(*same_template(b0, tv))
    elif cls in ("IrregularlyBin", "Stack"):
        n = z3.Int(p + ".nbins")
        st.add(n >= 1)
        tf = float_family("thr", o)
        i = z3.Int(p + ".ti")
        st.add(tf(z3.IntVal(0)).ninf, tf(z3.IntVal(0)).wf())
        st.forall(i, z3.And(i >= 1, i < n), z3.And(tf(i).isfin(), tf(i).wf()), name="wf-thresholds-finite")
        st.forall(i, z3.And(i >= 1, i + 1 < n), tf(i).r < tf(i + 1).r, name="wf-thresholds-increasing")
        j = z3.Int(p + ".tj")
        st.forall([i, j], z3.And(i >= 1, i < j, j < n), tf(i).r < tf(j).r, name="wf-thresholds-monotone")
        f["bins"] = child_list(st, o, "bins", n, with_float=tf, is_tuple=True, bk=bk)
        shape_uniform_list(st, o, "bins", n)
        f["nanflow"] = sym_child(st, o, "nanflow", bk)
    elif cls in ("Label", "UntypedLabel"):
        f["pairs"], dom, n = child_dict(st, o, "pairs", "str", bk)
        st.add(n >= 1)
        if cls == "Label":
            shape_uniform_dict(st, o, "pairs", dom, None, classes_only=True)
    elif cls in ("Index", "Branch"):
        n = z3.Int(p + ".size")
        st.add(n >= 1)
        f["values"] = child_list(st, o, "values", n, is_tuple=True, bk=bk)
        if cls == "Branch":
            f["%ialias"] = f["values"]  # i0..i9 alias the elements of this tuple (set by the constructor)
        if cls == "Index":
            shape_uniform_list(st, o, "values", n, classes_only=True)
    elif cls == "Bag":
        rng = z3.Const(p + ".range", core.StrS)
        # wf (restriction, stated in evidence): scalar ranges "S" (strings) and "N" (numbers) only
        st.add(z3.Or(rng == core.strlit("S"), rng == core.strlit("N")))
        f["range"] = VStr(rng)
        f["dimension"] = core.VInt(0)
        dom = z3.Function(f"dom.values{o}", core.Key, z3.BoolSort())
        wfun = z3.Function(f"weight.values{o}", core.Key, z3.RealSort())
        n = z3.Int(f"len.values{o}")
        st.add(n >= 0)
        k = z3.Const(f"wf.values{o}.k", core.Key)
        st.forall(k, dom(k), z3.And(wfun(k) > 0, n > 0), name="wf-bag-weights")
        w = z3.Const(f"wf.values{o}.some", core.Key)
        st.add(z3.Implies(n > 0, dom(w)))
        st.forall(k, dom(k), z3.If(rng == core.strlit("S"), core.Key.is_KStr(k), z3.Or(core.Key.is_KReal(k), core.Key.is_KPInf(k), core.Key.is_KNInf(k), k == core.KStr(core.strlit("nan")))), name="wf-bag-keys")
        f["values"] = st.alloc(LDict(lambda x: dom(x), lambda x: VFl(Fl.fin(wfun(x))), n, keykind="bag"), new=False)
    else:
        raise core.Unsupported(f"schema for {cls}")
    return st.alloc(Inst(cls, f), new=False)


def template(st, f, o, mode, bk, ctype=True):
    """The `value` template slot of sparse containers: a Container when live, None when reloaded."""
    if mode == "live":
        f["value"] = sym_child(st, o, "value", bk)
        tv = core.V0(f["value"].ref)
        st.add(core.E(tv) == 0, tv == core.vzero(tv))  # the template is an unfilled aggregator
        if ctype:
            f["contentType"] = VStr(core.cname(core.SH(tv)))
    else:
        f["value"] = NONE
        if ctype:
            f["contentType"] = VStr(z3.Const(f"ctype{o}", core.StrS))


def same_template(a, b):
    """children made from one template: same shape, same zero, same quantity name"""
    return [
        core.SH(a) == core.SH(b),
        core.zk(a) == core.zk(b),
        core.has_quantity(a) == core.has_quantity(b),
        core.has_qname(a) == core.has_qname(b),
        core.qname(a) == core.qname(b),
    ]


def shape_uniform_list(st, o, field, n, classes_only=False):
    """wf: all children of a binning container have the same shape (they come from one template)."""
    fid = z3.IntVal(core.fld_id(field))
    own = z3.IntVal(o)
    i = z3.Int(f"wf.shape.{field}{o}.i")
    r_i = core.Ref.Old(own, fid, core.KInt(i))
    r_0 = core.Ref.Old(own, fid, core.KInt(z3.IntVal(0)))
    if classes_only:
        body = z3.And(
            core.cname(core.SH(core.V0(r_i))) == core.cname(core.SH(core.V0(r_0))),
            core.bagrange(core.SH(core.V0(r_i))) == core.bagrange(core.SH(core.V0(r_0))),
        )
    else:
        body = z3.And(same_template(core.V0(r_i), core.V0(r_0)))
    st.forall(i, z3.And(i >= 0, i < n), body, name=f"wf-uniform-{field}")


def shape_uniform_dict(st, o, field, dom, f, classes_only=False):
    fid = z3.IntVal(core.fld_id(field))
    own = z3.IntVal(o)
    k = z3.Const(f"wf.shape.{field}{o}.k", core.Key)
    r_k = core.Ref.Old(own, fid, k)
    tmpl = None
    if f is not None and isinstance(f.get("value"), VChild):
        tmpl = core.V0(f["value"].ref)
        sh = core.SH(tmpl)
        zk_ = core.zk(tmpl)
    else:
        sh = z3.Const(f"shape.{field}{o}", core.Shape)
        zk_ = z3.Const(f"zk.{field}{o}", core.Shape)
    if classes_only:
        body = z3.And(core.cname(core.SH(core.V0(r_k))) == core.cname(sh), core.bagrange(core.SH(core.V0(r_k))) == core.bagrange(sh))
    elif tmpl is not None:
        body = z3.And(same_template(core.V0(r_k), tmpl))
    else:
        hq, hn, qn = z3.Bool(f"hq.{field}{o}"), z3.Bool(f"hn.{field}{o}"), z3.Const(f"qn.{field}{o}", core.StrS)
        vk = core.V0(r_k)
        body = z3.And(core.SH(vk) == sh, core.zk(vk) == zk_, core.has_quantity(vk) == hq, core.has_qname(vk) == hn, core.qname(vk) == qn)
    st.forall(k, dom(k), body, name=f"wf-uniform-{field}")
