"""Frame contracts used in place of a few framework functions (DESIGN §2.1), plus standard hooks."""

import z3

from . import core
from .core import NONE, Inst, VOpq


def Res(st, v=None, exc=None):
    from .execu import Res as R

    return R(st, v, exc)


def model_specialize(X, st, fi, args, kwargs):
    """Factory.specialize: assigns only self.__class__ (to a subclass that adds methods; checked
    syntactically by hgv.syntactic), self.fill and self.plot; returns self."""
    selfv = args[0]
    o = st.obj(selfv)
    o = o.with_field("fill", VOpq(st.fresh("fillmethod", core.Opq), "fillmethod"))
    o = o.with_field("plot", VOpq(st.fresh("plotmethod", core.Opq), "plotmethod"))
    st.set_obj(selfv, o)
    st.events.append(("specialize", selfv.oid))
    return [Res(st, selfv)]


def model_xref(X, st, fi, args, kwargs):
    """Container._checkForCrossReferences under wf (ownership tree): never raises, writes only the
    benign flag _checkedForCrossReferences.  Its real body is verified separately (C16)."""
    st.events.append(("xref-guard", args[0].oid))
    return [Res(st, NONE)]


def model_compatible(X, st, fi, args, kwargs):
    """version.compatible(s): assumed contract -- a deterministic boolean function of the version string,
    or ValueError / IndexError for a string that is not <int>.<int>... (string parsing is not modelled;
    the function itself is checked natively on a grid of version strings)"""
    from .core import VBool, VStr

    s = args[0]
    t = s.t if isinstance(s, VStr) else None
    if t is None:
        from . import jsonmodel as JM

        t = JM.jstr(s.t)
    ok = z3.Function("version_parses", core.StrS, z3.BoolSort())(t)
    comp = z3.Function("version_compatible", core.StrS, z3.BoolSort())(t)
    out = []
    for s2, parses in X.branch(st, ok):
        if parses:
            out.append(Res(s2, VBool(comp)))
        else:
            from .execu import Exc
            from .execu import Res as R

            out.append(R(s2, exc=Exc("ValueError", "version string")))
    return out


STD_MODELS = {
    "histogrammar.version.compatible": model_compatible,
    "histogrammar.defs.Factory.specialize": model_specialize,
    "histogrammar.defs.Container._checkForCrossReferences": model_xref,
}


def std_hooks(**over):
    h = {"call_models": dict(STD_MODELS)}
    h.update(over)
    return h
