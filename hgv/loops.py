"""Loops, comprehensions and collection built-ins over collections of symbolic size.

The *family rule* (DESIGN §2.5, "pointwise loops"): a loop / comprehension whose body only
touches locations indexed by the loop key is executed once at a generic key k; its effect
is recorded as functions of k and re-instantiated (by substitution) at every ground key
at which the post-state is later read.  "Every iteration completes normally" is kept as a
ForallFact; an exceptional exit introduces a witness key.
Search loops (break/return on first match) use the least-witness rule.
"""

import ast

import z3

from . import core
from .builtins_model import VIter, VKey, denum, dpos
from .fl import Fl
from .core import (
    NONE,
    CDict,
    CList,
    CSet,
    Inst,
    LDict,
    LList,
    LSet,
    Unsupported,
    VBool,
    VChild,
    VFl,
    VInt,
    VNone,
    VObj,
    VStr,
    VTuple,
    subst_v,
    vite,
)


def Res(st, v=None, exc=None):
    from .execu import Res as R

    return R(st, v, exc)


def Out(st, kind="next", v=None, exc=None):
    from .execu import Out as O

    return O(st, kind, v, exc)


class IterDesc:
    def __init__(self, ksort, length, item, guard=None, concrete=None, ordered=True):
        self.ksort = ksort
        self.length = length
        self.item = item
        self._guard = guard
        self.concrete = concrete
        self.ordered = ordered

    def guard(self, k):
        if self._guard is not None:
            return self._guard(k)
        return z3.And(k >= 0, k < self.length)


def iter_desc(X, st, v):
    B = X.B
    if isinstance(v, VTuple):
        return IterDesc(z3.IntSort(), z3.IntVal(len(v.items)), None, concrete=list(v.items))
    if isinstance(v, VObj):
        o = st.obj(v)
        if isinstance(o, CList):
            return IterDesc(z3.IntSort(), o.length(), None, concrete=list(o.items))
        if isinstance(o, LList):
            seq = B.as_sequence(st, v)
            if seq is not None:
                return IterDesc(z3.IntSort(), o.length(), None, concrete=seq)
            return IterDesc(z3.IntSort(), o.length(), o.get)
        if isinstance(o, CDict):
            return IterDesc(z3.IntSort(), None, None, concrete=[B.pykey_value(k) for k in o.items])
        if isinstance(o, LDict):
            d = IterDesc(core.Key, o.length(), lambda k: VKey(k), guard=o.present, ordered=False)
            d.dict_obj = o
            return d
        if isinstance(o, CSet):
            return IterDesc(z3.IntSort(), None, None, concrete=[B.pykey_value(k) for k in sorted(o.items, key=repr)])
        if isinstance(o, LSet):
            return IterDesc(core.Key, None, lambda k: VKey(k), guard=o.member, ordered=False)
    if isinstance(v, core.VJson):
        from . import jsonmodel as JM

        t = v.t
        # only called after the caller established the tag (see for_loop / comprehension)
        if getattr(v, "as_object", False):
            return IterDesc(core.StrS, None, lambda k: VStr(k), guard=lambda k: JM.jhas(t, k), ordered=False)
        return IterDesc(z3.IntSort(), JM.jlen(t), lambda i: core.VJson(JM.jelem(t, i)))
    if isinstance(v, VIter):
        w = v.what
        if w == "desc":
            return v.parts[0]
        if w in ("jkeys", "jitems"):
            from . import jsonmodel as JM

            t = v.parts[0].t
            if w == "jkeys":
                return IterDesc(core.StrS, None, lambda k: VStr(k), guard=lambda k: JM.jhas(t, k), ordered=False)
            return IterDesc(core.StrS, None, lambda k: VTuple([VStr(k), core.VJson(JM.jget(t, k))]), guard=lambda k: JM.jhas(t, k), ordered=False)
        if w == "range":
            lo, hi = v.parts
            if not (isinstance(lo, VInt) and isinstance(hi, VInt)):
                raise Unsupported("range of non-int")
            l, h = z3.simplify(lo.t), z3.simplify(hi.t)
            if z3.is_int_value(l) and z3.is_int_value(h):
                return IterDesc(z3.IntSort(), None, None, concrete=[VInt(i) for i in range(l.as_long(), h.as_long())])
            n = z3.simplify(z3.If(h > l, h - l, 0))
            return IterDesc(z3.IntSort(), n, lambda i: VInt(z3.simplify(l + i)))
        if w == "zip":
            ds = [iter_desc(X, st, p) for p in v.parts]
            if all(d.concrete is not None for d in ds):
                n = min(len(d.concrete) for d in ds)
                return IterDesc(z3.IntSort(), None, None, concrete=[VTuple([d.concrete[i] for d in ds]) for i in range(n)])
            if any(d.ksort != z3.IntSort() for d in ds):
                raise Unsupported("zip over unordered collection")
            lens = []
            getters = []
            for d in ds:
                if d.concrete is not None:
                    cl = CList(d.concrete)
                    lens.append(z3.IntVal(len(d.concrete)))
                    getters.append(lambda i, cl=cl: B.clist_get(cl, i))
                else:
                    lens.append(d.length)
                    getters.append(d.item)
            n = lens[0]
            for l in lens[1:]:
                n = z3.If(l < n, l, n)
            n = z3.simplify(n)
            return IterDesc(z3.IntSort(), n, lambda i: VTuple([g(i) for g in getters]))
        if w == "enumerate":
            d = iter_desc(X, st, v.parts[0])
            if d.concrete is not None:
                return IterDesc(z3.IntSort(), None, None, concrete=[VTuple([VInt(i), x]) for i, x in enumerate(d.concrete)])
            if d.ksort != z3.IntSort():
                d = positional(st, v.parts[0], d)
            return IterDesc(z3.IntSort(), d.length, lambda i: VTuple([VInt(i), d.item(i)]))
        if w in ("keys", "values", "items"):
            dv = v.parts[0]
            o = st.obj(dv)
            if isinstance(o, CDict):
                if w == "keys":
                    c = [B.pykey_value(k) for k in o.items]
                elif w == "values":
                    c = list(o.items.values())
                else:
                    c = [VTuple([B.pykey_value(k), x]) for k, x in o.items.items()]
                return IterDesc(z3.IntSort(), None, None, concrete=c)
            if isinstance(o, LDict):
                if w == "keys":
                    item = lambda k: VKey(k)
                elif w == "values":
                    item = lambda k: o.val(k)
                else:
                    item = lambda k: VTuple([VKey(k), o.val(k)])
                d = IterDesc(core.Key, o.length(), item, guard=o.present, ordered=False)
                d.dict_obj = o
                return d
    raise Unsupported(f"iteration over {v!r}")


def positional(st, src, d):
    """Turn a key-indexed (dict) iteration into a positional one through the enumeration denum/dpos."""
    o = getattr(d, "dict_obj", None)
    if o is None:
        raise Unsupported("positional view of unordered collection")
    did = z3.IntVal(o.did)
    n = o.length()
    i, k = z3.Int("enum.i"), z3.Const("enum.k", core.Key)
    st.forall(i, z3.And(i >= 0, i < n), z3.And(o.present(denum(did, i)), dpos(did, denum(did, i)) == i), name="denum")
    st.forall(
        k,
        o.present(k),
        z3.And(dpos(did, k) >= 0, dpos(did, k) < n, denum(did, dpos(did, k)) == k),
        name="dpos",
    )
    return IterDesc(z3.IntSort(), n, lambda j: d.item(denum(did, j)))


# --------------------------------------------------------------------------- inversion of key transforms


def contains_const(t, k):
    if t.eq(k):
        return True
    return any(contains_const(c, k) for c in t.children())


INVERT_REQS = []  # side conditions (functions of the generic key) under which an inversion is exact


def invert(T, k, r):
    """Find k' (a term over r) with T[k := k'] == r, for T built from constructors / denum over k."""
    if T.eq(k):
        return r
    if not z3.is_app(T):
        return None
    d = T.decl()
    kids = T.children()
    if d.name() == "str2int" and len(kids) == 1 and contains_const(kids[0], k):
        # int(s) is inverted by str(i) only on canonical decimal strings: side condition recorded
        from .builtins_model import int2str, str2int

        inner = kids[0]
        INVERT_REQS.append((k, int2str(str2int(inner)) == inner))
        return invert(inner, k, int2str(r))
    if d.name() in ("ks", "ki", "kb", "kr") and len(kids) == 1 and contains_const(kids[0], k):
        ctor = {"ks": core.Key.KStr, "ki": core.Key.KInt, "kb": core.Key.KBool, "kr": core.Key.KReal}[d.name()]
        return invert(kids[0], k, ctor(r))
    idx = [i for i, c in enumerate(kids) if contains_const(c, k)]
    if len(idx) != 1:
        return None
    i = idx[0]
    srt = T.sort()
    if srt in (core.Key, core.Ref):
        for ci in range(srt.num_constructors()):
            if srt.constructor(ci).eq(d) if hasattr(srt.constructor(ci), "eq") else srt.constructor(ci).name() == d.name():
                acc = srt.accessor(ci, i)
                return invert(kids[i], k, acc(r))
    if d.name() == "denum" and i == 1:
        return invert(kids[1], k, dpos(kids[0], r))
    if d.name() == "key2str" and i == 0:
        from .builtins_model import str2key

        return invert(kids[0], k, str2key(r))
    if d.kind() == z3.Z3_OP_ADD and len(kids) == 2 and z3.is_int(T):
        other = kids[1 - i]
        return invert(kids[i], k, r - other)
    return None


# --------------------------------------------------------------------------- family execution


class FamOutcome:
    def __init__(self, kind, st, cond, v=None, exc=None):
        self.kind, self.st, self.cond, self.v, self.exc = kind, st, cond, v, exc


class FamilyRun:
    def __init__(self, k, desc, outcomes, base):
        self.k, self.desc, self.outcomes, self.base = k, desc, outcomes, base


def family_run(X, st, desc, body_fn):
    k = z3.Const(f"gk!{core.uid()}", desc.ksort)
    sb = st.fork()
    sb.keyctx = st.keyctx + [k]
    if len(sb.keyctx) > 1:
        raise Unsupported("nested family execution")
    base_pc = len(sb.pc)
    sb.pc.append(desc.guard(k))
    sb.readlog = []
    sb.arrlog = []
    n_foralls = len(st.foralls)
    outs = body_fn(sb, desc.item(k))
    outcomes = []
    for o in outs:
        s = o.st
        delta = s.pc[base_pc + 1 :]
        cond = z3.And(delta) if delta else z3.BoolVal(True)
        kind = {"next": "normal", "continue": "normal"}.get(o.kind, o.kind)
        oc = FamOutcome(kind, s, cond, o.v, o.exc)
        oc.nested = list(s.foralls[n_foralls:])  # quantified facts created at the generic key
        outcomes.append(oc)
    return FamilyRun(k, desc, outcomes, st)


def _view_writes(st_after, st_before):
    """Point writes to child views made between two states (oldest first)."""
    ws = []
    layer = st_after.views
    while layer is not st_before.views:
        if layer is None:
            raise Unsupported("view layers diverged")
        if layer.pw is None:
            raise Unsupported("nested family effect inside a family body")
        ws.append(layer.pw)
        layer = layer.parent
    ws.reverse()
    return ws


def _obj_writes(st_after, st_before):
    """-> list of (oid, [(key/index term, value)] oldest first), rejecting non-pointwise effects."""
    res = []
    for oid, o in st_after.heap.items():
        if oid == "__globals__":
            continue
        if oid not in st_before.heap:
            continue  # temporaries of the iteration (escaping references are rejected by check_escape)
        o0 = st_before.heap[oid]
        if o is o0:
            continue
        if isinstance(o, Inst):
            changed = [(f, o.fields.get(f)) for f in set(o.fields) | set(o0.fields) if o.fields.get(f) is not o0.fields.get(f)]
            if isinstance(o0, Inst) and changed and all(f.startswith("%") for f, _ in changed):
                # ghost fields (Branch %ialias): the same loop-independent value written by every iteration
                res.append((oid, [("ghost-fields", changed)]))
                continue
            raise Unsupported("scalar field write inside a pointwise loop body")
        from . import npmodel

        if isinstance(o, npmodel.ArrO):
            # a scratch array: allowed when every iteration overwrites it completely before reading it
            first = next((w for (oid2, w) in (st_after.arrlog or []) if oid2 == oid), None)
            if first != "kill":
                raise Unsupported("array carried across loop iterations")
            res.append((oid, [("scratch", None)]))
            continue
        if isinstance(o, CList) and isinstance(o0, CList) and not o.is_tuple:
            n0 = len(o0.items)
            if len(o.items) == n0 + 1 and all(x is y for x, y in zip(o.items, o0.items)):
                res.append((oid, [("append", o.items[-1])]))
                continue
            if len(o.items) == n0:
                # the same loop-independent value written by every iteration (e.g. shape[0] = batch length)
                changed = [(i, x) for i, (x, y) in enumerate(zip(o.items, o0.items)) if x is not y]
                res.append((oid, [("idempotent", changed)]))
                continue
            raise Unsupported("list changed inside a family body (only a single append per iteration is modelled)")
        if isinstance(o, (LList, LDict)):
            ws = []
            cur = o
            while cur is not o0:
                if cur is None:
                    break
                if cur.pw is None:
                    if isinstance(o0, (CDict, CList)) and cur.parent is None:
                        break
                    raise Unsupported("non point-write collection update inside a family body")
                ws.append(cur.pw)
                cur = cur.parent
            ws.reverse()
            res.append((oid, ws))
        else:
            raise Unsupported(f"{type(o).__name__} changed inside a family body")
    return res


def _check_pointwise(run, oc, vws):
    """Reads of child views inside the body must not touch locations written by other iterations."""
    k = run.k
    for ref, _ in vws:
        if not contains_const(ref, k):
            raise Unsupported("loop body writes a loop-independent location (not pointwise)")
    written = [r for r, _ in vws]
    if not written:
        return
    for entry in oc.st.readlog or []:
        if entry[0] != "view":
            continue
        r = entry[1]
        if any(r.eq(w) for w in written):
            continue
        # a read of another slot is harmless only if it cannot be a slot written by another iteration:
        # same constructor+owner+field family with a different key term is rejected
        for w in written:
            if z3.is_app(r) and z3.is_app(w) and r.decl().eq(w.decl()) and r.num_args() == w.num_args():
                same_family = all(a.eq(b) for a, b in list(zip(r.children(), w.children()))[:-1])
                if same_family and contains_const(r, k) is False and w.decl().name() == "Old":
                    raise Unsupported("loop body reads a slot written by another iteration")


def apply_family(X, run, st, normal_conds, extra_guard=None):
    """Install the effects of all normal outcomes as family layers on state st."""
    k, desc = run.k, run.desc

    def guard_at(kk):
        g = desc.guard(kk)
        if extra_guard is not None:
            g = z3.And(g, extra_guard(kk))
        return g

    # accumulation `lst.append(f(x))` once per iteration: the list grows by the mapped sequence
    appends = {}
    normal_ocs = [oc for oc in run.outcomes if oc.kind == "normal"]
    for oc in normal_ocs:
        for oid, ws in _obj_writes(oc.st, run.base):
            for w in ws:
                if isinstance(w[0], str) and w[0] == "append":
                    appends.setdefault(oid, {})[id(oc)] = w[1]
    for oid, per in appends.items():
        for x in per.values():
            check_escape(st, x)
        if len(per) != len(normal_ocs) or desc.ksort != z3.IntSort() or not desc.ordered or extra_guard is not None and False:
            raise Unsupported("list append not performed exactly once on every normal iteration")
        base = st.heap[oid]
        n0 = len(base.items)
        total = z3.simplify(n0 + desc.length)

        def getter(i, base=base, per=per, n0=n0):
            res = None
            for oc in normal_ocs:
                v = subst_v(per[id(oc)], [(k, i - n0)])
                res = v if res is None else vite(z3.substitute(oc.cond, (k, i - n0)), v, res)
            return vite(i < n0, X.B.clist_get(base, i) if n0 else res, res)

        st.heap[oid] = LList(total, getter)
    for oc in run.outcomes:
        if oc.kind != "normal":
            continue
        vws = _view_writes(oc.st, run.base)
        _check_pointwise(run, oc, vws)
        for ref_t, view_t in vws:

            def fn(r, low, ref_t=ref_t, view_t=view_t, cond=oc.cond):
                kk = invert(ref_t, k, r)
                if kk is None:
                    raise Unsupported(f"cannot invert write target {ref_t}")
                hit = z3.And(guard_at(kk), z3.substitute(cond, (k, kk)), z3.substitute(ref_t, (k, kk)) == r)
                return z3.If(hit, z3.substitute(view_t, (k, kk)), low(r))

            st.views = st.views.family(fn, label="family")
        for oid, ws in _obj_writes(oc.st, run.base):
            o0 = st.heap[oid]
            for key_t, val in ws:
                if isinstance(key_t, str) and key_t == "append":
                    continue
                if isinstance(key_t, str) and key_t == "idempotent":
                    items = list(st.heap[oid].items)
                    for idx_, x in val:
                        terms = [x.t] if hasattr(x, "t") else []
                        if any(contains_const(t, k) for t in terms):
                            raise Unsupported("loop writes a key-dependent value to a fixed list slot")
                        nonempty = desc.length > 0 if desc.length is not None else z3.BoolVal(True)
                        items[idx_] = vite(nonempty, x, items[idx_])
                    st.heap[oid] = CList(items, is_tuple=st.heap[oid].is_tuple)
                    o0 = st.heap[oid]
                    continue
                if isinstance(key_t, str) and key_t == "ghost-fields":
                    oo = st.heap[oid]
                    for f_, x in val:
                        oo = oo.with_field(f_, x)
                    st.heap[oid] = oo
                    o0 = oo
                    continue
                if isinstance(key_t, str) and key_t == "scratch":
                    from . import npmodel

                    junk = z3.Function(f"scratch!{core.uid()}", z3.IntSort(), z3.BoolSort())
                    a0 = st.heap[oid]
                    if a0.dtype == "bool":
                        st.heap[oid] = npmodel.ArrO(a0.length, lambda i, junk=junk: VBool(junk(i)), "bool")
                    else:
                        jr = z3.Function(f"scratchr!{core.uid()}", z3.IntSort(), z3.RealSort())
                        st.heap[oid] = npmodel.ArrO(a0.length, lambda i, jr=jr: VFl(Fl.fin(jr(i))), a0.dtype)
                    o0 = st.heap[oid]
                    continue
                if not contains_const(key_t, k):
                    raise Unsupported("collection write at a loop-independent key")
                if isinstance(o0, CDict):
                    o0 = X.B.cdict_to_ldict(st, o0)
                if isinstance(o0, CList):
                    cl = o0
                    o0 = LList(cl.length(), lambda i, cl=cl: X.B.clist_get(cl, i), is_tuple=cl.is_tuple)
                if isinstance(o0, LList):
                    prev = o0

                    def getter(i, prev=prev, key_t=key_t, val=val, cond=oc.cond):
                        kk = invert(key_t, k, i)
                        if kk is None:
                            raise Unsupported("cannot invert list write index")
                        hit = z3.And(guard_at(kk), z3.substitute(cond, (k, kk)), z3.substitute(key_t, (k, kk)) == i)
                        return vite(hit, subst_v(val, [(k, kk)]), prev.get(i))

                    o0 = LList(prev.length(), getter, prev.is_tuple)
                elif isinstance(o0, LDict):
                    prev = o0

                    def hitf(x, key_t=key_t, cond=oc.cond):
                        kk = invert(key_t, k, x)
                        if kk is None:
                            raise Unsupported("cannot invert dict write key")
                        return kk, z3.And(guard_at(kk), z3.substitute(cond, (k, kk)), z3.substitute(key_t, (k, kk)) == x)

                    def present(x, prev=prev, hitf=hitf):
                        return z3.Or(prev.present(x), hitf(x)[1])

                    def val_(x, prev=prev, hitf=hitf, val=val):
                        kk, h = hitf(x)
                        return vite(h, subst_v(val, [(k, kk)]), prev.val(x))

                    newlen = st.fresh("dlen", z3.IntSort())
                    st.add(newlen >= prev.length())
                    o0 = LDict(present, val_, newlen, keykind=prev.keykind)
            st.heap[oid] = o0
    # vectorised child calls made in the body, kept as a family over the loop key
    for oc in run.outcomes:
        if oc.kind != "normal":
            continue
        calls = oc.st.np_calls[len(run.base.np_calls) :]
        if calls:
            st.np_calls = st.np_calls + [("family", k, desc, oc.cond, calls)]
        xc0 = getattr(run.base, "xref_calls", [])
        xc = getattr(oc.st, "xref_calls", [])[len(xc0) :]
        if xc:
            st.xref_calls = list(getattr(st, "xref_calls", [])) + [("family", k, desc, oc.cond, xc)]
    # allocation bookkeeping: new refs created in the body are new for every key
    for oc in run.outcomes:
        for r in oc.st.new_refs[len(run.base.new_refs) :]:
            st.new_refs.append(r)
        for ev in oc.st.events[len(run.base.events) :]:
            st.events.append(("in-loop",) + tuple(ev))


def family_finish(X, run, after_normal):
    """Combine the outcomes of a family run into post-states.

    after_normal(st) -> list of Out for the state in which every iteration completed normally.
    Returns list of Out.
    """
    k, desc, st = run.k, run.desc, run.base
    normal = [oc for oc in run.outcomes if oc.kind == "normal"]
    exits = [oc for oc in run.outcomes if oc.kind != "normal"]
    if any(oc.kind in ("break", "return") for oc in exits):
        raise Unsupported("early exit from a family loop (needs the search rule)")
    outs = []
    # ---- all iterations normal
    if normal:
        N = st.fork()
        N.forall(k, desc.guard(k), z3.Or([oc.cond for oc in normal]), name="loop-normal")
        N.foralls[-1].nested = [nf for oc in normal for nf in getattr(oc, "nested", [])]
        apply_family(X, run, N, normal)
        from .execu import is_feasible

        outs.extend(after_normal(N))
    else:
        # the body always exits abnormally: loop completes only if empty
        N = st.fork()
        N.forall(k, desc.guard(k), z3.BoolVal(False), name="loop-empty")
        outs.extend(after_normal(N))
    # ---- some iteration raises: witness key
    for oc in exits:
        if oc.kind != "raise":
            raise Unsupported(f"outcome {oc.kind} in family loop")
        Xs = st.fork()
        w = Xs.fresh("wit.raise", desc.ksort)
        Xs.add_index(w)
        Xs.add(desc.guard(w), z3.substitute(oc.cond, (k, w)))
        for nf in getattr(oc, "nested", []):
            Xs.foralls.append(nf.subst([(k, w)]))
        if desc.ksort == z3.IntSort() and desc.ordered:
            before = lambda kk: kk < w
        else:
            bf = z3.Function(f"before!{core.uid()}", desc.ksort, z3.BoolSort())
            before = lambda kk: z3.And(bf(kk), kk != w)
        if normal:
            gd = z3.And(desc.guard(k), before(k))
            Xs.forall(k, gd, z3.Or([o2.cond for o2 in normal]), name="loop-prefix-normal")
            Xs.foralls[-1].nested = [nf for o2 in normal for nf in getattr(o2, "nested", [])]
            apply_family(X, run, Xs, normal, extra_guard=before)
        # partial effects of the raising iteration itself (at the witness key)
        for ref_t, view_t in _view_writes(oc.st, run.base):
            Xs.set_view(z3.substitute(ref_t, (k, w)), z3.substitute(view_t, (k, w)))
        for oid, ws in _obj_writes(oc.st, run.base):
            for key_t, val in ws:
                if isinstance(key_t, str) and key_t in ("append", "scratch", "idempotent", "ghost-fields"):
                    continue  # the partially built local list / scratch array is dead after the raise
                o0 = Xs.heap[oid]
                if isinstance(o0, CDict):
                    o0 = X.B.cdict_to_ldict(Xs, o0)
                kt = z3.substitute(key_t, (k, w))
                vv = subst_v(val, [(k, w)])
                if isinstance(o0, LDict):
                    Xs.heap[oid] = o0.write(kt, vv, o0.length() + 1)
                elif isinstance(o0, LList):
                    Xs.heap[oid] = o0.write(kt, vv)
                else:
                    raise Unsupported("partial effect on concrete collection")
        from .execu import is_feasible

        if is_feasible(Xs.pc):
            Xs.trace.append("loop-raise")
            outs.append(Out(Xs, "raise", exc=oc.exc))
    return outs


# --------------------------------------------------------------------------- for loops


def loop_ordinal(X, st, node):
    return (st.locals.get("%func"), node.lineno)


def for_loop(X, st, node):
    outs = []
    for r in X.ev(st, node.iter):
        if r.exc is not None:
            outs.append(Out(r.st, "raise", exc=r.exc))
            continue
        for s, itv in X.split_ite(r.st, r.v):
            for s2, itv2, exc in json_iterable(X, s, itv):
                if exc is not None:
                    outs.append(Out(s2, "raise", exc=exc))
                else:
                    outs.extend(_for_loop(X, s2, node, itv2))
    return outs


def json_iterable(X, st, itv):
    """iterating a symbolic JSON value: an array yields elements, an object its keys, anything else
    raises TypeError (strings, which iterate characters, are out of reach)"""
    if not isinstance(itv, core.VJson):
        return [(st, itv, None)]
    from . import jsonmodel as JM
    from .execu import Exc

    out = []
    t = itv.t
    for s, isarr in X.branch(st, JM.jtag(t) == JM.ARR):
        if isarr:
            out.append((s, itv, None))
            continue
        for s2, isobj in X.branch(s, JM.jtag(t) == JM.OBJ):
            if isobj:
                v2 = core.VJson(t)
                v2.as_object = True
                out.append((s2, v2, None))
                continue
            for s3, isstr in X.branch(s2, JM.jtag(t) == JM.STR):
                if isstr:
                    raise Unsupported("iteration over a json string")
                out.append((s3, itv, Exc("TypeError", "json value is not iterable")))
    return out


def _for_loop(X, st, node, itv):
    desc = iter_desc(X, st, itv)
    if node.orelse:
        raise Unsupported("for/else")
    if desc.concrete is not None:
        outs = [Out(st)]
        for item in desc.concrete:
            nxt = []
            for o in outs:
                if o.kind != "next":
                    nxt.append(o)
                    continue
                for o2 in X.assign(o.st, node.target, item):
                    if o2.kind != "next":
                        nxt.append(o2)
                        continue
                    for o3 in X.ex_block(o2.st, node.body):
                        if o3.kind == "continue":
                            o3.kind = "next"
                        nxt.append(o3)
            outs = nxt
        res = []
        for o in outs:
            if o.kind == "break":
                o.kind = "next"
            res.append(o)
        return res

    has_exit = any(isinstance(x, (ast.Break, ast.Return)) for b in node.body for x in ast.walk(b))
    if has_exit:
        return search_loop(X, st, node, desc)

    saved_locals = dict(st.locals)

    def body(sb, item):
        res = []
        for o in X.assign(sb, node.target, item):
            if o.kind != "next":
                res.append(o)
            else:
                res.extend(X.ex_block(o.st, node.body))
        return res

    run = family_run(X, st, desc, body)

    def after(N):
        # loop-local variables do not survive the loop (reads of them afterwards are out of reach)
        N.frames[-1] = dict(saved_locals)
        return [Out(N)]

    return family_finish(X, run, after)


def search_loop(X, st, node, desc):
    """for ...: [pure] if cond: [effects]; break/return   -- least-witness rule (ordered iteration)."""
    if desc.ksort != z3.IntSort() or not desc.ordered:
        raise Unsupported("search loop over unordered collection")

    def body(sb, item):
        res = []
        for o in X.assign(sb, node.target, item):
            if o.kind != "next":
                res.append(o)
            else:
                res.extend(X.ex_block(o.st, node.body))
        return res

    run = family_run(X, st, desc, body)
    k = run.k
    normal = [oc for oc in run.outcomes if oc.kind == "normal"]
    exits = [oc for oc in run.outcomes if oc.kind != "normal"]
    for oc in normal:
        if _view_writes(oc.st, st) or _obj_writes(oc.st, st):
            raise Unsupported("search loop with effects on the non-exit path")
    outs = []
    hint = X.hooks.get("loop_hints", {}).get(loop_ordinal(X, st, node))
    # (a) no iteration exits
    N = st.fork()
    N.forall(k, desc.guard(k), z3.Or([oc.cond for oc in normal]) if normal else z3.BoolVal(False), name="search-nomatch")
    if hint is not None:
        hint(X, N, desc)
    from .execu import is_feasible

    if is_feasible(N.pc):
        outs.append(Out(N))
    # (b) the first exiting iteration m
    for oc in exits:
        M = oc.st  # state of the sandbox at generic key; specialise it at the witness m
        S = st.fork()
        m = S.fresh("wit.first", z3.IntSort())
        S.add_index(m)
        S.add(desc.guard(m), z3.substitute(oc.cond, (k, m)))
        S.forall(k, z3.And(desc.guard(k), k < m), z3.Or([o2.cond for o2 in normal]) if normal else z3.BoolVal(False), name="search-prefix")
        for ref_t, view_t in _view_writes(oc.st, st):
            S.set_view(z3.substitute(ref_t, (k, m)), z3.substitute(view_t, (k, m)))
        if _obj_writes(oc.st, st):
            raise Unsupported("object writes in search loop exit")
        for ev in oc.st.events[len(st.events) :]:
            S.events.append(tuple(subst_any(x, k, m) for x in ev))
        if not is_feasible(S.pc):
            continue
        S.trace.append("search-hit")
        if oc.kind == "break":
            outs.append(Out(S))
        elif oc.kind == "return":
            outs.append(Out(S, "return", subst_v(oc.v, [(k, m)])))
        elif oc.kind == "raise":
            outs.append(Out(S, "raise", exc=oc.exc))
        else:
            raise Unsupported(oc.kind)
    return outs


def check_escape(st, v):
    """values kept from a family body must not reference objects allocated inside the body"""
    if isinstance(v, VObj) and v.oid not in st.heap:
        raise Unsupported("object allocated inside a family body escapes")
    if isinstance(v, VTuple):
        for x in v.items:
            check_escape(st, x)
    if isinstance(v, core.VRec):
        for x in v.items.values():
            check_escape(st, x)
    if isinstance(v, core.VIte):
        check_escape(st, v.a)
        check_escape(st, v.b)


def subst_any(x, k, m):
    if isinstance(x, z3.ExprRef):
        return z3.substitute(x, (k, m))
    return x


# --------------------------------------------------------------------------- comprehensions


def comprehension(X, st, node, kind):
    if len(node.generators) != 1:
        raise Unsupported("nested comprehension")
    gen = node.generators[0]
    out = []
    for r in X.ev(st, gen.iter):
        if r.exc is None and isinstance(r.v, core.VOpq):
            out.extend(_comprehension(X, r.st, node, gen, kind, r.v))
            continue
        if gen.ifs:
            raise Unsupported("comprehension filter")
        if r.exc is not None:
            out.append(r)
            continue
        for s, itv in X.split_ite(r.st, r.v):
            for s2, itv2, exc in json_iterable(X, s, itv):
                if exc is not None:
                    out.append(Res(s2, exc=exc))
                else:
                    out.extend(_comprehension(X, s2, node, gen, kind, itv2))
    return out


co_names_has = z3.Function("co_names_has", core.Opq, core.StrS, z3.BoolSort())  # name in code.co_names


def _comprehension(X, st, node, gen, kind, itv):
    if isinstance(itv, core.VOpq) and itv.tag == "attr:co_names" and kind == "dict":
        # {n: ... for n in code.co_names if ...}: the names a code object refers to, as a set of strings
        C = itv.t
        desc = IterDesc(core.Key, None, lambda k: VKey(k), guard=lambda k: z3.And(core.Key.is_KStr(k), co_names_has(C, core.Key.ks(k))), ordered=False)
        if gen.ifs:
            desc = filtered_desc(X, st, gen, desc)
        return _comprehension_desc(X, st, node, gen, kind, desc)
    if isinstance(itv, core.VOpq):
        # a comprehension over an opaque python collection (e.g. code.co_names): an opaque collection that
        # is a deterministic function of it
        f = z3.Function(f"comprehension_l{node.lineno}", itv.t.sort(), core.Opq)
        return [Res(st, core.VOpq(f(itv.t), "opaque-collection"))]
    desc = iter_desc(X, st, itv)
    return _comprehension_desc(X, st, node, gen, kind, desc)


def filtered_desc(X, st, gen, desc):
    """`... for x in it if c1 if c2`: the filters, evaluated once at a generic key, become part of the domain.
    Only side-effect-free filters that evaluate along a single non-raising path are modelled."""
    k0 = z3.Const(f"fk!{core.uid()}", desc.ksort)
    sp = st.fork()
    sp.pc.append(desc.guard(k0))
    outs = X.assign(sp, gen.target, desc.item(k0))
    if len(outs) != 1 or outs[0].kind != "next":
        raise Unsupported("comprehension filter: target assignment")
    base_len = len(outs[0].st.pc)
    paths = [(outs[0].st, z3.BoolVal(True))]
    for c in gen.ifs:
        nxt = []
        for cur, acc in paths:
            for r in X.ev(cur, c):
                if r.exc is not None:
                    raise Unsupported("comprehension filter that may raise")
                nxt.append((r.st, z3.And(acc, X.truth(r.st, r.v))))
        paths = nxt
    for cur, _ in paths:
        if any(cur.heap.get(oid) is not o for oid, o in st.heap.items()):
            raise Unsupported("comprehension filter with side effects")
    cond = z3.Or([z3.And(*(list(cur.pc[base_len:]) + [acc])) for cur, acc in paths])
    guard0 = desc.guard
    d2 = IterDesc(desc.ksort, None, desc.item, guard=lambda k: z3.And(guard0(k), z3.substitute(cond, (k0, k))), ordered=desc.ordered)
    if hasattr(desc, "dict_obj"):
        d2.dict_obj = desc.dict_obj
    return d2


def _comprehension_desc(X, st, node, gen, kind, desc):
    saved = dict(st.locals)
    if kind == "dict":
        elt_nodes = [node.key, node.value]
    else:
        elt_nodes = [node.elt]

    if desc.concrete is not None:
        results = [Res(st, [])]
        for item in desc.concrete:
            nxt = []
            for r in results:
                if r.exc is not None:
                    nxt.append(r)
                    continue
                for o in X.assign(r.st, gen.target, item):
                    if o.kind != "next":
                        nxt.append(Res(o.st, exc=o.exc))
                        continue
                    for r2 in X.ev_list(o.st, elt_nodes):
                        if r2.exc is not None:
                            nxt.append(r2)
                        else:
                            nxt.append(Res(r2.st, r.v + [r2.v]))
            results = nxt
        out = []
        for r in results:
            if r.exc is not None:
                out.append(r)
                continue
            s = r.st
            s.frames[-1] = {**saved}
            if kind == "dict":
                d = {}
                sym = False
                for kv, vv in r.v:
                    pk = X.B.try_pykey(kv)
                    if pk is None:
                        sym = True
                        break
                    d[pk] = vv
                if sym:
                    dv = s.alloc(CDict({}))
                    for kv, vv in r.v:
                        X.B.setitem(s, dv, kv, vv)
                    out.append(Res(s, dv))
                else:
                    out.append(Res(s, s.alloc(CDict(d))))
            elif kind == "list":
                out.append(Res(s, s.alloc(CList([x[0] for x in r.v]))))
            else:
                out.append(Res(s, VTuple([x[0] for x in r.v])))
        return out

    def body(sb, item):
        res = []
        for o in X.assign(sb, gen.target, item):
            if o.kind != "next":
                res.append(o)
                continue
            for r in X.ev_list(o.st, elt_nodes):
                if r.exc is not None:
                    res.append(Out(r.st, "raise", exc=r.exc))
                else:
                    res.append(Out(r.st, "next", v=r.v))
        return res

    run = family_run(X, st, desc, body)
    k = run.k
    normal = [oc for oc in run.outcomes if oc.kind == "normal"]
    for oc in normal:
        for x in oc.v or []:
            check_escape(st, x)

    def after(N):
        N.frames[-1] = dict(saved)

        def elem(i, j):
            # value of element expression j at key i
            res = None
            for oc in normal:
                v = subst_v(oc.v[j], [(k, i)])
                if res is None:
                    res = v
                else:
                    res = vite(z3.substitute(oc.cond, (k, i)), v, res)
            return res if res is not None else NONE

        if kind == "dict":
            if desc.ksort == z3.IntSort() and not all(isinstance(oc.v[0], (VInt, VKey, VStr)) for oc in normal):
                raise Unsupported("dict comprehension key form")
            # the key expression must be invertible in k
            key_ts = [X.B.keyterm(oc.v[0]) for oc in normal]

            def hit(x):
                hs = []
                for oc, kt in zip(normal, key_ts):
                    kk = invert(kt, k, x)
                    if kk is None:
                        raise Unsupported("cannot invert dict comprehension key")
                    hs.append((kk, z3.And(desc.guard(kk), z3.substitute(oc.cond, (k, kk)), z3.substitute(kt, (k, kk)) == x), oc))
                return hs

            def present(x):
                return z3.Or([h for _, h, _ in hit(x)] or [z3.BoolVal(False)])

            def val(x):
                res = NONE
                for kk, h, oc in hit(x):
                    res = vite(h, subst_v(oc.v[1], [(k, kk)]), res)
                return res

            length = desc.length if desc.length is not None else N.fresh("dlen", z3.IntSort())
            N.add(length >= 0)
            # exactness of the key inversion (e.g. int(str) only on canonical strings) must be entailed
            del INVERT_REQS[:]
            probe = z3.Const(f"probe!{core.uid()}", core.Key)
            present(probe)
            reqs = list(INVERT_REQS)
            del INVERT_REQS[:]
            for kk, cond in reqs:
                if not kk.eq(k):
                    continue  # belongs to an enclosing / earlier comprehension, checked there
                neg = N.fork()
                w = neg.fresh("wit.noncanon", kk.sort())
                neg.add_index(w)
                neg.add(desc.guard(w), z3.Not(z3.substitute(cond, (kk, w))))
                neg.add(z3.Or([z3.substitute(oc.cond, (k, w)) for oc in normal]))
                if full_feasible(neg):
                    raise Unsupported("dict comprehension key is not injective on this input (e.g. non-canonical integer strings)")
            return [Out(N, "next", v=N.alloc(LDict(present, val, length)))]
        if kind == "gen" and desc.ksort != z3.IntSort():
            return [Out(N, "next", v=VIter("desc", IterDesc(desc.ksort, desc.length, lambda i: elem(i, 0), guard=desc._guard, ordered=False)))]
        if desc.ksort != z3.IntSort():
            # a list built by iterating a dict: positional through the dict's enumeration (the same dict in the
            # same state enumerates in the same order every time: denum / dpos are functions of the dict id)
            o = getattr(desc, "dict_obj", None)
            if o is None or kind != "list":
                raise Unsupported("list comprehension over unordered collection")
            positional(N, None, desc)
            did = z3.IntVal(o.did)
            return [Out(N, "next", v=N.alloc(LList(o.length(), lambda j: elem(denum(did, j), 0))))]
        if kind == "list":
            return [Out(N, "next", v=N.alloc(LList(desc.length, lambda i: elem(i, 0))))]
        return [Out(N, "next", v=VIter("desc", IterDesc(z3.IntSort(), desc.length, lambda i: elem(i, 0))))]

    outs = family_finish(X, run, after)
    res = []
    for o in outs:
        if o.kind == "raise":
            o.st.frames[-1] = dict(saved)
            res.append(Res(o.st, exc=o.exc))
        else:
            res.append(Res(o.st, o.v))
    return res


# --------------------------------------------------------------------------- built-ins over collections


def materialize(X, st, v, tname):
    if isinstance(v, VObj) and isinstance(st.obj(v), LList) and st.obj(v).is_tuple == (tname == "tuple"):
        if tname == "tuple":
            return [Res(st, v)]
    d = iter_desc(X, st, v)
    if d.concrete is not None:
        if tname == "tuple":
            return [Res(st, VTuple(d.concrete))]
        return [Res(st, st.alloc(CList(d.concrete)))]
    if d.ksort != z3.IntSort():
        d = positional(st, v, d)
    return [Res(st, st.alloc(LList(d.length, d.item, is_tuple=(tname == "tuple"))))]


def make_dict(X, st, v, kw):
    if isinstance(v, VObj):
        o = st.obj(v)
        if isinstance(o, CDict):
            d = dict(o.items)
            d.update(kw)
            return [Res(st, st.alloc(CDict(d)))]
        if isinstance(o, LDict) and not kw:
            return [Res(st, X.B.copy_dict_value(st, v))]
    if isinstance(v, VIter) and v.what == "enumerate":
        d = iter_desc(X, st, v.parts[0])
        if d.concrete is not None:
            return [Res(st, st.alloc(CDict({i: x for i, x in enumerate(d.concrete)})))]
        n = d.length
        return [
            Res(
                st,
                st.alloc(
                    LDict(
                        lambda x: z3.And(core.Key.is_KInt(x), core.Key.ki(x) >= 0, core.Key.ki(x) < n),
                        lambda x: d.item(core.Key.ki(x)),
                        n,
                    )
                ),
            )
        ]
    raise Unsupported(f"dict({v!r})")


def make_set(X, st, v):
    d = iter_desc(X, st, v)
    if d.concrete is not None:
        return [Res(st, st.alloc(CSet([X.B.pykey(x) for x in d.concrete])))]
    if d.ksort == core.Key:
        # keys of a dict / members of a set
        return [Res(st, st.alloc(LSet(d.guard)))]
    if d.ksort == core.StrS:
        g = d.guard
        return [Res(st, st.alloc(LSet(lambda x: z3.And(core.Key.is_KStr(x), g(core.Key.ks(x))))))]
    raise Unsupported("set() of symbolic list")


def set_method(X, st, selfv, name, args):
    o = st.obj(selfv)

    def member_fn(ov):
        oo = st.obj(ov)
        if isinstance(oo, LSet):
            return oo.member
        if isinstance(oo, CSet):
            items = list(oo.items)
            return lambda x: z3.Or([x == X.B.pykey_term(i) for i in items] or [z3.BoolVal(False)])
        raise Unsupported("set operand")

    def literal_items(v):
        if isinstance(v, VObj) and isinstance(st.obj(v), CSet):
            return set(st.obj(v).items)
        seq = X.B.as_sequence(st, v)
        if seq is not None:
            return {X.B.pykey(x) for x in seq}
        return None

    if name == "update":
        items = literal_items(args[0])
        if isinstance(o, CSet) and items is not None:
            st.set_obj(selfv, CSet(o.items | items))
            return [Res(st, NONE)]
        raise Unsupported("set.update on symbolic sets")
    if name == "issuperset":
        items = literal_items(args[0])
        if items is None:
            raise Unsupported("issuperset of a symbolic collection")
        if isinstance(o, CSet):
            return [Res(st, VBool(items <= o.items))]
        mem = member_fn(selfv)
        return [Res(st, VBool(z3.And([mem(X.B.pykey_term(i)) for i in items] or [z3.BoolVal(True)])))]
    if name == "union":
        a, b = o, st.obj(args[0])
        if isinstance(a, CSet) and isinstance(b, CSet):
            return [Res(st, st.alloc(CSet(a.items | b.items)))]
        ma, mb = member_fn(selfv), member_fn(args[0])
        return [Res(st, st.alloc(LSet(lambda x: z3.Or(ma(x), mb(x)))))]
    if name == "issubset":
        a, b = o, st.obj(args[0])
        if isinstance(a, CSet) and isinstance(b, CSet):
            return [Res(st, VBool(a.items <= b.items))]
        if isinstance(a, CSet):
            mb = member_fn(args[0])
            return [Res(st, VBool(z3.And([mb(X.B.pykey_term(i)) for i in a.items] or [z3.BoolVal(True)])))]
        ma, mb = member_fn(selfv), member_fn(args[0])
        k = z3.Const(f"sk!{core.uid()}", core.Key)
        b_ = st.forall(k, ma(k), mb(k), equiv=True, name="issubset")
        return [Res(st, VBool(b_))]
    raise Unsupported(f"set.{name}")


def dict_update(X, st, selfv, other, kw):
    o = st.obj(selfv)
    if other is not None:
        oo = st.obj(other)
        if isinstance(o, CDict) and isinstance(oo, CDict):
            d = dict(o.items)
            d.update(oo.items)
            d.update(kw)
            st.set_obj(selfv, CDict(d))
            return [Res(st, NONE)]
        if isinstance(oo, LDict):
            if isinstance(o, CDict):
                o = X.B.cdict_to_ldict(st, o)
            prev = o
            n = st.fresh("dlen", z3.IntSort())
            st.add(n >= prev.length(), n >= oo.length(), n <= prev.length() + oo.length())
            st.set_obj(
                selfv,
                LDict(
                    lambda x: z3.Or(oo.present(x), prev.present(x)),
                    lambda x: vite(oo.present(x), oo.val(x), prev.val(x)),
                    n,
                ),
            )
            return [Res(st, NONE)]
        raise Unsupported("dict.update form")
    if isinstance(o, CDict):
        d = dict(o.items)
        d.update(kw)
        st.set_obj(selfv, CDict(d))
        return [Res(st, NONE)]
    raise Unsupported("dict.update(**kw) on symbolic dict")


def all_any(X, st, v, is_all):
    d = iter_desc(X, st, v)
    if d.concrete is not None:
        acc = z3.BoolVal(is_all)
        for x in d.concrete:
            t = X.truth(st, x)
            acc = z3.And(acc, t) if is_all else z3.Or(acc, t)
        return [Res(st, VBool(z3.simplify(acc)))]
    k = z3.Const(f"qk!{core.uid()}", d.ksort)
    item = d.item(k)
    t = X.truth(st, item)
    if is_all:
        b = st.forall(k, d.guard(k), t, equiv=True, name="all")
        return [Res(st, VBool(b))]
    b = st.forall(k, d.guard(k), z3.Not(t), equiv=True, name="any")
    return [Res(st, VBool(z3.Not(b)))]


def collection_equals(X, st, a, b):
    """list == list, tuple == tuple, dict == dict (assumed built-in contract: same length / key set, elementwise ==
    with identity shortcut)."""
    oa, ob = st.obj(a), st.obj(b)
    if a.oid == b.oid:
        return [Res(st, VBool(True))]
    if isinstance(oa, (CList, LList)) and isinstance(ob, (CList, LList)):
        if oa.is_tuple != ob.is_tuple:
            return [Res(st, VBool(False))]
        ta, tb = getattr(oa, "tag", None), getattr(ob, "tag", None)
        if ta and tb and ta[0] == "sorted-keys" and tb[0] == "sorted-keys":
            # two sorted key lists are equal iff the key sets are equal
            k = z3.Const(f"eqk!{core.uid()}", core.Key)
            bb = st.forall(k, z3.BoolVal(True), ta[1](k) == tb[1](k), equiv=True, name="sortedkeys-eq")
            return [Res(st, VBool(bb))]
        sa, sb = X.B.as_sequence(st, a), X.B.as_sequence(st, b)
        if sa is not None and sb is not None:
            return X.B.equals(st, VTuple(sa), VTuple(sb))
        da, db = iter_desc(X, st, a), iter_desc(X, st, b)
        la, lb = oa.length(), ob.length()
        geta = da.item if da.concrete is None else (lambda i: X.B.clist_get(CList(da.concrete), i))
        getb = db.item if db.concrete is None else (lambda i: X.B.clist_get(CList(db.concrete), i))
        out = []
        for s, same_len in X.branch(st, la == lb):
            if not same_len:
                out.append(Res(s, VBool(False)))
                continue
            k = z3.Const(f"eqk!{core.uid()}", z3.IntSort())
            t = elem_eq_term(X, s, geta(k), getb(k))
            bb = s.forall(k, z3.And(k >= 0, k < la), t, equiv=True, name="list-eq")
            out.append(Res(s, VBool(bb)))
        return out
    if isinstance(oa, (CSet, LSet)) and isinstance(ob, (CSet, LSet)):
        if isinstance(oa, CSet) and isinstance(ob, CSet):
            return [Res(st, VBool(oa.items == ob.items))]

        def memf(o):
            if isinstance(o, LSet):
                return o.member
            items = list(o.items)
            return lambda x: z3.Or([x == X.B.pykey_term(i) for i in items] or [z3.BoolVal(False)])

        ma, mb = memf(oa), memf(ob)
        k = z3.Const(f"eqk!{core.uid()}", core.Key)
        bb = st.forall(k, z3.BoolVal(True), ma(k) == mb(k), equiv=True, name="set-eq")
        return [Res(st, VBool(bb))]
    if isinstance(oa, (CDict, LDict)) and isinstance(ob, (CDict, LDict)):
        if isinstance(oa, CDict):
            oa = X.B.cdict_to_ldict(st, oa)
        if isinstance(ob, CDict):
            ob = X.B.cdict_to_ldict(st, ob)
        k = z3.Const(f"eqk!{core.uid()}", core.Key)
        same_keys = oa.present(k) == ob.present(k)
        t = elem_eq_term(X, st, oa.val(k), ob.val(k))
        bb = st.forall(k, z3.BoolVal(True), z3.And(same_keys, z3.Implies(oa.present(k), t)), equiv=True, name="dict-eq")
        return [Res(st, VBool(bb))]
    return [Res(st, VBool(False))]


def elem_eq_term(X, st, x, y):
    """z3 Bool for `x is y or x == y` on element values, without forking (no side effects allowed)."""
    if isinstance(x, VTuple) and isinstance(y, VTuple):
        if len(x.items) != len(y.items):
            return z3.BoolVal(False)
        return z3.And([elem_eq_term(X, st, p, q) for p, q in zip(x.items, y.items)] or [z3.BoolVal(True)])
    if isinstance(x, VChild) and isinstance(y, VChild):
        return z3.Or(x.ref == y.ref, st.view(x.ref) == st.view(y.ref))
    fx, fy = X.B.num(x), X.B.num(y)
    if fx is not None and fy is not None:
        return fx.eq(fy)  # distinct float objects: nan != nan
    if isinstance(x, VStr) and isinstance(y, VStr):
        return x.t == y.t
    if isinstance(x, VNone) or isinstance(y, VNone):
        return z3.BoolVal(isinstance(x, VNone) and isinstance(y, VNone))
    if isinstance(x, VKey) or isinstance(y, VKey):
        return X.B.keyterm(x) == X.B.keyterm(y)
    if x.kind == "json" and y.kind == "json":
        return x.t == y.t
    if x.kind != y.kind:
        return z3.BoolVal(False)
    raise Unsupported(f"element equality of {x!r} and {y!r}")


def list_index(X, st, selfv, item):
    """list.index(x) on a list of numbers: the least i with a[i] == x, ValueError when there is none"""
    so = X.B.seqobj(st, selfv)
    fx = X.B.num(item)
    if so is None or fx is None or not isinstance(so, LList) or so.getter is None:
        raise Unsupported("list.index")
    out = []
    for r in X.B.contains(st, selfv, item):
        for s, has in X.branch(r.st, r.v.t):
            if not has:
                out.extend(X.raise_(s, "ValueError", "x not in list"))
                continue
            k = s.fresh("lindex", z3.IntSort())
            fe = X.B.num(so.get(k))
            s.add(k >= 0, k < so.length(), fx.eq(fe))
            s.add_index(k)
            i = z3.Int(f"lidx!{core.uid()}")
            s.forall(i, z3.And(i >= 0, i < k), z3.Not(fx.eq(X.B.num(so.get(i)))), name="list-index-least")
            out.append(Res(s, core.VInt(k)))
    return out


def sorted_(X, st, v, kw):
    if kw:
        raise Unsupported("sorted with key")
    d = iter_desc(X, st, v)
    if d.concrete is not None and len(d.concrete) <= 1:
        return [Res(st, st.alloc(CList(d.concrete)))]
    if d.ksort == core.Key and d.ordered is False:
        # sorted(keys of a dict / set): an ordered list with the same members.  Modelled as an
        # opaque sorted-key list that remembers its member predicate (enough for == between two of them).
        guard = d.guard
        lst = LList(d.length if d.length is not None else st.fresh("len", z3.IntSort()), None)
        lst.tag = ("sorted-keys", guard)
        lst.getter = lambda i: (_ for _ in ()).throw(Unsupported("element of sorted key list"))
        return [Res(st, st.alloc(lst))]
    if d.ksort == z3.IntSort() and d.concrete is None:
        # sorted(list of floats): assumed contract -- an ascending permutation; the identity on a strictly
        # increasing list.  Only the second case is modelled; it must be *entailed* by the state.
        i = z3.Int(f"srt!{core.uid()}")
        e0, e1 = d.item(i), d.item(i + 1)
        f0, f1 = X.B.num(e0), X.B.num(e1)
        if f0 is None or f1 is None:
            raise Unsupported("sorted over non-numbers")
        inc = st.forall(i, z3.And(i >= 0, i + 1 < d.length), f0.lt(f1), equiv=True, name="sorted-input")
        neg = st.fork()
        neg.pc.append(z3.Not(inc))
        if full_feasible(neg):
            raise Unsupported("sorted() of a list not known to be increasing")
        st.add(inc)
        return [Res(st, st.alloc(LList(d.length, d.item)))]
    raise Unsupported("sorted")


def full_feasible(st, timeout_ms=8000):
    """feasibility including ground instances of the quantified facts"""
    from . import smt

    vc = smt.build_vc("feasible", st, z3.BoolVal(False))
    smt.discharge_z3(vc, timeout_ms)
    return vc.verdict != "unsat"
