"""Bounded native stand-ins (DESIGN §9): contract clauses checked at run time on an enumerated bounded
input space, for functions that are outside the symbolic executor's reach.  Labelled `bounded`;
never counted in `discharged`."""

import json
import os
import subprocess

from . import REPO, VERIF

_NP_BOUND = "batches of length 0, 1, 2, 4, 13 over {0.5, nan, -inf, inf, -1, 0, 1, 2.5, 3, 2.9999999999999996, 1.75, 1e19, -1e300} (record arrays), weights {1, scalar 0.5, array (1, 0, 2, 0.5, ...)}, whole batch and split into two successive fill.numpy calls, child templates {Count, Sum, Average, Deviate, Minimize, Bin(2)}; JSON compared up to zero-weight sparse bins; inputs unmodified"
_NP_CLASSES = ["Count", "Sum", "Average", "Deviate", "Minimize", "Maximize", "Bag", "Bin", "SparselyBin", "CentrallyBin", "IrregularlyBin", "Stack", "Fraction", "Select", "Categorize", "Label", "UntypedLabel", "Index", "Branch"]
_NP_MOD = {"Count": "count", "Sum": "sum", "Average": "average", "Deviate": "deviate", "Minimize": "minmax", "Maximize": "minmax", "Bag": "bag", "Bin": "bin", "SparselyBin": "sparselybin", "CentrallyBin": "centrallybin", "IrregularlyBin": "irregularlybin", "Stack": "stack", "Fraction": "fraction", "Select": "select", "Categorize": "categorize", "Label": "collection", "UntypedLabel": "collection", "Index": "collection", "Branch": "collection"}

C13_BOUND = (
    "Bin (num, low, high) in {(10,0,1), (3,0,1), (7,-2.5,4.5), (10,0.1,1.1), (1,0,1), (100,1000,1000.5), (6,-1e6,1e6)}; "
    "SparselyBin (width, origin) in {(1,0), (0.1,0), (1/3,0.5), (0.5,1000.25), (2,-7)} incl. negative indexes; "
    "CentrallyBin centres {(0,1,2.5), (-3,-1,0.5,10), (1000,1000.5,1001.5), (0.1,0.7,1.7,4.9), (1/3,0.7,1e6)}; IrregularlyBin edges {(0,1,2), (-1.5,0.1,0.3,7), (1000,1000.5), (0.1,0.7,1.7,4.9)} (these two classes: exact comparison, no ulp allowance); "
    "probe data = every edge / midpoint, each +-1 ulp, and values outside the domain; sub-ranges = ordered pairs of those probes inside the "
    "binned domain (at most 400 per configuration); edge-vs-datum comparisons allow 8 ulp of the largest edge, counts and contents are exact"
)

NATIVE = {
    "C03": [(f"C03:numpy-{K}", f"histogrammar.primitives.{_NP_MOD[K]}.{K}._numpy", "bounded:numpy-equals-rowwise", _NP_BOUND) for K in _NP_CLASSES]
    + [
        (f"C03:numpy-{K}-count-first", f"histogrammar.primitives.collection.{K}._numpy", "bounded:numpy-equals-rowwise:count-before-first-quantity", "the same batches on a collection whose first child is a Count followed by a quantity-bearing child")
        for K in ("UntypedLabel", "Branch")
    ]
    + [
        ("C03:numpy-count-after-quantity", "histogrammar.primitives.count.Count._numpy", "bounded:numpy-equals-rowwise:count-after-a-quantity-bearing-sibling",
         "Branch / UntypedLabel whose first child bears a quantity, followed by Counts with no, a linear (0.5 w) and a non-linear (w^2) weight transform; 8 rows incl. nan; weights 1, scalar 2.5, scalar 0, array; whole batch and two batches"),
    ]
    + [
        (f"C03:edges-{K}", f"histogrammar.primitives.{_NP_MOD[K]}.{K}._numpy", "bounded:numpy-equals-rowwise:quantities-on-bin-edges",
         "400 random non-dyadic binnings (num in {1..100}, low in {0, -1.5, 0.1, 1e-3, -7, 1000}, 5 widths; up to 7 random centres / edges); batch = every edge (both association orders), each +-1 ulp, nan, low, high, high - 1 ulp, shuffled, weights in {1, 0.5, 2, 3.25}; Count bins (fast path) and Sum bins (bin-by-bin path); the rounding level that the real-arithmetic routing proofs abstract")
        for K in ("Bin", "SparselyBin", "CentrallyBin", "IrregularlyBin", "Stack")
    ],
    "C11": [
        ("C11:pickle", "histogrammar.defs.Container.__getstate__", "bounded:pickle-roundtrip",
         "12 trees (depth <= 2) x 7 quantity kinds (lambda, lambda with default, def, string, named, cached, named+cached string) x states {empty, filled, merged} + a JSON-reloaded tree: clone equal with identical JSON, original unchanged and still fillable (fill, fill.numpy), clone and original stay equal under identical further fills"),
    ],
    "C16": [
        ("C16:sharing", "histogrammar.defs.Container._checkForCrossReferences", "bounded:shared-node-detected",
         "all trees of depth <= 2 over the 12 container classes with one aggregator object installed at two fillable positions (siblings, cousins under different parents, a node and its own descendant), first and later fills, fill and fill.numpy: ContainerException before any state change; the same trees without sharing (incl. a shared unfilled template) are never rejected"),
    ],
    "C04": [
        ("C04:Stack.build", "histogrammar.primitives.stack.Stack.build", "bounded:built-stack-and-its-clones-interchangeable",
         "Stack.build of three filled Bins (all thresholds NaN, outside the wf of the proved Stack contracts): pickle clone, JSON reload and copy serialise identically and can be merged with the original and with each other, scaled, added to their zero()"),
        ("C04:numpy-dtypes", "histogrammar.primitives.minmax.Maximize._numpy", "bounded:state-after-non-float64-batches-serialises",
         "14 trees (7 leaves / containers with Minimize, Maximize, Sum bins) x arrays of dtype int64, int32, float32, bool, two successive fill.numpy batches (the second raising the maximum and lowering the minimum): json.dumps(toJson(), allow_nan=False) works (no numpy scalar is left in a field) and equals the row-wise fill up to 1e-6"),
        ("C04:string-and-file", "histogrammar.defs.Factory.fromJsonString", "bounded:string-and-file-routes",
         "every class x 3 child kinds, empty and filled with 5 data (incl. nan, +-inf): toJsonString / toJsonFile are strict JSON equal to the document of toJson; Factory.fromJson(str), fromJsonString, fromJsonFile give what the direct reload of the document gives; the aggregator is unchanged (json.dump / json.load and the file system are external)"),
        ("C04:duplicate-edges", "histogrammar.primitives.irregularlybin.IrregularlyBin.fromJsonFragment", "bounded:repeated-thresholds-survive-the-round-trip",
         "IrregularlyBin and Stack with repeated / unordered thresholds ([1, 1, 3], [3, 1, 1]; outside the wf `strictly increasing` of the proved contracts), Count and Sum bins, filled with 5 data: strict dumps, the reload has as many bins and serialises identically, original + reload = original * 2"),
        ("C04:Bag.json", "histogrammar.primitives.bag.Bag.toJsonFragment", "bounded:json-roundtrip",
         "Bag of range N / S / N2 filled with up to 2 data from the critical alphabet (incl. nan, +-inf): strict dumps, reload re-serialises identically, reloaded usable under zero/copy/+/*"),
    ],
    "C15": [
        ("C15:version", "histogrammar.version.compatible", "bounded:version-grid",
         "version strings <a>.<b>[.<c>] for a, b up to two above the library's, and malformed strings; used through its assumed contract in Factory.fromJson"),
        ("C15:duplicate-edges", "histogrammar.primitives.irregularlybin.IrregularlyBin.ed", "bounded:nothing-dropped-from-a-document-with-repeated-thresholds",
         "the documents of C04:duplicate-edges: fromJson returns a container with every bin of the document (faithfulness outside the wf `strictly increasing`)"),
        ("C15:Bag.json", "histogrammar.primitives.bag.Bag.fromJsonFragment", "bounded:single-point-mutations",
         "all single-point structural mutations (delete key, add key, retype value, rename type, negative entries, version) of 6 Bag documents"),
    ],
    "C01": [
        ("C01:Stack.build", "histogrammar.primitives.stack.Stack.__add__", "bounded:built-stacks-merge-in-any-grouping",
         "three Stacks made by Stack.build from independently filled Bins (all thresholds NaN, outside the wf of the proved Stack contracts): four orders / groupings of + agree, zero() is a two-sided identity, also for a JSON reload"),
        ("C01:Bag.vector", "histogrammar.primitives.bag.Bag.__add__", "bounded:vector-bags-merge-like-one-fill",
         "Bag of range N2 / N3 (outside the wf of the proved Bag contracts): up to 3 fills of vectors over {0.5, -1, nan, inf} split over two Bags: a + b, b + a, a + zero + b and a += b equal filling everything into one Bag"),
    ],
    "C08": [
        ("C08:Bag.vector", "histogrammar.primitives.bag.Bag.__mul__", "bounded:vector-bags-scale-like-refill",
         "Bag of range N2 / N3: h * 2 equals filling with doubled weights; h * 0 is empty"),
    ],
    "C05": [
        (f"C05:edges-{K}", f"histogrammar.primitives.{_NP_MOD[K]}.{K}.fill", "bounded:bins-and-flows-sum-to-entries:quantities-on-bin-edges",
         "the binnings and edge batches of C03:edges-<K>, filled row-wise and by fill.numpy: bins + underflow / overflow / nanflow (Stack: level 0 + nanflow) sum to entries up to 1e-9 relative - every quantity on or next to an edge is counted exactly once, at the rounding level the partition lemmas abstract")
        for K in ("Bin", "SparselyBin", "CentrallyBin", "IrregularlyBin", "Stack")
    ],
    "C10": [
        ("C10:Stack.nan-thresholds", "histogrammar.primitives.stack.Stack._sameThresholds", "bounded:nan-thresholds-match-only-nan",
         "Stack.build(...) against an ordinary Stack with as many levels, and ed-built Stacks with thresholds (nan, 1) vs (nan, 2) / (1, nan) / (-inf, 1), (nan, nan) vs (nan, nan, nan): + and += in both operand orders raise ContainerException; equal NaN patterns merge (NaN thresholds are outside the wf of the proved Stack contracts)"),
    ],
    "C12": [
        ("C12:rollback", "histogrammar.defs.Container.fill", "bounded:failing-fill-leaves-the-tree-bit-identical",
         "every class x failing child {Sum, Average, Deviate, Minimize, Maximize, Bin, SparselyBin, Categorize} x failure mode {exception, list, complex, numpy.str_, an int beyond the float range (+-10**400: OverflowError where it is converted)}, after prefixes filled with weight 1 and with weight 0.1, failing fill with weight 1 and 0.2 (an undo by subtraction is not exact in doubles): the JSON before and after the failing fill is identical - the rounding level that A-REAL abstracts"),
    ],
    "C02": [
        ("C02:Stack.unsorted", "histogrammar.primitives.stack.Stack.fill", "bounded:levels-of-an-unsorted-stack",
         "Stack with thresholds (5,1,3), (3,1), (2,2,0), (0,1,2) - the constructor keeps the given order; the proved contract has wf `thresholds increasing` - filled with 10 weighted data incl. NaN, +-inf, zero and negative weights: level k holds the weight of the data with q >= t_k"),
        ("C02:Bag.vector", "histogrammar.primitives.bag.Bag._update", "bounded:vector-keys-form-a-value-to-weight-map",
         "Bag of range N2 / N3 (outside the wf of the proved Bag.fill contract, which covers ranges N and S): sequences of up to 3 fills of vectors over {0.5, -1, nan (a fresh float object each time), inf}: one key per distinct vector with NaN == NaN, weights add up to entries, content independent of the fill order, JSON round trip keeps keys and weight"),
    ],
    "C09": [
        ("C09:Bag.vector", "histogrammar.primitives.bag.Bag.__eq__", "bounded:vector-keys-eq-sound-complete",
         "Bag of range N2 / N3 filled with up to 3 vectors over {0.5, -1, nan, inf}: equal to its copy, pickle clone and refill (== and !=); one component of one key replaced (incl. nan vs number) makes them unequal"),
        ("C09:cross-class", "histogrammar.defs.Container.__eq__", "bounded:different-classes-unequal",
         "all ordered pairs of different classes among the 19, two child kinds each, empty and filled with the same two data (Label / UntypedLabel with the same keys, Index / Branch with the same children, IrregularlyBin / Stack with the same thresholds ...): == is False and != is True in both operand orders, without raising"),
        ("C09:clones", "histogrammar.defs.Container.__eq__", "bounded:clones-compare-equal",
         "every class x child kind, filled with 0..4 data (incl. NaN): equal to an identically filled twin, to its pickle clone, and two JSON reloads of one document equal each other (== and !=); Stack.build (all thresholds NaN) equal to its copy, pickle clone and JSON reload; the same documents with the root's entries set to NaN: two reloads, the copy and the pickle clone compare equal - the states outside the wf of the proved __eq__ contracts"),
        ("C09:Bag.__eq__", "histogrammar.primitives.bag.Bag.__eq__", "bounded:eq-sound-complete-total",
         "Bag of range N filled with all sequences of length <= 2 over {0.5, 2.0, inf, -inf, nan, -3.0} plus structural variants; == and != against copies, one-datum differences and non-Bag operands"),
    ],
    "C06": [
        (f"C06:accessors-{K}", f"histogrammar.primitives.{_NP_MOD[K]}.{K}.children", "bounded:read-accessors-leave-the-aggregator-unchanged",
         "every public property and every public method with at most two positional arguments (mutators by design - fill*, specialize, plotting, file output - excluded), on instances filled with 4 data (incl. NaN) for every child kind, called with probe arguments from {0.5, 1.5, 'a', 'zz', 0, 1, None, True} and (probe, Count()) pairs: the aggregator's JSON and the JSON of aggregators passed as arguments are unchanged (calls that raise included)")
        for K in _NP_CLASSES
    ]
    + [
        ("C06:Bag.json", "histogrammar.primitives.bag.Bag.toJsonFragment", "bounded:frame",
         "toJson on Bags of range N / S / N2 leaves the Bag unchanged"),
        ("C06:Bag.__eq__", "histogrammar.primitives.bag.Bag.__eq__", "bounded:frame",
         "== / != on Bags filled with up to 2 data leave both operands' JSON unchanged"),
    ],
    "C13": [
        (f"C13:{K}", f"histogrammar.primitives.{_NP_MOD[K]}.{K}.bin_edges", "bounded:accessors-agree-with-fill-in-floating-point",
         "double-precision stand-in for the rounding level that A-REAL abstracts: " + C13_BOUND)
        for K in ("Bin", "SparselyBin", "CentrallyBin", "IrregularlyBin")
    ]
    + [
        ("C13:Categorize", "histogrammar.primitives.categorize.Categorize.bin_labels", "bounded:labels-entries-mpv-agree-with-bins",
         "Categorize filled with 0..6 string categories: bin_labels / bin_entries / n_bins / bin_entries(labels=...) / mpv against the bins"),
        ("C13:mpv", "histogrammar.primitives.bin.Bin.mpv", "bounded:mpv-is-centre-of-fullest-bin",
         "one filled instance of Bin, SparselyBin, CentrallyBin, IrregularlyBin: mpv equals the centre of the first bin holding the maximum"),
        ("C13:grid", "histogrammar.plot.hist_numpy.get_2dgrid", "bounded:grid-holds-in-range-weights",
         "Bin x Bin, SparselyBin x SparselyBin, Bin x SparselyBin, IrregularlyBin x IrregularlyBin filled with 12 weighted points (in range, under/overflow, NaN in x or in y): grid shape, total = in-range weight, rows / columns = projections; project_on_x / project_on_y of the two-dimensional histogram methods hold the in-range weight and equal the sums of xy_ranges_grid bin by bin"),
    ],
    "C17": [
        ("C17:string-expr", "histogrammar.util.UserFcn.__call__", "bounded:string-expression-equals-function",
         "string expressions from the grammar {+,-,*,/,<,>=,and,or,not,sqrt,abs} over fields x,y on dict / attribute / bare-scalar records, values {0,1,-1.5,2.5,3}; compile/eval are external"),
        ("C17:wrappers", "histogrammar.util.CachedFcn.__call__", "bounded:call-sequences",
         "call sequences with repeated / changing scalar, string and ndarray arguments and keyword arguments through cached/named/serializable wrappers"),
    ],
}


def tasks_for(prop, tier):
    return [("native", name) for name, *_ in NATIVE.get(prop, [])]


def run_native(name, timeout=1500):
    env = dict(os.environ)
    env["HGV_REPO"] = REPO
    p = subprocess.run(["/venv/bin/python", "-m", "hgv_native.run", name], capture_output=True, text=True, cwd=VERIF, env=env, timeout=timeout)
    lines = [l for l in p.stdout.strip().splitlines() if l.startswith("{")]
    if not lines:
        return {"check": name, "ok": None, "error": (p.stderr or p.stdout)[-1500:]}
    return json.loads(lines[-1])


def run_task(P, task, prop, tier, out):
    name = task[1]
    entry = [e for e in NATIVE[prop] if e[0] == name][0]
    _, fn, clause, bound = entry
    res = run_native(name)
    if res.get("ok") is None:
        out["crash"] = f"native harness failed for {name}: {res.get('error')}"
        return
    out["records"].append(
        {
            "obligation": f"{prop}/{fn}/{clause}",
            "function": fn,
            "clause": clause,
            "path": "native",
            "variant": "bounded",
            "verdict": "unsat" if res["ok"] else "sat",
            "backend": "native-bounded (CPython, hgv_native)",
            "seconds": res.get("seconds", 0.0),
            "hyps": 0,
            "instances": 0,
            "reason": res.get("failing_input"),
            "bounded": True,
            "native_check": name,
            "model": {"failing_input": res.get("failing_input")},
        }
    )
    out.setdefault("bounded", []).append({"function": fn, "clause": clause, "bound": bound, "check": name, "passed": bool(res["ok"])})
