"""Evidence files (/verif/evidence/<id>.json) and the committed obligation baseline."""

import json
import os

from . import VERIF

ASSUMPTIONS_COMMON = [
    "A-REAL: Python floats are extended reals (nan, +-inf with IEEE special-value rules); finite arithmetic is exact: no rounding, no overflow, -0.0 == 0.0 (machine arithmetic treated as mathematical)",
    "A-INT: Python ints are mathematical integers",
    "A-USERFN: user quantity functions are deterministic functions of the datum, return any Python value or raise, and never touch aggregator state",
    "weights and scale factors are finite or NaN (+-inf weights are outside the contracts)",
    "T-IND: structural induction over finite aggregator trees (each class is verified against the interface contract assuming only that contract for its children)",
    "wf: operands are ownership trees (no aggregator object at two positions), children of a binning node come from one template, thresholds / centres increasing",
    "dispatch: attribute and operator resolution follows the class table parsed from the source (no monkey patching); Factory.specialize is used through its frame contract",
    "built-in and stdlib functions behave as encoded in hgv/builtins_model.py",
    "termination is not verified",
]


def load_baseline():
    p = os.path.join(VERIF, "baseline_obligations.json")
    if not os.path.exists(p):
        return {}
    with open(p) as f:
        return json.load(f)


def save_baseline(data):
    with open(os.path.join(VERIF, "baseline_obligations.json"), "w") as f:
        json.dump(data, f, indent=1, sort_keys=True)


def lost_coverage(prop, obligations, baseline):
    base = baseline.get(prop, {})
    # `ensures:no-raise` exists only while the executor finds a raising path to refute; a function without any
    # raising path has nothing to lose there
    return [name for name in base if name not in obligations and not name.endswith("/ensures:no-raise")]


def write(prop, tier, seed, results, obligations, discharged, known_hits, violations, undecided, oor, wall, seed_matrix=None):
    from . import cli

    recs = [rec for r in results for rec in r["records"]]
    by_backend = {}
    for rec in recs:
        b = by_backend.setdefault(rec["backend"] or "none", {"vcs": 0, "seconds": 0.0})
        b["vcs"] += 1
        b["seconds"] = round(b["seconds"] + rec["seconds"], 3)
    functions = {}
    for r in results:
        for f in r["functions"]:
            key = f["function"]
            e = functions.setdefault(key, {"function": key, "file": f["file"], "lines": f["lines"], "sha256": f["sha256"], "paths": 0, "vcs": 0, "variants": []})
            e["paths"] += f.get("paths", 0)
            e["vcs"] += f.get("vcs", 0)
            e["variants"].append(f.get("variant"))
    samples = []
    for name, rs in list(sorted(obligations.items()))[:: max(1, len(obligations) // 6)][:6]:
        r0 = rs[0]
        samples.append({"obligation": name, "paths": len(rs), "variant": r0["variant"], "verdict": r0["verdict"], "hypotheses": r0["hyps"], "forall_instances": r0["instances"], "seconds": r0["seconds"], "backend": r0["backend"]})
    known_names = [n for n, _ in known_hits]
    n_ob = len(obligations) - len([n for n in known_names if n in obligations])
    extra_assumptions = []
    trusted = []
    bounded = []
    notes = []
    for r in results:
        extra_assumptions += r.get("assumptions", [])
        trusted += r.get("trusted", [])
        bounded += r.get("bounded", [])
        notes += r.get("notes", [])
    level = LEVELS.get(prop, "proof")
    ev = {
        "property_id": prop,
        "tier": tier,
        "seed": seed,
        "level": level,
        "wall_s": round(wall, 2),
        "violations": len(violations),
        "assumptions": ASSUMPTIONS_COMMON + sorted(set(extra_assumptions)),
        "coverage": {
            "obligations": n_ob,
            "discharged": discharged,
            "checker_cmd": f"python3-vt -m hgv check {prop} --tier {tier}",
            "trusted_base": sorted(set(TRUSTED_COMMON + trusted)),
            "vcs": len(recs),
            "functions_under_contract": sorted(functions.values(), key=lambda x: x["function"]),
            "by_backend": by_backend,
            "solver_seconds": round(sum(r["seconds"] for r in recs), 2),
            "known_finding_obligations": known_names,
            "undecided_obligations": [n for n, _ in undecided],
            "refuted_obligations": [n for n, _ in violations],
            "out_of_reach": oor,
            "bounded_functions": bounded,
            "samples": samples,
            "notes": sorted(set(notes)),
            "explanation": EXPLANATIONS.get(prop, ""),
        },
    }
    cross = {}
    for rec in recs:
        if "cross" in rec:
            c = cross.setdefault(rec["cross"], {"vcs": 0, "seconds": 0.0})
            c["vcs"] += 1
            c["seconds"] = round(c["seconds"] + rec.get("cross_seconds", 0.0), 2)
    if cross:
        ev["coverage"]["cross_solver"] = {"solver": "cvc5 1.0.3 on the SMT-LIB text of every VC that z3 discharged", "answers": cross}
    if seed_matrix is not None:
        ev["coverage"]["seeded_changes"] = seed_matrix
    os.makedirs(os.path.join(VERIF, "evidence"), exist_ok=True)
    with open(os.path.join(VERIF, "evidence", f"{prop}.json"), "w") as f:
        json.dump(ev, f, indent=1)


TRUSTED_COMMON = [
    "z3 5.1.0 (python API) / cvc5 1.0.3 CLI",
    "hgv symbolic executor (hgv/execu.py, loops.py, builtins_model.py): encoding of Python semantics",
    "Factory.specialize frame contract (hgv/models.py)",
    "ground instantiation of quantified facts is incomplete: it can lose proofs, never create them",
]

LEVELS = {"C11": "other"}
EXPLANATIONS = {
    "C11": "proof obligations on the pickle hooks (counted in obligations/discharged) + assumed pickle/marshal protocol + bounded native round-trip stand-in (listed under bounded_functions, not counted)",
}
