"""The Container interface contract (DESIGN §2.4) as obligations on the real methods.

For a class K and a method, `obligations(K, method)` prepares symbolic pre-states (wf instances),
symbolically executes the real method body and emits one named VC per clause and path.
Clause names are `<prop>/<qualname>/<clause>`; paths are sub-items.
"""

import z3

from . import core, models, schema, smt
from .core import NONE, CDict, CList, Inst, LDict, LList, State, Unsupported, VBool, VChild, VFl, VInt, VNone, VObj, VOpq, VStr
from .execu import Exec
from .fl import Fl
from . import sv as SV
from .sv import CChild, CFam, CFl, CTuple, comp_of, content_eq

import sys, os

sys.path.insert(0, os.path.dirname(os.path.dirname(os.path.abspath(__file__))))
from spec import specs  # noqa: E402
from spec import fillspec  # noqa: E402


class Clause:
    def __init__(self, props, fn_qual, clause, path, vc, variant, kind="prove"):
        self.props = props
        self.fn = fn_qual
        self.clause = clause
        self.path = path
        self.vc = vc
        self.variant = variant
        self.kind = kind  # prove | cover

    def name(self, prop):
        return f"{prop}/{self.fn}/{self.clause}"


BENIGN_FIELDS = {"_checkedForCrossReferences", "fcn", "fill", "plot", "%ialias"}


class Ctx:
    """One (class, method, variant) execution."""

    def __init__(self, P, K, method, variant, hooks=None):
        self.P = P
        self.K = K
        self.method = method
        self.variant = variant
        self.hooks = hooks or {}
        self.X = Exec(P, models.std_hooks(**self.hooks))
        self.fi = P.lookup_method(K, method)
        if self.fi is None:
            raise core.EngineError(f"method {K}.{method} not found")
        self.clauses = []
        self.inputs = {}

    def emit(self, props, clause, path, st, goal, kind="prove", extra_index=()):
        if str(self.variant).startswith("reloaded"):
            # usability of reloaded containers (C04): the operation works and gives the specified content;
            # the rejection clauses (C10) are not repeated here
            if clause.startswith("raises:") or "compatible" in clause or "rejects" in clause:
                return
            keep = ["C04"] + (["C16"] if "C16" in props else []) + (["C06"] if "C06" in props and self.method == "copy" else [])
            if clause == "ensures:content-type":
                # the content type of a merge / scaling result decides what later merges accept (C10) and whether + stays
                # associative on reloaded partial results (C01), whether a scaled reload can be merged (C08)
                keep += [p for p in props if p in ("C01", "C08", "C10")]
            props = keep
        s = st.fork()
        if callable(goal):
            goal = goal(s)
        vc = smt.build_vc(f"{self.fi.qualname}/{clause}#{path}", s, goal, extra_index=extra_index)
        vc.inputs = dict(self.inputs)
        self.clauses.append(Clause(props, self.fi.qualname, clause, path, vc, self.variant, kind))


def view_of(st, v, K):
    return SV.inst_view(st, v, specs.all_fields(K))


# --------------------------------------------------------------------------- generic clause goals


def eq_views(st, K, got, want, fields=None, name="view"):
    gs = []
    for f in fields or specs.all_fields(K):
        if f not in want:
            continue
        if f not in got:
            gs.append(z3.BoolVal(False))
            continue
        gs.append(content_eq(st, got[f], want[f], name + "." + f))
    return z3.And(gs) if gs else z3.BoolVal(True)


def fresh_goal(st, K, resv, exempt=("value",)):
    """deepfresh(res): the object, its collections and all its children are allocated by this call."""
    if not isinstance(resv, VObj) or resv.oid not in st.new_oids:
        return z3.BoolVal(False)
    o = st.obj(resv)
    gs = []
    for f, kind in specs.CHILDREN.get(K, {}).items():
        if f not in o.fields:
            gs.append(z3.BoolVal(False))
            continue
        fv = o.fields[f]
        if kind == "one":
            gs.append(core.Ref.is_New(fv.ref) if isinstance(fv, VChild) else z3.BoolVal(False))
            continue
        if not isinstance(fv, VObj):
            gs.append(z3.BoolVal(False))
            continue
        gs.append(z3.BoolVal(fv.oid in st.new_oids))
        c = comp_of(st, fv)
        k = z3.Const(f"fr!{core.uid()}", c.ksort)

        def isnew(comp):
            if isinstance(comp, CTuple):
                comp = comp.items[1]
            if isinstance(comp, SV.CIte):
                return z3.If(comp.c, isnew(comp.a), isnew(comp.b))
            if isinstance(comp, CChild) and comp.ref is not None:
                return core.Ref.is_New(comp.ref)
            return z3.BoolVal(False)

        gs.append(st.forall(k, c.dom(k), isnew(c.val(k)), equiv=True, name="fresh." + f))
    wm = specs.WEIGHTMAP.get(K)
    if wm:
        fv = o.fields.get(wm)
        gs.append(z3.BoolVal(isinstance(fv, VObj) and fv.oid in st.new_oids))
    return z3.And(gs) if gs else z3.BoolVal(True)


def distinct_children_goal(st, K, resv):
    """no internal sharing: the child slots of the result hold pairwise distinct objects (numerator is not the
    denominator, no two bins are one object, a flow is not a bin)."""
    if not isinstance(resv, VObj) or not isinstance(st.obj(resv), Inst):
        return z3.BoolVal(False)
    o = st.obj(resv)
    ones, fams = [], []
    for f, kind in specs.CHILDREN.get(K, {}).items():
        fv = o.fields.get(f)
        if kind == "one":
            if not isinstance(fv, VChild):
                return z3.BoolVal(False)
            ones.append(fv.ref)
        else:
            if not isinstance(fv, VObj):
                return z3.BoolVal(False)
            fams.append((f, kind, comp_of(st, fv)))
    gs = [a != b for i, a in enumerate(ones) for b in ones[i + 1 :]]

    def ref_of(comp, kind):
        if isinstance(comp, SV.CIte):
            return z3.If(comp.c, ref_of(comp.a, kind), ref_of(comp.b, kind))
        if kind == "pairs" and isinstance(comp, CTuple) and len(comp.items) == 2:
            comp = comp.items[1]
        if isinstance(comp, CChild) and comp.ref is not None:
            return comp.ref
        return core.Ref.Ext(z3.IntVal(-7))

    for f, kind, c in fams:
        k1 = st.fresh("sk.k1." + f, c.ksort)
        k2 = st.fresh("sk.k2." + f, c.ksort)
        st.add_index(k1)
        st.add_index(k2)
        r1, r2 = ref_of(c.val(k1), kind), ref_of(c.val(k2), kind)
        gs.append(z3.Implies(z3.And(c.dom(k1), c.dom(k2), r1 == r2), k1 == k2))
        for a in ones:
            gs.append(z3.Implies(c.dom(k1), r1 != a))
    return z3.And(gs) if gs else z3.BoolVal(True)


def frame_goal(st, pre, skip_oids=(), only_oids=None, allow_fields=BENIGN_FIELDS, views=True, view_guard=None):
    """Every object that existed at entry is unchanged (benign ghost fields exempt); child views of
    all entry-heap references are unchanged."""
    gs = []
    for oid, o0 in pre.heap.items():
        if oid == "__globals__" or oid in skip_oids:
            continue
        if only_oids is not None and oid not in only_oids:
            continue
        o1 = st.heap.get(oid)
        if o1 is o0:
            continue
        if isinstance(o0, Inst):
            if not isinstance(o1, Inst) or o1.cls != o0.cls:
                gs.append(z3.BoolVal(False))
                continue
            names = set(o0.fields) | set(o1.fields)
            for n in names:
                if n in allow_fields:
                    continue
                if n not in o0.fields or n not in o1.fields:
                    gs.append(z3.BoolVal(False))
                    continue
                a, b = o0.fields[n], o1.fields[n]
                if a is b:
                    continue
                gs.append(same_value(st, pre, a, b, "frame." + n))
        else:
            gs.append(content_eq(st, comp_of(pre, VObj(oid)), comp_of(st, VObj(oid)), "frame.obj"))
            gs.append(same_slots(st, pre, VObj(oid)))
    gs += globals_unchanged(st, pre)
    if views:
        r0 = z3.Const(f"anyref!{core.uid()}", core.Ref)
        st.add_index(r0)
        g = z3.Not(core.Ref.is_New(r0))
        if view_guard is not None:
            g = z3.And(g, view_guard(r0))
        gs.append(z3.Implies(g, st.views.lookup(r0) == pre.views.lookup(r0)))
    return z3.And(gs) if gs else z3.BoolVal(True)


def globals_unchanged(st, pre):
    """Module-level function objects of histogrammar.defs (identity, unweighted, square: the default
    quantities / transforms every aggregator shares) that were first touched during the call still have
    their initial content; the ones touched before entry are entry-heap objects and are compared there."""
    gs = []
    reg = st.heap.get("__globals__", {})
    for name, oid in reg.items():
        if not isinstance(name, str) or oid in pre.heap:
            continue
        o = st.heap.get(oid)
        ok = isinstance(o, Inst) and o.cls == "UserFcn" and set(o.fields) == {"expr", "name"}
        if not ok:
            gs.append(z3.BoolVal(False))
            continue
        e, n = o.fields["expr"], o.fields["name"]
        if not (isinstance(e, VOpq) and e.tag == "function" and z3.eq(e.t, z3.Const("fn:" + name, core.Opq))):
            gs.append(z3.BoolVal(False))
        gs.append(content_eq(st, comp_of(st, n), SV.CStr(core.strlit(name)), "frame.global." + name))
    return gs


def same_slots(st, pre, objv):
    """the same child *objects* sit in the same slots (identity, not only content)"""
    c0, c1 = comp_of(pre, objv), comp_of(st, objv)
    if not isinstance(c0, CFam):
        return z3.BoolVal(True)
    k = z3.Const(f"slot!{core.uid()}", c0.ksort)

    def refs(c):
        if isinstance(c, CTuple):
            return refs(c.items[1]) if len(c.items) == 2 else []
        if isinstance(c, CChild) and c.ref is not None:
            return [c.ref]
        return []

    try:
        ra, rb = refs(c0.val(k)), refs(c1.val(k))
    except Unsupported:
        return z3.BoolVal(True)
    if len(ra) != len(rb):
        return z3.BoolVal(False)
    if not ra:
        return z3.BoolVal(True)
    return st.forall(k, c0.dom(k), z3.And([x == y for x, y in zip(ra, rb)]), equiv=True, name="frame.slots")


def same_value(st, pre, a, b, name):
    """identity-or-content equality of a field value between entry and exit"""
    if isinstance(a, VObj) and isinstance(b, VObj):
        if a.oid != b.oid:
            return z3.BoolVal(False)
        return z3.BoolVal(True)  # the object itself is compared by the heap walk
    if isinstance(a, VChild) and isinstance(b, VChild):
        return a.ref == b.ref
    if type(a) is not type(b) and not (isinstance(a, core.VIte) or isinstance(b, core.VIte)):
        return z3.BoolVal(False)
    return content_eq(st, comp_of(pre, a), comp_of(st, b), name)


def wf_goal(st, K, resv):
    """representation invariant of the result (what fill, hash, +, toJson rely on)."""
    if not isinstance(resv, VObj):
        return z3.BoolVal(False)
    o = st.obj(resv)
    if not isinstance(o, Inst) or o.cls != K:
        return z3.BoolVal(False)
    gs = []
    ent = o.fields.get("entries")
    if not isinstance(ent, VFl):
        return z3.BoolVal(False)
    gs.append(z3.And(ent.fl.isfin(), ent.fl.r >= 0))
    empty = ent.fl.r == 0
    for f in specs.LEAF_FIELDS.get(K, []):
        fv = o.fields.get(f)
        if not isinstance(fv, (VFl, VInt, VBool)):
            return z3.BoolVal(False)
        ffl = comp_of(st, fv).fl
        if f == "sum":
            gs.append(z3.Implies(empty, ffl.iszero()))
        else:
            gs.append(z3.Implies(empty, ffl.nan))
    for f, kind in specs.CHILDREN.get(K, {}).items():
        fv = o.fields.get(f)
        if kind == "one":
            if not isinstance(fv, VChild):
                return z3.BoolVal(False)
            gs.append(core.wfv(st.view(fv.ref)))
            continue
        if not isinstance(fv, VObj):
            return z3.BoolVal(False)
        c = comp_of(st, fv)
        want = specs.PYTYPE.get((K, f))
        if want and c.pytype != want:
            gs.append(z3.BoolVal(False))
        k = z3.Const(f"wf!{core.uid()}", c.ksort)

        def okc(comp, kind=kind):
            if isinstance(comp, SV.CIte):
                return z3.If(comp.c, okc(comp.a), okc(comp.b))
            if kind == "pairs":
                if not (isinstance(comp, CTuple) and len(comp.items) == 2 and isinstance(comp.items[0], CFl)):
                    return z3.BoolVal(False)
                comp = comp.items[1]
            if isinstance(comp, CChild):
                return core.wfv(comp.view)
            return z3.BoolVal(False)

        gs.append(st.forall(k, c.dom(k), okc(c.val(k)), equiv=True, name="wf." + f))
    q = o.fields.get("quantity")
    if K not in ("Count", "Label", "UntypedLabel", "Index", "Branch"):
        if not (isinstance(q, VObj) and isinstance(st.obj(q), Inst) and st.obj(q).cls in ("UserFcn", "CachedFcn")):
            gs.append(z3.BoolVal(False))
    return z3.And(gs)


TEMPLATE_CLASSES = ("SparselyBin", "CentrallyBin", "Categorize")


def template_goal(st, K, resv):
    """C16: the unfilled template (`value`) that Container._checkForCrossReferences skips is not installed at
    any fillable slot of the same node (otherwise that slot, and everything below it, is never walked)."""
    if not isinstance(resv, VObj) or not isinstance(st.obj(resv), Inst):
        return z3.BoolVal(False)
    o = st.obj(resv)
    tv = o.fields.get("value")
    if tv is None or isinstance(tv, VNone):
        return z3.BoolVal(True)
    if not isinstance(tv, VChild):
        return z3.BoolVal(False)
    gs = []
    for f, kind in specs.CHILDREN.get(K, {}).items():
        fv = o.fields.get(f)
        if kind == "one":
            gs.append(fv.ref != tv.ref if isinstance(fv, VChild) else z3.BoolVal(False))
            continue
        if not isinstance(fv, VObj):
            return z3.BoolVal(False)
        c = comp_of(st, fv)
        k = z3.Const(f"tpl!{core.uid()}", c.ksort)

        def distinct(comp, kind=kind):
            if isinstance(comp, SV.CIte):
                return z3.If(comp.c, distinct(comp.a), distinct(comp.b))
            if kind == "pairs" and isinstance(comp, CTuple) and len(comp.items) == 2:
                comp = comp.items[1]
            if isinstance(comp, CChild) and comp.ref is not None:
                return comp.ref != tv.ref
            return z3.BoolVal(False)

        gs.append(st.forall(k, c.dom(k), distinct(c.val(k)), equiv=True, name="tpl." + f))
    return z3.And(gs) if gs else z3.BoolVal(True)


def alias_goal(st, resv):
    """Branch: the accessors i0..i9 were bound by the constructor to the elements of the tuple that is still the
    node's `values` (a result whose values were replaced afterwards answers .iN with stale aggregators)"""
    if not isinstance(resv, VObj) or not isinstance(st.obj(resv), Inst):
        return z3.BoolVal(False)
    o = st.obj(resv)
    a, v = o.fields.get("%ialias"), o.fields.get("values")
    same = a is v or (isinstance(a, VObj) and isinstance(v, VObj) and a.oid == v.oid)
    return z3.BoolVal(bool(same))


def bound_goal(st, pre, selfv):
    """an in-place operation keeps the receiver's own `fill` / `plot` method objects (they are bound to the
    receiver: installing another aggregator's makes later fills go to that other object)"""
    o0, o1 = pre.obj(selfv), st.obj(selfv)
    return z3.BoolVal(all(o1.fields.get(k) is o0.fields.get(k) for k in ("fill", "plot")))


def quantity_same(st, pre, a_v, b_v):
    """the two instances carry the same quantity object content"""
    oa, ob = pre.obj(a_v), st.obj(b_v)
    qa, qb = oa.fields.get("quantity", oa.fields.get("transform")), ob.fields.get("quantity", ob.fields.get("transform"))
    if qa is None and qb is None:
        return z3.BoolVal(True)
    if qa is None or qb is None:
        return z3.BoolVal(False)
    return content_eq(st, comp_of(pre, qa), comp_of(st, qb), "quantity")


# --------------------------------------------------------------------------- pre-states


def base_state():
    st = State()
    return st


def other_variants(K, method, mode="live"):
    vs = ["same-class", "alias", "foreign", "none"]
    if mode != "live":
        # reloaded pre-states serve the usability clauses of C04 only (Ctx.emit drops the rejection clauses there):
        # operands of another type have nothing to contribute
        vs = ["same-class", "alias"]
    return vs


def make_other(st, K, variant, selfv, bk=False, mode="live"):
    if variant == "same-class":
        return schema.make_instance(st, K, 2, bk=bk, mode=mode)
    if variant == "alias":
        return selfv
    if variant == "foreign":
        ref = core.Ref.Ext(z3.IntVal(7))
        st.add(core.cname(core.SH(core.V0(ref))) != core.strlit(K), core.wfv(core.V0(ref)))
        return VChild(ref)
    if variant == "none":
        return NONE
    raise ValueError(variant)


# --------------------------------------------------------------------------- per-method obligations

MOMENT = ("Average", "Deviate")


def run_method(cx, st, args):
    return cx.X.run(st, cx.fi, args)


def ob_zero(P, K, hooks=None, mode="live"):
    cx = Ctx(P, K, "zero", mode if mode == "live" else "reloaded", hooks)
    st = base_state()
    selfv = schema.make_instance(st, K, 1, mode=mode, bk=True)
    pre = st.fork()
    a = view_of(pre, selfv, K)
    for i, r in enumerate(run_method(cx, st, [selfv])):
        p = f"p{i}" + (f":{r.exc.cls}@{r.exc.origin}" if r.exc is not None else "")
        if r.exc is not None:
            cx.emit(["C01", "C04"], "ensures:no-raise", p, r.st, z3.BoolVal(False))
            continue
        s = r.st
        cx.emit(["C06"], "ensures:fresh", p, s, lambda s2: fresh_goal(s2, K, r.v))
        cx.emit(["C06"], "ensures:no-internal-sharing", p, s, lambda s2: distinct_children_goal(s2, K, r.v))
        cx.emit(["C06"], "ensures:frame", p, s, lambda s2: frame_goal(s2, pre))
        cx.emit(["C01", "C08", "C04"], "ensures:wf", p, s, lambda s2: wf_goal(s2, K, r.v))
        if K == "Branch":
            cx.emit(["C01", "C08", "C04"], "ensures:iN-accessors-alias-values", p, s, lambda s2: alias_goal(s2, r.v))
        if K in TEMPLATE_CLASSES:
            cx.emit(["C16"], "ensures:template-not-a-fill-slot", p, s, lambda s2: template_goal(s2, K, r.v))
        if isinstance(r.v, VObj):
            cx.emit(["C01", "C05"], "ensures:view", p, s, lambda s2: eq_views(s2, K, view_of(s2, r.v, K), specs.zero(K, s2, a)))
            cx.emit(["C04", "C01"], "ensures:quantity", p, s, lambda s2: quantity_same(s2, pre, selfv, r.v))
            if K in ("SparselyBin", "Categorize"):
                cx.emit(["C04", "C01", "C10"], "ensures:content-type", p, s, lambda s2: content_shape(s2, r.v) == content_shape(pre, selfv))
            cx.emit(["C05"], "ensures:bk", p, s, lambda s2: bk_goal(s2, K, r.v, pre, [selfv]))
    return cx


def ob_copy(P, K, hooks=None, mode="live"):
    """Container.copy(): a new aggregator with the same content that shares nothing with the original, for live and
    for reloaded (ed / fromJson built) containers alike"""
    cx = Ctx(P, K, "copy", mode if mode == "live" else "reloaded", hooks)
    st = base_state()
    selfv = schema.make_instance(st, K, 1, mode=mode, bk=True)
    pre = st.fork()
    a = view_of(pre, selfv, K)
    keep = ["C06", "C04"] if mode == "live" else ["C04"]
    for i, r in enumerate(run_method(cx, st, [selfv])):
        p = f"p{i}" + (f":{r.exc.cls}@{r.exc.origin}" if r.exc is not None else "")
        if r.exc is not None:
            cx.emit(keep, "ensures:no-raise", p, r.st, z3.BoolVal(False))
            continue
        s = r.st
        cx.emit(["C06"], "ensures:fresh", p, s, lambda s2: fresh_goal(s2, K, r.v))
        cx.emit(["C06"], "ensures:no-internal-sharing", p, s, lambda s2: distinct_children_goal(s2, K, r.v))
        cx.emit(["C06"], "ensures:frame", p, s, lambda s2: frame_goal(s2, pre))
        if isinstance(r.v, VObj):
            # the content of self + zero(self); that this is the content of self is the identity law L-id (laws.py)
            if K in MOMENT:
                cx.emit(keep, "ensures:view-of-self-plus-zero", p, s, lambda s2: plus_goal(s2, K, a, specs.zero(K, s2, a), view_of(s2, r.v, K)))
            else:
                cx.emit(keep, "ensures:view-of-self-plus-zero", p, s, lambda s2: eq_views(s2, K, view_of(s2, r.v, K), specs.plus(K, s2, a, specs.zero(K, s2, a))))
        cx.emit(keep, "ensures:wf", p, s, lambda s2: wf_goal(s2, K, r.v))
    return cx


def tolerance_hooks(hooks):
    """merging must not depend on the comparison tolerances of histogrammar.util (they exist for approximate
    equality only): the merge obligations run with both tolerances symbolic and non-negative"""
    rt, at = z3.Real("util.relativeTolerance"), z3.Real("util.absoluteTolerance")
    h = dict(hooks or {})
    h["global_overrides"] = {("histogrammar.util", "relativeTolerance"): VFl(Fl.fin(rt)), ("histogrammar.util", "absoluteTolerance"): VFl(Fl.fin(at))}
    return h, [rt >= 0, at >= 0]


def ob_add(P, K, hooks=None, mode="live"):
    out = []
    hooks, tolfacts = tolerance_hooks(hooks)
    for variant in other_variants(K, "__add__", mode):
        cx = Ctx(P, K, "__add__", variant if mode == "live" else f"{mode}:{variant}", hooks)
        st = base_state()
        st.add(*tolfacts)
        selfv = schema.make_instance(st, K, 1, mode=mode, bk=True)
        other = make_other(st, K, variant, selfv, bk=True, mode=mode)
        pre = st.fork()
        a = view_of(pre, selfv, K)
        b = view_of(pre, other, K) if isinstance(other, VObj) else None
        for i, r in enumerate(run_method(cx, st, [selfv, other])):
            p = f"p{i}" + (f":{r.exc.cls}@{r.exc.origin}" if r.exc is not None else "")
            s = r.st
            if r.exc is not None:
                cx.emit(["C10"], "raises:frame", p, s, lambda s2: frame_goal(s2, pre))
                if b is not None:
                    cx.emit(["C10"], "raises:only-if-incompatible", p, s, lambda s2: z3.Not(specs_compat(s2, K, pre, selfv, other)))
                continue
            if b is None:
                cx.emit(["C10"], "ensures:rejects-non-" + K, p, s, z3.BoolVal(False))
                continue
            for part in compat_part_names(K):
                cx.emit(["C10"], "ensures:compatible-" + part, p, s, lambda s2, part=part: specs_compat(s2, K, pre, selfv, other, part))
            cx.emit(["C06"], "ensures:fresh", p, s, lambda s2: fresh_goal(s2, K, r.v))
            cx.emit(["C06"], "ensures:no-internal-sharing", p, s, lambda s2: distinct_children_goal(s2, K, r.v))
            cx.emit(["C06"], "ensures:frame", p, s, lambda s2: frame_goal(s2, pre))
            cx.emit(["C01", "C08", "C04"], "ensures:wf", p, s, lambda s2: wf_goal(s2, K, r.v))
            if K == "Branch":
                cx.emit(["C01", "C08", "C04"], "ensures:iN-accessors-alias-values", p, s, lambda s2: alias_goal(s2, r.v))
            if K in TEMPLATE_CLASSES:
                cx.emit(["C16"], "ensures:template-not-a-fill-slot", p, s, lambda s2: template_goal(s2, K, r.v))
            if isinstance(r.v, VObj):
                cx.emit(["C01", "C05"], "ensures:view", p, s, lambda s2: plus_goal(s2, K, a, b, view_of(s2, r.v, K)))
                cx.emit(["C04", "C01"], "ensures:quantity", p, s, lambda s2: quantity_same(s2, pre, selfv, r.v))
                if K in ("SparselyBin", "Categorize"):
                    cx.emit(["C04", "C01", "C10"], "ensures:content-type", p, s, lambda s2: content_shape(s2, r.v) == content_shape(pre, selfv))
                cx.emit(["C05"], "ensures:bk", p, s, lambda s2: bk_goal(s2, K, r.v, pre, [selfv, other]))
        out.append(cx)
    return out


def specs_compat(st, K, pre, selfv, other, part=None):
    a, b = view_of(pre, selfv, K), view_of(pre, other, K)
    parts = specs.compat_parts(K, st, a, b)
    if K in ("SparselyBin", "Categorize"):
        # the content type of a (possibly still empty) sparse container is structure
        parts["content-type"] = [content_shape(pre, selfv) == content_shape(pre, other)]
    if part is not None:
        return z3.And(parts.get(part) or [z3.BoolVal(True)])
    return z3.And([x for v in parts.values() for x in v] or [z3.BoolVal(True)])


def compat_part_names(K):
    return ["params", "children"] + (["content-type"] if K in ("SparselyBin", "Categorize") else [])


def content_shape(st, v):
    """Shape of the contents of a sparse container: the template's shape when live; for a reloaded
    container the common shape of its bins (wf: uniform) -- an uninterpreted constant when empty."""
    o = st.obj(v)
    val = o.fields.get("value")
    if isinstance(val, VChild):
        return core.SH(st.view(val.ref))
    ct = o.fields.get("contentType")
    f = z3.Function("shape_of_ctype", core.StrS, core.Shape)
    return f(ct.t) if isinstance(ct, VStr) else z3.Const("shape.unknown", core.Shape)


def plus_goal(st, K, a, b, r):
    if K in MOMENT:
        return z3.And(
            content_eq(st, r["entries"], specs.entries_plus(a, b), "view.entries"),
            specs.plus_moments(K, a, b, r),
        )
    return eq_views(st, K, r, specs.plus(K, st, a, b))


def bk_goal(st, K, resv, pre=None, pre_objs=()):
    """bk(pre operands) => bk(result)"""
    from spec import bkspec

    hyps = [bkspec.bk(st, K, view_of(pre, v, K)) for v in pre_objs if isinstance(v, VObj)]
    return z3.Implies(z3.And(hyps) if hyps else z3.BoolVal(True), bkspec.bk(st, K, view_of(st, resv, K)))


def ob_iadd(P, K, hooks=None, mode="live"):
    out = []
    hooks, tolfacts = tolerance_hooks(hooks)
    for variant in other_variants(K, "__iadd__", mode):
        cx = Ctx(P, K, "__iadd__", variant if mode == "live" else f"{mode}:{variant}", hooks)
        st = base_state()
        st.add(*tolfacts)
        selfv = schema.make_instance(st, K, 1, mode=mode, bk=True)
        other = make_other(st, K, variant, selfv, bk=True, mode=mode)
        pre = st.fork()
        a = view_of(pre, selfv, K)
        b = view_of(pre, other, K) if isinstance(other, VObj) else None
        for i, r in enumerate(run_method(cx, st, [selfv, other])):
            p = f"p{i}" + (f":{r.exc.cls}@{r.exc.origin}" if r.exc is not None else "")
            s = r.st
            if r.exc is not None:
                cx.emit(["C10"], "raises:frame", p, s, lambda s2: frame_goal(s2, pre))
                if b is not None:
                    cx.emit(["C10"], "raises:only-if-incompatible", p, s, lambda s2: z3.Not(specs_compat(s2, K, pre, selfv, other)))
                continue
            if b is None:
                cx.emit(["C10"], "ensures:rejects-non-" + K, p, s, z3.BoolVal(False))
                continue
            for part in compat_part_names(K):
                cx.emit(["C10"], "ensures:compatible-" + part, p, s, lambda s2, part=part: specs_compat(s2, K, pre, selfv, other, part))
            cx.emit(["C07"], "ensures:same-object", p, s, z3.BoolVal(isinstance(r.v, VObj) and r.v.oid == selfv.oid))
            cx.emit(["C07", "C05"], "ensures:view", p, s, lambda s2: plus_goal(s2, K, a, b, view_of(s2, selfv, K)))
            cx.emit(["C07"], "ensures:wf", p, s, lambda s2: wf_goal(s2, K, selfv))
            if K == "Branch":
                cx.emit(["C07"], "ensures:iN-accessors-alias-values", p, s, lambda s2: alias_goal(s2, selfv))
            cx.emit(["C07"], "ensures:fill-and-plot-still-bound-to-self", p, s, lambda s2: bound_goal(s2, pre, selfv))
            if K in TEMPLATE_CLASSES:
                cx.emit(["C16"], "ensures:template-not-a-fill-slot", p, s, lambda s2: template_goal(s2, K, selfv))
            if variant != "alias":
                oids = footprint_oids(pre, other)
                cx.emit(
                    ["C07"],
                    "ensures:other-unchanged",
                    p,
                    s,
                    lambda s2: frame_goal(s2, pre, only_oids=oids, view_guard=lambda r0: owner_is(r0, 2)),
                )
                cx.emit(["C07"], "ensures:no-adoption", p, s, lambda s2: no_adoption_goal(s2, K, selfv, other, pre))
            cx.emit(["C05"], "ensures:bk", p, s, lambda s2: bk_goal(s2, K, selfv, pre, [selfv, other]))
        out.append(cx)
    return out


def owner_is(r0, owner):
    return z3.And(core.Ref.is_Old(r0), core.Ref.owner(r0) == owner)


def footprint_oids(st, v):
    """oids of the instance and the collection objects it owns"""
    out = {v.oid}
    o = st.obj(v)
    for fv in o.fields.values():
        if isinstance(fv, VObj) and not (isinstance(st.heap.get(fv.oid), Inst)):
            out.add(fv.oid)
    return out


def no_adoption_goal(st, K, selfv, other, pre):
    """after a += b, no mutable state of b is reachable from a: a's collection objects are not b's,
    and no child object of b sits in a slot of a."""
    o = st.obj(selfv)
    oo = pre.obj(other)
    other_oids = {fv.oid for fv in oo.fields.values() if isinstance(fv, VObj) and not isinstance(pre.heap.get(fv.oid), Inst)}
    gs = []
    for f, fv in o.fields.items():
        if isinstance(fv, VObj) and fv.oid in other_oids:
            gs.append(z3.BoolVal(False))
    for f, kind in specs.CHILDREN.get(K, {}).items():
        fv = o.fields.get(f)

        def notothers(comp):
            if isinstance(comp, CTuple):
                comp = comp.items[1]
            if isinstance(comp, SV.CIte):
                return z3.If(comp.c, notothers(comp.a), notothers(comp.b))
            if isinstance(comp, CChild) and comp.ref is not None:
                return z3.Not(owner_is(comp.ref, 2))
            return z3.BoolVal(True)

        if kind == "one":
            if isinstance(fv, VChild):
                gs.append(z3.Not(owner_is(fv.ref, 2)))
            continue
        if isinstance(fv, VObj):
            c = comp_of(st, fv)
            k = z3.Const(f"na!{core.uid()}", c.ksort)
            gs.append(st.forall(k, c.dom(k), notothers(c.val(k)), equiv=True, name="no-adoption." + f))
    for f in specs.LEAF_FIELDS.get(K, []):
        pass
    return z3.And(gs) if gs else z3.BoolVal(True)


def sym_factor(st):
    f = schema.sym_fl(st, "factor")
    st.add(z3.Not(f.isinf()))
    return f


def ob_mul(P, K, method="__mul__", hooks=None, mode="live"):
    cx = Ctx(P, K, method, mode if mode == "live" else "reloaded", hooks)
    st = base_state()
    selfv = schema.make_instance(st, K, 1, mode=mode, bk=True)
    f = sym_factor(st)
    cx.inputs = {"factor.nan": f.nan, "factor.r": f.r}
    pre = st.fork()
    a = view_of(pre, selfv, K)
    for i, r in enumerate(run_method(cx, st, [selfv, VFl(f)])):
        p = f"p{i}" + (f":{r.exc.cls}@{r.exc.origin}" if r.exc is not None else "")
        s = r.st
        if r.exc is not None:
            cx.emit(["C08"], "ensures:no-raise", p, s, z3.BoolVal(False))
            continue
        cx.emit(["C06"], "ensures:fresh", p, s, lambda s2: fresh_goal(s2, K, r.v))
        cx.emit(["C06"], "ensures:no-internal-sharing", p, s, lambda s2: distinct_children_goal(s2, K, r.v))
        cx.emit(["C06"], "ensures:frame", p, s, lambda s2: frame_goal(s2, pre))
        cx.emit(["C08"], "ensures:wf", p, s, lambda s2: wf_goal(s2, K, r.v))
        if K == "Branch":
            cx.emit(["C08"], "ensures:iN-accessors-alias-values", p, s, lambda s2: alias_goal(s2, r.v))
        if K in TEMPLATE_CLASSES:
            cx.emit(["C16"], "ensures:template-not-a-fill-slot", p, s, lambda s2: template_goal(s2, K, r.v))
        if isinstance(r.v, VObj):

            def g(s2):
                got = view_of(s2, r.v, K)
                return z3.If(
                    f.ispos(),
                    eq_views(s2, K, got, specs.scale(K, s2, a, f.r), name="view-pos"),
                    eq_views(s2, K, got, specs.zero(K, s2, a), name="view-nonpos"),
                )

            cx.emit(["C08", "C05"], "ensures:view", p, s, g)
            cx.emit(["C08", "C04"], "ensures:quantity", p, s, lambda s2: quantity_same(s2, pre, selfv, r.v))
            if K in ("SparselyBin", "Categorize"):
                cx.emit(["C08", "C04"], "ensures:content-type", p, s, lambda s2: content_shape(s2, r.v) == content_shape(pre, selfv))
            cx.emit(["C05"], "ensures:bk", p, s, lambda s2: bk_goal(s2, K, r.v, pre, [selfv]))
    return cx


def ob_fill(P, K, hooks=None, mode="live", rollback=False):
    h = dict(hooks or {})
    if rollback:
        h["child_rollback"] = True
    cx = Ctx(P, K, "fill", ("rollback" if rollback else "live"), h)
    st = base_state()
    selfv = schema.make_instance(st, K, 1, mode=mode, bk=True)
    w = schema.sym_fl(st, "weight")
    st.add(z3.Not(w.isinf()))
    d = z3.Const("datum", core.Datum)
    cx.inputs = {"weight.nan": w.nan, "weight.r": w.r}
    pre = st.fork()
    a = view_of(pre, selfv, K)
    for i, r in enumerate(run_method(cx, st, [selfv, VOpq(d, "datum"), VFl(w)])):
        p = f"p{i}" + (f":{r.exc.cls}@{r.exc.origin}" if r.exc is not None else "")
        s = r.st
        evs = [e for e in s.events]
        # guard-first (C16): the cross-reference check precedes every write
        first = evs[0] if evs else None
        cx.emit(["C16"], "ensures:guard-first", p, s, z3.BoolVal(first is not None and first[0] == "xref-guard"))
        cx.emit(["C02"], "ensures:gate", p, s, lambda s2: z3.Implies(z3.Not(w.ispos()), frame_goal(s2, pre)))
        if r.exc is not None:
            if rollback:
                child_failed = any(any(isinstance(x, str) and x == "child-fill-raised" for x in e[:2]) for e in s.events if e)
                if K in ("Fraction", "Stack") and child_failed:
                    continue  # a failing child of a fan-out: siblings filled before it are outside the guarantee
                cx.emit(["C12"], "raises:rollback", p, s, lambda s2: frame_goal(s2, pre))
            else:
                # only a failing user function / wrong return type / failing child may make fill raise
                cx.emit(["C05", "C02"], "raises:only-user-failure", p, s, lambda s2: fillspec.may_raise(s2, K, pre, selfv, d, w))
            continue
        if rollback:
            continue
        cx.emit(["C02", "C01", "C05"], "ensures:view", p, s, lambda s2: z3.Implies(w.ispos(), fillspec.fill_post(s2, K, pre, selfv, a, view_of(s2, selfv, K), d, w)))
        cx.emit(["C02"], "ensures:wf", p, s, lambda s2: wf_goal(s2, K, selfv))
        if K == "Branch":
            cx.emit(["C02"], "ensures:iN-accessors-alias-values", p, s, lambda s2: alias_goal(s2, selfv))
        cx.emit(["C02"], "ensures:fill-and-plot-still-bound-to-self", p, s, lambda s2: bound_goal(s2, pre, selfv))
        if K in TEMPLATE_CLASSES:
            cx.emit(["C16"], "ensures:template-not-a-fill-slot", p, s, lambda s2: template_goal(s2, K, selfv))
        cx.emit(
            ["C06", "C02"],
            "ensures:frame",
            p,
            s,
            lambda s2: frame_goal(s2, pre, skip_oids=footprint_oids(pre, selfv), view_guard=lambda r0: z3.Not(owner_is(r0, 1))),
        )
        cx.emit(["C05"], "ensures:bk", p, s, lambda s2: bk_goal(s2, K, selfv, pre, [selfv]))
    return cx


def ob_eq(P, K, method="__eq__", hooks=None, mode="live"):
    out = []
    for variant in other_variants(K, method):
        cx = Ctx(P, K, method, variant, hooks)
        st = base_state()
        selfv = schema.make_instance(st, K, 1, mode=mode)
        other = make_other(st, K, variant, selfv)
        pre = st.fork()
        for i, r in enumerate(run_method(cx, st, [selfv, other])):
            p = f"p{i}" + (f":{r.exc.cls}@{r.exc.origin}" if r.exc is not None else "")
            s = r.st
            if r.exc is not None:
                cx.emit(["C09"], "ensures:no-raise", p, s, z3.BoolVal(False))
                continue
            res = cx.X.truth(s, r.v)
            if method == "__ne__":
                res = z3.Not(res)
            cx.emit(["C06", "C09"], "ensures:frame", p, s, lambda s2: frame_goal(s2, pre))
            if not isinstance(other, VObj):
                cx.emit(["C09"], "ensures:different-type-unequal", p, s, z3.Not(res))
                continue
            cx.emit(
                ["C09"],
                "ensures:sound",
                p,
                s,
                lambda s2: z3.Implies(res, eq_views(s2, K, view_of(pre, selfv, K), view_of(pre, other, K), name="eq")),
            )
            cx.emit(
                ["C09"],
                "ensures:complete",
                p,
                s,
                lambda s2: z3.Implies(
                    z3.And(eq_views(s2, K, view_of(pre, selfv, K), view_of(pre, other, K), name="eq"), quantity_same(s2, pre, selfv, other)),
                    res,
                ),
            )
        out.append(cx)
    return out
