"""C13: derived views (num_bins, bin_entries, bin_edges, bin_centers, bin_width) agree with fill.

Modular contracts (see spec/accspec.py):
  index      the functions that map a value to a bin (Bin.bin, Bin.bin_width, SparselyBin.bin, CentrallyBin.index,
             IrregularlyBin._lower_index/_upper_index) against their position specification;
  accessor   every accessor, for every form of the query (no range, low only, high only, both, xvalues), executed
             on the real AST with the index functions replaced by their contracts, against the selected run [m, M]:
             length and every element of the returned array, no exception, self unchanged;
  lemma      property-level consequences proved from the contracts alone: mutual consistency, centres between
             edges, the run starts at the bin holding low and reaches high up to the isclose tolerance, the edges
             are the boundaries of the routing specification of fill (C02).
Assumed (listed in the evidence): numpy contracts of hgv/npmodel.py (linspace, arange, isclose, round, array,
concatenate, slicing) over A-REAL; bisect.bisect on a sorted list.
"""

import z3

from . import core, models, schema, smt
from . import npmodel as NP
from .core import NONE, CList, Inst, LList, State, Unsupported, VBool, VChild, VFl, VInt, VNone, VObj, VTuple
from .execu import Exec
from .extra import add_function, record
from .fl import Fl

import sys, os

sys.path.insert(0, os.path.dirname(os.path.dirname(os.path.abspath(__file__))))
from spec import accspec  # noqa: E402

ACCESSORS = ("num_bins", "bin_entries", "bin_edges", "bin_centers")
VARIANTS = ("full", "sub", "low", "high")


def Res(st, v=None, exc=None):
    from .execu import Res as R

    return R(st, v, exc)


def tasks_for(prop, tier):
    if prop != "C13":
        return []
    ts = []
    for K in ("Bin", "SparselyBin"):
        ts.append(("c13", "index", K))
        ts.append(("c13", "lemma", K))
        for m in ACCESSORS:
            for v in VARIANTS:
                ts.append(("c13", "acc", K, m, v))
        ts.append(("c13", "acc", K, "bin_entries", "xvalues"))
        ts.append(("c13", "acc", K, "bin_width", "full"))
    for v in VARIANTS:
        ts.append(("c13", "acc", "SparselyBin", "_bin_range", v))
    for K in ("CentrallyBin", "IrregularlyBin"):
        ts.append(("c13", "index", K))
        ts.append(("c13", "lemma", K))
        for m in ACCESSORS:
            for v in VARIANTS:
                ts.append(("c13", "acc", K, m, v))
        ts.append(("c13", "acc", K, "bin_entries", "xvalues"))
    for m in ("bin_entries", "bin_labels", "bin_centers", "n_bins", "mpv", "bin_entries:labels"):
        ts.append(("c13", "acc", "Categorize", m, "full"))
    for K in ("Bin", "SparselyBin", "CentrallyBin", "IrregularlyBin"):
        ts.append(("c13", "mpv", K))
    return ts


C13_ASSUMPTIONS = [
    "C13: the accessor contracts are over A-REAL; the rounding level (np.linspace / np.arange / floor of a rounded quotient within an ulp of an edge) is covered only by the bounded double-precision stand-in listed under bounded_functions",
    "C13: queries are finite low < high (two-sided: any; one-sided: overlapping the binned domain); SparselyBin queries lie inside [edge(minBin), edge(maxBin+1)] with positions inside the int64 range; xvalues are single non-NaN values",
    "C13: which run of bins a query selects is the code's own rule (the bin holding low first, the bin holding high last unless numpy.isclose puts high on that bin's lower edge); the lemmas tie it to the property: the run starts with the bin holding low and reaches high up to that tolerance",
    "C13: the 2-D grid / projection helpers (plot/hist_numpy.py), Categorize labels and mpv are bounded only",
]
C13_TRUSTED = [
    "numpy contracts over A-REAL (hgv/npmodel.py accessor_call): linspace(a, b, n)[i] = a + i(b-a)/(n-1) with exact end points, arange(a, b, s) has ceil((b-a)/s) elements a + i*s, isclose(a, b) <=> |a-b| <= 1e-8 + 1e-5|b|, round = an integer within 1/2, array(list), concatenate, basic slices, diff",
    "bisect.bisect on a list sorted by < returns the insertion point (hgv/builtins_model.py bi_bisect_bisect); min / max over the integer keys of a dict; list.index / membership on a list of numbers",
]


def run_task(P, task, prop, tier, out):
    out.setdefault("assumptions", []).extend(C13_ASSUMPTIONS)
    out.setdefault("trusted", []).extend(C13_TRUSTED)
    kind, K = task[1], task[2]
    if kind == "index":
        return {"Bin": index_bin, "SparselyBin": index_sparse, "CentrallyBin": index_central, "IrregularlyBin": index_irr}[K](P, prop, tier, out)
    if kind == "lemma":
        return {"Bin": lemma_bin, "SparselyBin": lemma_sparse, "CentrallyBin": lemma_central, "IrregularlyBin": lemma_irr}[K](P, prop, tier, out)
    if kind == "mpv":
        return mpv_numeric(P, K, prop, tier, out)
    if kind == "acc":
        return {"Bin": acc_bin, "SparselyBin": acc_sparse, "CentrallyBin": acc_central, "IrregularlyBin": acc_irr, "Categorize": acc_cat}[K](P, task[3], task[4], prop, tier, out)
    raise ValueError(task)


def valid_identity(h):
    """a hint is only used when z3 proves it valid on its own (no hypotheses): polynomial identities such as
    w*(k+1) == w*k + w that spare the main query a nonlinear step"""
    s = z3.Solver()
    s.set("timeout", 5000)
    s.add(z3.Not(h))
    return s.check() == z3.unsat


INPUTS = {}  # name -> term: what a counter-model is asked for (set by the *_setup functions and query())


def prove(out, prop, fn, clause, path, variant, st, goal, tier, extra_index=(), hints=()):
    s = st.fork()
    if callable(goal):
        goal = goal(s)
    hs = [h for h in hints if valid_identity(h)]
    vc = smt.build_vc(f"{fn}/{clause}#{path}", s, goal, extra_index=extra_index, extra_hyps=hs)
    vc.inputs = dict(INPUTS)
    return record(out, prop, fn, clause, path, variant, vc, tier)


def step_hints(w, base, i):
    """w*(base+i+1) = w*(base+i) + w and the half step, at the Skolem index of an array goal"""
    a = z3.ToReal(base + i)
    half = z3.RealVal("1/2")
    return [w * z3.ToReal(base + i + 1) == w * a + w, w * (a + half) == w * a + w * half, w * (a + 1) == w * a + w]


def cover(out, prop, fn, clause, path, variant, st, tier, extra=()):
    """vacuity guard: the hypotheses of the obligations built on this state are satisfiable (`False` must not
    be provable).  Recorded as discharged when z3 finds a model, as undecided otherwise."""
    s = st.fork()
    if extra:
        s.add(*extra)
    vc = smt.build_vc(f"{fn}/{clause}#{path}", s, z3.BoolVal(False))
    smt.discharge(vc, tier)
    reachable = vc.verdict == "sat"
    out["records"].append(
        {
            "obligation": f"{prop}/{fn}/{clause}",
            "function": fn,
            "clause": clause,
            "path": path,
            "variant": variant,
            "verdict": "unsat" if reachable else "unknown",
            "backend": (vc.backend or "z3") + " (cover: a model of the hypotheses)",
            "seconds": round(vc.seconds, 4),
            "hyps": len(vc.hyps),
            "instances": vc.n_instances,
            "reason": None if reachable else f"vacuous: hypotheses not shown satisfiable ({vc.verdict})",
        }
    )


def frame_same(st, pre, selfv):
    """the accessor leaves self (fields, child views) unchanged"""
    from .contracts import frame_goal

    return frame_goal(st, pre)


# ------------------------------------------------------------------------------------------------ Bin


def bin_setup(st):
    selfv = schema.make_instance(st, "Bin", 1)
    o = st.obj(selfv)
    L, H = o.fields["low"].fl.r, o.fields["high"].fl.r
    n = st.obj(o.fields["values"]).length()
    T = accspec.BinTerms("Bin1", L, H, n)
    st.add(*T.facts())
    INPUTS.clear()
    INPUTS.update({"class": z3.StringVal("Bin"), "low": L, "high": H, "num": n})
    return selfv, T


def bin_models(T):
    def m_bin(X, st, fi, args, kwargs):
        x = X.B.num(args[1])
        if x is None:
            raise Unsupported("Bin.bin of a non-number")
        st.add(*T.pos_facts(x.r))
        return [Res(st, VInt(T.bin(x)))]

    def m_width(X, st, fi, args, kwargs):
        return [Res(st, VFl(Fl.fin(T.delta)))]

    return {"histogrammar.primitives.bin.Bin.bin": m_bin, "histogrammar.primitives.bin.Bin.bin_width": m_width}


def query(st, variant, dom_lo=None, dom_hi=None):
    """symbolic (low, high) of a query form: Fl or None.  A one-sided query overlaps the binned domain
    [dom_lo, dom_hi) ("any sub-range overlapping the binned domain"); a two-sided one is any low < high."""
    lo = hi = None
    if variant in ("sub", "low"):
        lo, wf = Fl.sym("q.low")
        st.add(wf, lo.isfin())
    if variant in ("sub", "high"):
        hi, wf = Fl.sym("q.high")
        st.add(wf, hi.isfin())
    if variant == "sub":
        st.add(lo.r < hi.r)
    for nm, q in (("q.low", lo), ("q.high", hi)):
        INPUTS.pop(nm, None)
        if q is not None:
            INPUTS[nm] = q.r
    if variant == "low" and dom_hi is not None:
        st.add(lo.r < dom_hi)
    if variant == "high" and dom_lo is not None:
        st.add(hi.r >= dom_lo)
    return lo, hi


def fv(x):
    return NONE if x is None else VFl(x)


def index_bin(P, prop, tier, out):
    """Bin.bin(x) == floor(pos(x)) inside [low, high), -1 outside and for NaN; Bin.bin_width() == delta"""
    fi = P.lookup_method("Bin", "bin")
    X = Exec(P, models.std_hooks())
    st = State()
    selfv, T = bin_setup(st)
    x, wf = Fl.sym("x")
    st.add(wf, *T.pos_facts(x.r))
    INPUTS["q.x"] = x.r
    pre = st.fork()
    try:
        res = X.run(st, fi, [selfv, VFl(x)])
    except Unsupported as e:
        out["out_of_reach"].append({"function": fi.qualname, "reason": str(e)})
        return
    add_function(out, fi, "contract", paths=len(res))
    for i, r in enumerate(res):
        p = f"p{i}"
        if r.exc is not None:
            prove(out, prop, fi.qualname, "ensures:no-raise", p + ":" + r.exc.cls, "contract", r.st, z3.BoolVal(False), tier)
            continue
        ok = isinstance(r.v, VInt)
        prove(out, prop, fi.qualname, "ensures:floor-of-position", p, "contract", r.st, (r.v.t == T.bin(x)) if ok else z3.BoolVal(False), tier)
        prove(out, prop, fi.qualname, "ensures:frame", p, "contract", r.st, lambda s: frame_same(s, pre, selfv), tier)
    fw = P.lookup_method("Bin", "bin_width")
    X = Exec(P, models.std_hooks())
    st = State()
    selfv, T = bin_setup(st)
    res = X.run(st, fw, [selfv])
    add_function(out, fw, "contract", paths=len(res))
    for i, r in enumerate(res):
        p = f"p{i}"
        if r.exc is not None:
            prove(out, prop, fw.qualname, "ensures:no-raise", p + ":" + r.exc.cls, "contract", r.st, z3.BoolVal(False), tier)
            continue
        f = X.B.num(r.v)
        prove(out, prop, fw.qualname, "ensures:width-is-delta", p, "contract", r.st, z3.And(f.isfin(), f.r == T.delta) if f is not None else z3.BoolVal(False), tier)


def sk(name):
    return z3.Int("sk." + name)


def arr_goal(st, v, want_len, want_elem, X, name):
    """array result: exact length and every element (Skolem index sk(name))"""
    if not NP.is_arr(st, v):
        return z3.BoolVal(False)
    o = st.heap[v.oid]
    i = sk(name)
    st.add_index(i)
    e = X.B.num(o.elem(i))
    if e is None:
        return z3.BoolVal(False)
    return z3.And(o.length == want_len, z3.Implies(z3.And(i >= 0, i < want_len), e.same(want_elem(i))))


def acc_bin(P, meth, variant, prop, tier, out):
    fi = P.lookup_method("Bin", meth)
    st = State()
    selfv, T = bin_setup(st)
    X = Exec(P, models.std_hooks(call_models={**models.STD_MODELS, **bin_models(T)}))
    o = st.obj(selfv)
    values = o.fields["values"]

    def content(s, k):
        ch = s.obj(values).get(k)
        return Fl.fin(core.E(s.view(ch.ref)))

    if variant == "xvalues":
        x, wf = Fl.sym("q.x")
        st.add(wf)
        INPUTS["q.x"] = x.r
        xs = st.alloc(CList([VFl(x)]), new=False)
        args = [selfv, NONE, NONE, xs]
        lo = hi = None
    elif meth == "bin_width":
        args = [selfv]
        lo = hi = None
    else:
        lo, hi = query(st, variant, T.L, T.H)
        args = [selfv, fv(lo), fv(hi)]
    for q in (lo, hi):
        if q is not None:
            st.add(*T.pos_facts(q.r))
    pre = st.fork()
    cover(out, prop, fi.qualname, "cover:query-satisfiable", variant, variant, st, tier)
    try:
        res = X.run(st, fi, args)
    except Unsupported as e:
        out["out_of_reach"].append({"function": fi.qualname, "reason": f"[{variant}] {e}"})
        return
    add_function(out, fi, variant, paths=len(res))
    m, M, under, over = T.select(lo, hi)
    nb = M - m + 1
    for i, r in enumerate(res):
        p = f"{variant}:p{i}"
        if r.exc is not None:
            prove(out, prop, fi.qualname, "ensures:no-raise", p + ":" + r.exc.cls, variant, r.st, z3.BoolVal(False), tier)
            continue
        s = r.st
        if meth == "bin_width":
            f = X.B.num(r.v)
            prove(out, prop, fi.qualname, "ensures:width", p, variant, s, z3.And(f.isfin(), f.r == T.delta) if f is not None else z3.BoolVal(False), tier)
        elif meth == "num_bins":
            g = (r.v.t == nb) if isinstance(r.v, VInt) else z3.BoolVal(False)
            prove(out, prop, fi.qualname, "ensures:count-of-selected-run", p, variant, s, g, tier)
        elif meth == "bin_entries" and variant == "xvalues":
            b = T.bin(x)
            want = lambda j: Fl.ite(z3.And(b >= 0, b < T.n), content(s, b), Fl.const(0.0))
            prove(out, prop, fi.qualname, "ensures:content-of-the-bin-fill-uses", p, variant, s, lambda s2: arr_goal(s2, r.v, z3.IntVal(1), want, X, "xv"), tier)
        elif meth == "bin_entries":
            prove(out, prop, fi.qualname, "ensures:entries-of-selected-run", p, variant, s, lambda s2: arr_goal(s2, r.v, nb, lambda j: content(s2, m + j), X, "ent"), tier)
        elif meth == "bin_edges":
            prove(out, prop, fi.qualname, "ensures:edges-of-selected-run", p, variant, s, lambda s2: arr_goal(s2, r.v, nb + 1, lambda j: Fl.fin(T.edge(m + j)), X, "edge"), tier, hints=step_hints(T.delta, m, sk("edge")))
        elif meth == "bin_centers":
            half = z3.RealVal("1/2")
            prove(out, prop, fi.qualname, "ensures:centres-of-selected-run", p, variant, s, lambda s2: arr_goal(s2, r.v, nb, lambda j: Fl.fin(T.L + T.delta * (z3.ToReal(m + j) + half)), X, "cen"), tier, hints=step_hints(T.delta, m, sk("cen")))
        prove(out, prop, fi.qualname, "ensures:frame", p, variant, s, lambda s2: frame_same(s2, pre, selfv), tier)


def lemma_bin(P, prop, tier, out):
    """property-level consequences of the Bin contracts (pure arithmetic over the spec terms)"""
    fn = "spec.accspec.Bin"
    for variant in VARIANTS:
        st = State()
        selfv, T = bin_setup(st)
        lo, hi = query(st, variant, T.L, T.H)
        for q in (lo, hi):
            if q is not None:
                st.add(*T.pos_facts(q.r))
        m, M, under, over = T.select(lo, hi)
        nb = M - m + 1
        cover(out, prop, fn, "cover:query-with-nonempty-run", variant, variant, st, tier, extra=[nb >= 2])
        # the run is a run of real bins (possibly empty)
        prove(out, prop, fn, "lemma:run-inside-histogram", variant, variant, st, z3.And(m >= 0, M <= T.n - 1, nb >= 0), tier)
        # centres strictly between their edges
        j = z3.Int("j")
        half = z3.RealVal("1/2")
        c = T.L + T.delta * (z3.ToReal(m + j) + half)
        prove(out, prop, fn, "lemma:centre-between-edges", variant, variant, st, z3.And(T.edge(m + j) < c, c < T.edge(m + j + 1)), tier)
        # edge j .. j+1 of the answer bound exactly the data that fill routes to bin m+j (routing spec of C02:
        # low + k*delta <= x < low + (k+1)*delta): the same terms, so the statement is an identity on the spec;
        # what is proved here is that they agree with the index function the accessors and fill share
        x = z3.Real("x")
        st2 = st.fork()
        st2.add(*T.pos_facts(x))
        k = m + j
        st2.add(j >= 0, j < nb, *T.cmp_facts(x, k), *T.cmp_facts(x, k + 1))
        g = z3.Implies(z3.And(T.edge(k) <= x, x < T.edge(k + 1)), z3.And(T.bin(Fl.fin(x)) == k, x >= T.L, x < T.H))
        prove(out, prop, fn, "lemma:edges-bound-the-bin-fill-uses", variant, variant, st2, g, tier)
        # selection: the first reported bin holds low; the last one reaches high up to the isclose tolerance
        if lo is not None:
            st3 = st.fork()
            g = z3.Implies(z3.And(lo.r >= T.L, lo.r < T.H, z3.Not(over)), m == T.bin(lo))
            prove(out, prop, fn, "lemma:first-bin-holds-low", variant, variant, st3, g, tier)
        if hi is not None:
            st3 = st.fork()
            last = T.edge(M + 1)
            st3.add(*T.cmp_facts(hi.r, M + 1))
            absl = z3.If(last >= 0, last, -last)
            g = z3.Implies(z3.And(hi.r >= T.L, hi.r < T.H), hi.r <= last + NP.ISCLOSE_ATOL + NP.ISCLOSE_RTOL * absl)
            prove(out, prop, fn, "lemma:last-bin-reaches-high", variant, variant, st3, g, tier)
    # the order facts of the position function that the contracts hand to their callers
    st = State()
    selfv, T = bin_setup(st)
    x = z3.Real("x")
    k = z3.Int("k")
    st.add(T.delta * T.pos(x) == x - T.L)
    prove(out, prop, fn, "lemma:position-order", "p0", "spec", st, z3.And(*T.pos_facts(x)[1:]), tier)
    prove(out, prop, fn, "lemma:position-vs-edge", "p0", "spec", st, z3.And(*T.cmp_facts(x, k)), tier)


# ------------------------------------------------------------------------------------------------ SparselyBin

SB = "histogrammar.primitives.sparselybin.SparselyBin."
LONG_NAN, LONG_MINUSINF, LONG_PLUSINF = -(2**63), -(2**63 - 1), 2**63 - 1


class SparseCtx:
    pass


def sparse_setup(st):
    C = SparseCtx()
    C.selfv = schema.make_instance(st, "SparselyBin", 1)
    o = st.obj(C.selfv)
    C.bins = o.fields["bins"]
    d = st.obj(C.bins)
    C.n = d.length()
    C.present = d.present
    C.T = accspec.SparseTerms("Sparse1", o.fields["origin"].fl.r, o.fields["binWidth"].fl.r)
    st.add(*C.T.facts())
    # canonical first / last filled bin
    C.mn, C.mx = z3.Int("Sparse1.minBin"), z3.Int("Sparse1.maxBin")
    st.add(z3.Implies(C.n > 0, z3.And(C.present(core.KInt(C.mn)), C.present(core.KInt(C.mx)))))
    st.add_index(core.KInt(C.mn))
    st.add_index(core.KInt(C.mx))
    k = z3.Const("Sparse1.k", core.Key)
    st.forall(k, C.present(k), z3.And(C.mn <= core.Key.ki(k), core.Key.ki(k) <= C.mx), name="minmax-canonical")
    INPUTS.clear()
    INPUTS.update({"class": z3.StringVal("SparselyBin"), "origin": C.T.O, "binWidth": C.T.W, "filled": C.n, "minBin": C.mn, "maxBin": C.mx})
    return C


def sparse_bin_total(T, x):
    """SparselyBin.bin(x) for any float"""
    p = T.pos(x.r)
    fin = z3.If(p <= LONG_MINUSINF, z3.IntVal(LONG_MINUSINF), z3.If(p >= LONG_PLUSINF, z3.IntVal(LONG_PLUSINF), z3.ToInt(p)))
    return z3.If(x.nan, z3.IntVal(LONG_NAN), z3.If(x.ninf, z3.IntVal(LONG_MINUSINF), z3.If(x.pinf, z3.IntVal(LONG_PLUSINF), fin)))


def sparse_select(C, lo, hi):
    """(m, M) of SparselyBin._bin_range, and the two edges it returns"""
    T = C.T
    m = C.mn if lo is None else T.bin(lo)
    if hi is None:
        M = C.mx
    else:
        bh = T.bin(hi)
        M = z3.If(NP.fl_isclose(hi, Fl.fin(T.edge(bh))), bh - 1, bh)
    empty = C.n == 0
    m = z3.If(empty, z3.IntVal(0), m)
    M = z3.If(empty, z3.IntVal(-1), M)
    left = z3.If(empty, T.O, T.edge(m))
    right = z3.If(empty, T.O + 1, T.edge(M + 1))
    return m, M, left, right


def sparse_models(C, with_range=None):
    T = C.T

    def m_bin(X, st, fi, args, kwargs):
        x = X.B.num(args[1])
        if x is None:
            raise Unsupported("SparselyBin.bin of a non-number")
        st.add(*T.pos_facts(x.r))
        return [Res(st, VInt(sparse_bin_total(T, x)))]

    def m_min(X, st, fi, args, kwargs):
        return [Res(s, NONE if e else VInt(C.mn)) for s, e in X.branch(st, C.n == 0)]

    def m_max(X, st, fi, args, kwargs):
        return [Res(s, NONE if e else VInt(C.mx)) for s, e in X.branch(st, C.n == 0)]

    ms = {SB + "bin": m_bin, SB + "minBin": m_min, SB + "maxBin": m_max}
    if with_range is not None:
        lo, hi = with_range

        def m_range(X, st, fi, args, kwargs):
            # contract of _bin_range for the query of this obligation (the accessors pass low, high through)
            a = (list(args[1:]) + [kwargs.get("low", NONE), kwargs.get("high", NONE)])[:2] if len(args) < 3 else list(args[1:3])
            for got, want in zip(a, (lo, hi)):
                if (want is None) != isinstance(got, VNone):
                    raise Unsupported("_bin_range called with another query than the accessor's")
                if want is not None and not (isinstance(got, VFl) and z3.eq(got.fl.r, want.r)):
                    raise Unsupported("_bin_range called with another query than the accessor's")
            m, M, left, right = sparse_select(C, lo, hi)
            return [Res(st, VTuple([VInt(m), VInt(M), VInt(M + 1 - m), VFl(Fl.fin(left)), VFl(Fl.fin(right))]))]

        ms[SB + "_bin_range"] = m_range

        def m_edges(X, st, fi, args, kwargs):
            # contract of bin_edges for the query of this obligation (used by bin_centers)
            a = (list(args[1:]) + [NONE, NONE])[:2]
            for got, want in zip(a, (lo, hi)):
                if (want is None) != isinstance(got, VNone) or (want is not None and not (isinstance(got, VFl) and z3.eq(got.fl.r, want.r))):
                    raise Unsupported("bin_edges called with another query than the accessor's")
            m, M, left, right = sparse_select(C, lo, hi)
            return [Res(st, NP.new_arr(st, M + 2 - m, lambda j: VFl(Fl.fin(z3.If(C.n == 0, T.O, T.edge(m + j))), "npfloat"), "float"))]

        ms[SB + "bin_edges"] = m_edges
    return ms


def sparse_query(st, C, variant):
    """queries inside the binned domain [edge(minBin), edge(maxBin + 1)] of a filled histogram; positions
    inside the int64 range"""
    T = C.T
    lo, hi = query(st, variant)
    for q in (lo, hi):
        if q is not None:
            st.add(*T.pos_facts(q.r), T.inreach(q))
    if lo is not None:
        st.add(z3.Implies(C.n > 0, z3.And(T.edge(C.mn) <= lo.r, lo.r < T.edge(C.mx + 1))), *T.cmp_facts(lo.r, C.mn), *T.cmp_facts(lo.r, C.mx + 1))
    if hi is not None:
        st.add(z3.Implies(C.n > 0, z3.And(T.edge(C.mn) <= hi.r, hi.r <= T.edge(C.mx + 1))), *T.cmp_facts(hi.r, C.mn), *T.cmp_facts(hi.r, C.mx + 1))
    return lo, hi


def index_sparse(P, prop, tier, out):
    """SparselyBin.bin against the position function; minBin / maxBin against the canonical extremes"""
    fi = P.lookup_method("SparselyBin", "bin")
    X = Exec(P, models.std_hooks())
    st = State()
    C = sparse_setup(st)
    x, wf = Fl.sym("x")
    st.add(wf, *C.T.pos_facts(x.r))
    INPUTS["q.x"] = x.r
    pre = st.fork()
    try:
        res = X.run(st, fi, [C.selfv, VFl(x)])
    except Unsupported as e:
        out["out_of_reach"].append({"function": fi.qualname, "reason": str(e)})
        return
    add_function(out, fi, "contract", paths=len(res))
    for i, r in enumerate(res):
        p = f"p{i}"
        if r.exc is not None:
            prove(out, prop, fi.qualname, "ensures:no-raise", p + ":" + r.exc.cls, "contract", r.st, z3.BoolVal(False), tier)
            continue
        g = (r.v.t == sparse_bin_total(C.T, x)) if isinstance(r.v, VInt) else z3.BoolVal(False)
        prove(out, prop, fi.qualname, "ensures:floor-of-position", p, "contract", r.st, g, tier)
        prove(out, prop, fi.qualname, "ensures:frame", p, "contract", r.st, lambda s: frame_same(s, pre, C.selfv), tier)
    for name, pick in (("minBin", lambda C: C.mn), ("maxBin", lambda C: C.mx)):
        fi = P.lookup_method("SparselyBin", name)
        X = Exec(P, models.std_hooks())
        st = State()
        C = sparse_setup(st)
        try:
            res = X.run(st, fi, [C.selfv])
        except Unsupported as e:
            out["out_of_reach"].append({"function": fi.qualname, "reason": str(e)})
            continue
        add_function(out, fi, "contract", paths=len(res))
        for i, r in enumerate(res):
            p = f"p{i}"
            if r.exc is not None:
                prove(out, prop, fi.qualname, "ensures:no-raise", p + ":" + r.exc.cls, "contract", r.st, z3.BoolVal(False), tier)
                continue
            if isinstance(r.v, VNone):
                g = C.n == 0
            elif isinstance(r.v, VInt):
                g = z3.And(C.n > 0, r.v.t == pick(C))
            else:
                g = z3.BoolVal(False)
            prove(out, prop, fi.qualname, "ensures:extreme-filled-bin", p, "contract", r.st, g, tier, extra_index=[core.KInt(r.v.t)] if isinstance(r.v, VInt) else ())


def acc_sparse(P, meth, variant, prop, tier, out):
    fi = P.lookup_method("SparselyBin", meth)
    st = State()
    C = sparse_setup(st)
    T = C.T
    x = None
    if variant == "xvalues":
        x, wf = Fl.sym("q.x")
        st.add(wf, x.isfin(), *T.pos_facts(x.r), T.inreach(x))
        xs = st.alloc(CList([VFl(x)]), new=False)
        args = [C.selfv, NONE, NONE, xs]
        lo = hi = None
    elif meth == "bin_width":
        args = [C.selfv]
        lo = hi = None
    else:
        lo, hi = sparse_query(st, C, variant)
        args = [C.selfv, fv(lo), fv(hi)]
    use_range = meth not in ("_bin_range", "bin_width") and variant != "xvalues"
    ms = sparse_models(C, (lo, hi) if use_range else None)
    if meth != "bin_centers":
        ms.pop(SB + "bin_edges", None)
    X = Exec(P, models.std_hooks(call_models={**models.STD_MODELS, **ms}))
    pre = st.fork()
    cover(out, prop, fi.qualname, "cover:query-satisfiable", variant, variant, st, tier, extra=[C.n > 0])
    try:
        res = X.run(st, fi, args)
    except Unsupported as e:
        out["out_of_reach"].append({"function": fi.qualname, "reason": f"[{variant}] {e}"})
        return
    add_function(out, fi, variant, paths=len(res))
    m, M, left, right = sparse_select(C, lo, hi)
    nb = M + 1 - m
    half = z3.RealVal("1/2")

    def content(s, k):
        ch = s.obj(C.bins).val(core.KInt(k))
        return Fl.ite(C.present(core.KInt(k)), Fl.fin(core.E(s.view(ch.ref))), Fl.const(0.0))

    for i, r in enumerate(res):
        p = f"{variant}:p{i}"
        if r.exc is not None:
            prove(out, prop, fi.qualname, "ensures:no-raise", p + ":" + r.exc.cls, variant, r.st, z3.BoolVal(False), tier)
            continue
        s = r.st
        if meth == "bin_width":
            f = X.B.num(r.v)
            prove(out, prop, fi.qualname, "ensures:width", p, variant, s, z3.And(f.isfin(), f.r == T.W) if f is not None else z3.BoolVal(False), tier)
        elif meth == "_bin_range":
            ok = isinstance(r.v, VTuple) and len(r.v.items) == 5 and all(isinstance(t, VInt) for t in r.v.items[:3]) and all(X.B.num(t) is not None for t in r.v.items[3:])
            if ok:
                a, b, c, d, e = r.v.items
                g = z3.And(a.t == m, b.t == M, c.t == nb, X.B.num(d).same(Fl.fin(left)), X.B.num(e).same(Fl.fin(right)))
            else:
                g = z3.BoolVal(False)
            prove(out, prop, fi.qualname, "ensures:selected-run-and-its-outer-edges", p, variant, s, g, tier)
        elif meth == "num_bins":
            prove(out, prop, fi.qualname, "ensures:count-of-selected-run", p, variant, s, (r.v.t == nb) if isinstance(r.v, VInt) else z3.BoolVal(False), tier)
        elif meth == "bin_entries" and variant == "xvalues":
            b = T.bin(x)
            prove(out, prop, fi.qualname, "ensures:content-of-the-bin-fill-uses", p, variant, s, lambda s2: arr_goal(s2, r.v, z3.IntVal(1), lambda j: content(s2, b), X, "xv"), tier, extra_index=[core.KInt(b)])
        elif meth == "bin_entries":
            prove(out, prop, fi.qualname, "ensures:entries-of-selected-run", p, variant, s, lambda s2: arr_goal(s2, r.v, nb, lambda j: content(s2, m + j), X, "ent"), tier)
        elif meth == "bin_edges":
            want = lambda j: Fl.fin(z3.If(C.n == 0, T.O, T.edge(m + j)))
            prove(out, prop, fi.qualname, "ensures:edges-of-selected-run", p, variant, s, lambda s2: arr_goal(s2, r.v, nb + 1, want, X, "edge"), tier, hints=step_hints(T.W, m, sk("edge")))
        elif meth == "bin_centers":
            want = lambda j: Fl.fin(T.O + T.W * (z3.ToReal(m + j) + half))
            prove(out, prop, fi.qualname, "ensures:centres-of-selected-run", p, variant, s, lambda s2: arr_goal(s2, r.v, nb, want, X, "cen"), tier, hints=step_hints(T.W, m, sk("cen")))
        prove(out, prop, fi.qualname, "ensures:frame", p, variant, s, lambda s2: frame_same(s2, pre, C.selfv), tier)


def lemma_sparse(P, prop, tier, out):
    fn = "spec.accspec.SparselyBin"
    half = z3.RealVal("1/2")
    for variant in VARIANTS:
        st = State()
        C = sparse_setup(st)
        T = C.T
        lo, hi = sparse_query(st, C, variant)
        m, M, left, right = sparse_select(C, lo, hi)
        nb = M + 1 - m
        if hi is not None:
            st.add(*T.cmp_facts(hi.r, T.bin(hi)), *T.cmp_facts(hi.r, T.bin(hi) + 1))
        if lo is not None:
            st.add(*T.cmp_facts(lo.r, T.bin(lo)), *T.cmp_facts(lo.r, T.bin(lo) + 1))
        cover(out, prop, fn, "cover:query-with-nonempty-run", variant, variant, st, tier, extra=[nb >= 2, C.n > 0])
        prove(out, prop, fn, "lemma:run-not-negative", variant, variant, st, nb >= 0, tier)
        prove(out, prop, fn, "lemma:run-inside-filled-range", variant, variant, st, z3.Implies(C.n > 0, z3.And(m >= C.mn, M <= C.mx)), tier)
        j = z3.Int("j")
        c = T.O + T.W * (z3.ToReal(m + j) + half)
        prove(out, prop, fn, "lemma:centre-between-edges", variant, variant, st, z3.And(T.edge(m + j) < c, c < T.edge(m + j + 1)), tier)
        x = z3.Real("x")
        st2 = st.fork()
        k = m + j
        st2.add(*T.pos_facts(x), j >= 0, j < nb, *T.cmp_facts(x, k), *T.cmp_facts(x, k + 1))
        g = z3.Implies(z3.And(T.edge(k) <= x, x < T.edge(k + 1)), T.bin(Fl.fin(x)) == k)
        prove(out, prop, fn, "lemma:edges-bound-the-bin-fill-uses", variant, variant, st2, g, tier)
        if lo is not None:
            prove(out, prop, fn, "lemma:first-bin-holds-low", variant, variant, st, z3.Implies(C.n > 0, m == T.bin(lo)), tier)
        if hi is not None:
            st3 = st.fork()
            last = T.edge(M + 1)
            st3.add(*T.cmp_facts(hi.r, M + 1))
            absl = z3.If(last >= 0, last, -last)
            g = z3.Implies(C.n > 0, hi.r <= last + NP.ISCLOSE_ATOL + NP.ISCLOSE_RTOL * absl)
            prove(out, prop, fn, "lemma:last-bin-reaches-high", variant, variant, st3, g, tier)
    st = State()
    C = sparse_setup(st)
    T = C.T
    x, k = z3.Real("x"), z3.Int("k")
    st.add(*T.pos_facts(x))
    prove(out, prop, fn, "lemma:position-vs-edge", "p0", "spec", st, z3.And(*T.cmp_facts(x, k)), tier)


# ------------------------------------------------------------------------------------------------ CentrallyBin

CB = "histogrammar.primitives.centrallybin.CentrallyBin."
PINF, NINF = Fl.const(float("inf")), Fl.const(float("-inf"))


class CentralCtx:
    """centres c(0) < ... < c(n-1), n >= 2.  Bin k is [lo_edge(k), up_edge(k)) with the midpoints as edges and
    -inf / +inf at the ends.  index(x, greater) is specified by a canonical function idx(x, greater):
    the least i with i == n-1 or x < mid(i) (greater) / x <= mid(i) (not greater); NaN gives n-1."""

    def __init__(self, st):
        self.selfv = schema.make_instance(st, "CentrallyBin", 1)
        o = st.obj(self.selfv)
        self.bins = o.fields["bins"]
        self.n = st.obj(self.bins).length()
        self.IDX = z3.Function("Central1.idx", z3.RealSort(), z3.IntSort(), z3.BoolSort(), z3.IntSort())
        INPUTS.clear()
        INPUTS.update({"class": z3.StringVal("CentrallyBin"), "n": self.n, **{f"c{i}": self.c(st, z3.IntVal(i)).r for i in range(6)}})

    def c(self, st, i):
        return st.obj(self.bins).get(i).items[0].fl

    def child(self, st, i):
        return st.obj(self.bins).get(i).items[1]

    def mid(self, st, i):
        return Fl.fin((self.c(st, i).r + self.c(st, i + 1).r) / 2)

    def lo_edge(self, st, k):
        return Fl.ite(k == 0, NINF, self.mid(st, k - 1))

    def up_edge(self, st, k):
        return Fl.ite(k == self.n - 1, PINF, self.mid(st, k))

    def key(self, x):
        return (z3.If(x.isfin(), x.r, z3.RealVal(0)), z3.If(x.pinf, z3.IntVal(1), z3.If(x.ninf, z3.IntVal(-1), z3.IntVal(0))))

    def idx(self, st, x, greater):
        """canonical index term for a non-NaN x, with its characterisation added to st"""
        g = z3.BoolVal(greater) if isinstance(greater, bool) else greater
        kr, kk = self.key(x)
        r = self.IDX(kr, kk, g)
        n = self.n

        def cond(i):
            m = self.mid(st, i)
            return z3.If(g, x.lt(m), x.le(m))

        st.add(r >= 0, r <= n - 1, z3.Or(r == n - 1, cond(r)))
        st.add_index(r)
        i = z3.Int(f"cidx!{core.uid()}")
        st.forall(i, z3.And(i >= 0, i < r), z3.Not(cond(i)), name="index-least")
        return r


def central_models(C):
    def m_index(X, st, fi, args, kwargs):
        x = X.B.num(args[1])
        if x is None:
            raise Unsupported("CentrallyBin.index of a non-number")
        g = args[2] if len(args) > 2 else kwargs.get("greater", VBool(True))
        gt = X.truth(st, g)
        out = []
        for s, isnan in X.branch(st, x.nan):
            if isnan:
                out.append(Res(s, VInt(C.n - 1)))
            else:
                out.append(Res(s, VInt(C.idx(s, x, gt))))
        return out

    def m_range(X, st, fi, args, kwargs):
        # contract of range(center): requires center == c(j) for a bin j; returns that bin's edges.  The
        # callers pass elements of self.bins, so j is read off the argument term (c(j) is a function application)
        x = X.B.num(args[1])
        j = centre_index(x)
        if j is None:
            raise Unsupported("CentrallyBin.range of a value that is not syntactically a centre of self")
        return [Res(st, VTuple([VFl(C.lo_edge(st, j)), VFl(C.up_edge(st, j))]))]

    return {CB + "index": m_index, CB + "range": m_range}


def centre_index(x):
    if x is None:
        return None
    t = x.r
    if z3.is_app(t) and t.num_args() == 1 and t.decl().name() == "center1.r":
        return t.arg(0)
    return None


def central_sel(st, C, lo, hi):
    lidx = C.idx(st, lo if lo is not None else NINF, True)
    hidx = C.idx(st, hi if hi is not None else PINF, False)
    return lidx, hidx


def index_central(P, prop, tier, out):
    range_central(P, prop, tier, out)
    fi = P.lookup_method("CentrallyBin", "index")
    for greater in (True, False):
        X = Exec(P, models.std_hooks())
        st = State()
        C = CentralCtx(st)
        x, wf = Fl.sym("x")
        st.add(wf)
        INPUTS["q.low" if greater else "q.high"] = x.r
        kr, kk = C.key(x)
        k = C.IDX(kr, kk, z3.BoolVal(greater))
        INPUTS["w.k"] = k
        for d in (-1, 0, 1, 2):
            INPUTS[f"w.c{d:+d}"] = C.c(st, k + d).r
        pre = st.fork()
        try:
            res = X.run(st, fi, [C.selfv, VFl(x), VBool(greater)])
        except Unsupported as e:
            out["out_of_reach"].append({"function": fi.qualname, "reason": str(e)})
            return
        add_function(out, fi, f"greater={greater}", paths=len(res))
        for i, r in enumerate(res):
            p = f"g{int(greater)}:p{i}"
            if r.exc is not None:
                prove(out, prop, fi.qualname, "ensures:no-raise", p + ":" + r.exc.cls, "contract", r.st, z3.BoolVal(False), tier)
                continue

            def g(s2, r=r):
                if not isinstance(r.v, VInt):
                    return z3.BoolVal(False)
                want = z3.If(x.nan, C.n - 1, C.idx(s2, x, greater))
                return r.v.t == want

            prove(out, prop, fi.qualname, "ensures:least-bin-whose-upper-edge-exceeds-x", p, "contract", r.st, g, tier, extra_index=[r.v.t, r.v.t + 1, r.v.t - 1] if isinstance(r.v, VInt) else ())
            prove(out, prop, fi.qualname, "ensures:frame", p, "contract", r.st, lambda s: frame_same(s, pre, C.selfv), tier)


def range_central(P, prop, tier, out):
    """CentrallyBin.range(c(j)) == (lower edge, upper edge) of bin j, for every bin j (index under contract)"""
    fi = P.lookup_method("CentrallyBin", "range")
    st = State()
    C = CentralCtx(st)
    ms = central_models(C)
    del ms[CB + "range"]
    X = Exec(P, models.std_hooks(call_models={**models.STD_MODELS, **ms}))
    j = z3.Int("j")
    st.add(j >= 0, j < C.n)
    st.add_index(j)
    pre = st.fork()
    try:
        res = X.run(st, fi, [C.selfv, VFl(C.c(st, j))])
    except Unsupported as e:
        out["out_of_reach"].append({"function": fi.qualname, "reason": str(e)})
        return
    add_function(out, fi, "contract", paths=len(res))
    for i, r in enumerate(res):
        p = f"p{i}"
        ex = [j, j + 1, j - 1]
        if r.exc is not None:
            prove(out, prop, fi.qualname, "ensures:no-raise", p + ":" + r.exc.cls, "contract", r.st, z3.BoolVal(False), tier, extra_index=ex)
            continue

        def g(s2, r=r):
            if not (isinstance(r.v, VTuple) and len(r.v.items) == 2):
                return z3.BoolVal(False)
            a, b = (X.B.num(t) for t in r.v.items)
            if a is None or b is None:
                return z3.BoolVal(False)
            return z3.And(a.same(C.lo_edge(s2, j)), b.same(C.up_edge(s2, j)))

        prove(out, prop, fi.qualname, "ensures:edges-of-the-bin-with-that-centre", p, "contract", r.st, g, tier, extra_index=ex)
        prove(out, prop, fi.qualname, "ensures:frame", p, "contract", r.st, lambda s: frame_same(s, pre, C.selfv), tier)


def acc_central(P, meth, variant, prop, tier, out):
    fi = P.lookup_method("CentrallyBin", meth)
    st = State()
    C = CentralCtx(st)
    x = None
    if variant == "xvalues":
        x, wf = Fl.sym("q.x")
        st.add(wf, z3.Not(x.nan))
        xs = st.alloc(CList([VFl(x)]), new=False)
        args = [C.selfv, NONE, NONE, xs]
        lo = hi = None
    else:
        lo, hi = query(st, variant)
        args = [C.selfv, fv(lo), fv(hi)]
    X = Exec(P, models.std_hooks(call_models={**models.STD_MODELS, **central_models(C)}))
    pre = st.fork()
    cover(out, prop, fi.qualname, "cover:query-satisfiable", variant, variant, st, tier)
    try:
        res = X.run(st, fi, args)
    except Unsupported as e:
        out["out_of_reach"].append({"function": fi.qualname, "reason": f"[{variant}] {e}"})
        return
    add_function(out, fi, variant, paths=len(res))
    for i, r in enumerate(res):
        p = f"{variant}:p{i}"
        if r.exc is not None:
            prove(out, prop, fi.qualname, "ensures:no-raise", p + ":" + r.exc.cls, variant, r.st, z3.BoolVal(False), tier)
            continue
        s = r.st

        def goal(s2, r=r):
            if variant == "xvalues":
                b = C.idx(s2, x, True)
                return arr_goal(s2, r.v, z3.IntVal(1), lambda j: Fl.fin(core.E(s2.view(C.child(s2, b).ref))), X, "xv")
            lidx, hidx = central_sel(s2, C, lo, hi)
            nb = hidx - lidx + 1
            if meth == "num_bins":
                return (r.v.t == nb) if isinstance(r.v, VInt) else z3.BoolVal(False)
            if meth == "bin_entries":
                return arr_goal(s2, r.v, nb, lambda j: Fl.fin(core.E(s2.view(C.child(s2, lidx + j).ref))), X, "ent")
            if meth == "bin_centers":
                return arr_goal(s2, r.v, nb, lambda j: C.c(s2, lidx + j), X, "cen")
            if meth == "bin_edges":
                return arr_goal(s2, r.v, nb + 1, lambda j: Fl.ite(j == 0, C.lo_edge(s2, lidx), C.up_edge(s2, lidx + j - 1)), X, "edge")
            return z3.BoolVal(False)

        clause = {"num_bins": "ensures:count-of-selected-run", "bin_entries": "ensures:entries-of-selected-run", "bin_centers": "ensures:centres-of-selected-run", "bin_edges": "ensures:edges-of-selected-run"}[meth]
        if variant == "xvalues":
            clause = "ensures:content-of-the-bin-fill-uses"
        prove(out, prop, fi.qualname, clause, p, variant, s, goal, tier)
        prove(out, prop, fi.qualname, "ensures:frame", p, variant, s, lambda s2: frame_same(s2, pre, C.selfv), tier)


def lemma_central(P, prop, tier, out):
    fn = "spec.accspec.CentrallyBin"
    for variant in VARIANTS:
        st = State()
        C = CentralCtx(st)
        lo, hi = query(st, variant)
        lidx, hidx = central_sel(st, C, lo, hi)
        nb = hidx - lidx + 1
        cover(out, prop, fn, "cover:query-with-nonempty-run", variant, variant, st, tier, extra=[nb >= 2])
        prove(out, prop, fn, "lemma:run-not-empty", variant, variant, st, z3.And(lidx >= 0, hidx <= C.n - 1, nb >= 1), tier, extra_index=[lidx, hidx])
        j = z3.Int("j")
        st2 = st.fork()
        st2.add(j >= 0, j < nb)
        st2.add_index(lidx + j)
        k = lidx + j
        g = z3.And(C.lo_edge(st2, k).lt(C.c(st2, k)), C.c(st2, k).lt(C.up_edge(st2, k)))
        prove(out, prop, fn, "lemma:centre-between-edges", variant, variant, st2, g, tier, extra_index=[k, k + 1, k - 1])
        # the reported edges of bin k bound exactly the data that fill (self.index(q)) sends to bin k
        x, wf = Fl.sym("x")
        st3 = st2.fork()
        st3.add(wf, z3.Not(x.nan), z3.Not(x.pinf))  # +inf is routed to the last bin, whose upper edge is +inf
        r = C.idx(st3, x, True)
        g = (z3.And(C.lo_edge(st3, k).le(x), x.lt(C.up_edge(st3, k)))) == (r == k)
        prove(out, prop, fn, "lemma:edges-bound-the-bin-fill-uses", variant, variant, st3, g, tier, extra_index=[k, k + 1, k - 1, r, r - 1, r + 1])
        if lo is not None:
            g = z3.And(C.lo_edge(st, lidx).le(lo), lo.lt(C.up_edge(st, lidx)))
            prove(out, prop, fn, "lemma:first-bin-holds-low", variant, variant, st, g, tier, extra_index=[lidx, lidx - 1, lidx + 1])
        if hi is not None:
            g = z3.And(C.lo_edge(st, hidx).lt(hi), hi.le(C.up_edge(st, hidx)))
            prove(out, prop, fn, "lemma:last-bin-reaches-high", variant, variant, st, g, tier, extra_index=[hidx, hidx - 1, hidx + 1])


# ------------------------------------------------------------------------------------------------ IrregularlyBin

IB = "histogrammar.primitives.irregularlybin.IrregularlyBin."


class IrrCtx:
    """thresholds e(0) = -inf < e(1) < ... < e(n-1) (finite), n >= 1; bin k is [e(k), e(k+1)), the last one
    [e(n-1), +inf).  lower(x) = the largest k with e(k) <= x (NaN: n-1);
    upper(x) = lower(x) - 1 when x is itself a threshold e(k), k >= 1 (a range ending on an edge excludes the bin
    that starts there), else lower(x)."""

    def __init__(self, st):
        self.selfv = schema.make_instance(st, "IrregularlyBin", 1)
        o = st.obj(self.selfv)
        self.bins = o.fields["bins"]
        self.n = st.obj(self.bins).length()
        self.LOW = z3.Function("Irr1.lower", z3.RealSort(), z3.IntSort(), z3.IntSort())
        INPUTS.clear()
        INPUTS.update({"class": z3.StringVal("IrregularlyBin"), "n": self.n, **{f"e{i}": self.e(st, z3.IntVal(i)).r for i in range(1, 6)}})

    def e(self, st, i):
        return st.obj(self.bins).get(i).items[0].fl

    def e_up(self, st, i):
        """upper edge list: e(i) for i < n, +inf at n"""
        return Fl.ite(i >= self.n, PINF, self.e(st, i))

    def child(self, st, i):
        return st.obj(self.bins).get(i).items[1]

    def lower(self, st, x):
        kr = z3.If(x.isfin(), x.r, z3.RealVal(0))
        kk = z3.If(x.pinf, z3.IntVal(1), z3.If(x.ninf, z3.IntVal(-1), z3.IntVal(0)))
        r = self.LOW(kr, kk)
        st.add(r >= 0, r <= self.n - 1, self.e(st, r).le(x))
        st.add_index(r)
        i = z3.Int(f"irr!{core.uid()}")
        st.forall(i, z3.And(i > r, i < self.n), x.lt(self.e(st, i)), name="lower-index-largest")
        return r

    def window(self, st, x):
        """ask a counter-model for the thresholds around the bin holding x (its far-away elements are junk)"""
        kr = z3.If(x.isfin(), x.r, z3.RealVal(0))
        kk = z3.If(x.pinf, z3.IntVal(1), z3.If(x.ninf, z3.IntVal(-1), z3.IntVal(0)))
        k = self.LOW(kr, kk)
        INPUTS["w.k"] = k
        for d in (-1, 0, 1, 2):
            INPUTS[f"w.e{d:+d}"] = self.e(st, k + d).r

    def upper(self, st, x):
        r = self.lower(st, x)
        return z3.If(z3.And(self.e(st, r).eq(x), r >= 1), r - 1, r)


def irr_models(C, only=("lower", "upper")):
    def m_lower(X, st, fi, args, kwargs):
        x = X.B.num(args[1])
        if x is None:
            raise Unsupported("_lower_index of a non-number")
        return [Res(s, VInt(C.n - 1 if isnan else C.lower(s, x))) for s, isnan in X.branch(st, x.nan)]

    def m_upper(X, st, fi, args, kwargs):
        x = X.B.num(args[1])
        if x is None:
            raise Unsupported("_upper_index of a non-number")
        return [Res(s, VInt(C.n - 1 if isnan else C.upper(s, x))) for s, isnan in X.branch(st, x.nan)]

    ms = {}
    if "lower" in only:
        ms[IB + "_lower_index"] = m_lower
    if "upper" in only:
        ms[IB + "_upper_index"] = m_upper
    return ms


def irr_sel(st, C, lo, hi):
    return C.lower(st, lo if lo is not None else NINF), C.upper(st, hi if hi is not None else PINF)


def index_irr(P, prop, tier, out):
    for name in ("_lower_index", "_upper_index"):
        fi = P.lookup_method("IrregularlyBin", name)
        X = Exec(P, models.std_hooks())
        st = State()
        C = IrrCtx(st)
        x, wf = Fl.sym("x")
        st.add(wf)
        INPUTS["q.low" if name == "_lower_index" else "q.high"] = x.r
        C.window(st, x)
        pre = st.fork()
        try:
            res = X.run(st, fi, [C.selfv, VFl(x)])
        except Unsupported as e:
            out["out_of_reach"].append({"function": fi.qualname, "reason": str(e)})
            continue
        add_function(out, fi, "contract", paths=len(res))
        for i, r in enumerate(res):
            p = f"p{i}"
            if r.exc is not None:
                prove(out, prop, fi.qualname, "ensures:no-raise", p + ":" + r.exc.cls, "contract", r.st, z3.BoolVal(False), tier)
                continue

            def g(s2, r=r, name=name):
                if not isinstance(r.v, VInt):
                    return z3.BoolVal(False)
                want = C.lower(s2, x) if name == "_lower_index" else C.upper(s2, x)
                return r.v.t == z3.If(x.nan, C.n - 1, want)

            ex = [r.v.t, r.v.t + 1, r.v.t - 1] if isinstance(r.v, VInt) else []
            clause = "ensures:largest-threshold-not-above-x" if name == "_lower_index" else "ensures:range-ending-on-a-threshold-excludes-the-next-bin"
            prove(out, prop, fi.qualname, clause, p, "contract", r.st, g, tier, extra_index=ex)
            prove(out, prop, fi.qualname, "ensures:frame", p, "contract", r.st, lambda s: frame_same(s, pre, C.selfv), tier)


def acc_irr(P, meth, variant, prop, tier, out):
    fi = P.lookup_method("IrregularlyBin", meth)
    st = State()
    C = IrrCtx(st)
    x = None
    if variant == "xvalues":
        x, wf = Fl.sym("q.x")
        st.add(wf, z3.Not(x.nan))
        xs = st.alloc(CList([VFl(x)]), new=False)
        args = [C.selfv, NONE, NONE, xs]
        lo = hi = None
    else:
        lo, hi = query(st, variant)
        args = [C.selfv, fv(lo), fv(hi)]
    X = Exec(P, models.std_hooks(call_models={**models.STD_MODELS, **irr_models(C)}))
    pre = st.fork()
    cover(out, prop, fi.qualname, "cover:query-satisfiable", variant, variant, st, tier)
    try:
        res = X.run(st, fi, args)
    except Unsupported as e:
        out["out_of_reach"].append({"function": fi.qualname, "reason": f"[{variant}] {e}"})
        return
    add_function(out, fi, variant, paths=len(res))
    two = Fl.const(2.0)
    for i, r in enumerate(res):
        p = f"{variant}:p{i}"
        if r.exc is not None:
            prove(out, prop, fi.qualname, "ensures:no-raise", p + ":" + r.exc.cls, variant, r.st, z3.BoolVal(False), tier)
            continue

        def goal(s2, r=r):
            if variant == "xvalues":
                b = C.lower(s2, x)
                return arr_goal(s2, r.v, z3.IntVal(1), lambda j: Fl.fin(core.E(s2.view(C.child(s2, b).ref))), X, "xv")
            lidx, hidx = irr_sel(s2, C, lo, hi)
            nb = hidx - lidx + 1
            if meth == "num_bins":
                return (r.v.t == nb) if isinstance(r.v, VInt) else z3.BoolVal(False)
            if meth == "bin_entries":
                return arr_goal(s2, r.v, nb, lambda j: Fl.fin(core.E(s2.view(C.child(s2, lidx + j).ref))), X, "ent")
            if meth == "bin_edges":
                return arr_goal(s2, r.v, nb + 1, lambda j: C.e_up(s2, lidx + j), X, "edge")
            if meth == "bin_centers":
                return arr_goal(s2, r.v, nb, lambda j: NP.np_div(C.e_up(s2, lidx + j).add(C.e_up(s2, lidx + j + 1)), two), X, "cen")
            return z3.BoolVal(False)

        clause = {"num_bins": "ensures:count-of-selected-run", "bin_entries": "ensures:entries-of-selected-run", "bin_centers": "ensures:centres-of-selected-run", "bin_edges": "ensures:edges-of-selected-run"}[meth]
        if variant == "xvalues":
            clause = "ensures:content-of-the-bin-fill-uses"
        prove(out, prop, fi.qualname, clause, p, variant, r.st, goal, tier)
        prove(out, prop, fi.qualname, "ensures:frame", p, variant, r.st, lambda s2: frame_same(s2, pre, C.selfv), tier)


def lemma_irr(P, prop, tier, out):
    fn = "spec.accspec.IrregularlyBin"
    two = Fl.const(2.0)
    for variant in VARIANTS:
        st = State()
        C = IrrCtx(st)
        lo, hi = query(st, variant)
        lidx, hidx = irr_sel(st, C, lo, hi)
        nb = hidx - lidx + 1
        cover(out, prop, fn, "cover:query-with-nonempty-run", variant, variant, st, tier, extra=[nb >= 2])
        ex = [lidx, hidx, lidx + 1, hidx + 1, lidx - 1, hidx - 1]
        prove(out, prop, fn, "lemma:run-not-empty", variant, variant, st, z3.And(lidx >= 0, hidx <= C.n - 1, nb >= 1), tier, extra_index=ex)
        j = z3.Int("j")
        st2 = st.fork()
        st2.add(j >= 0, j < nb)
        k = lidx + j
        lo_e, up_e = C.e_up(st2, k), C.e_up(st2, k + 1)
        c = NP.np_div(lo_e.add(up_e), two)
        g = z3.And(lo_e.lt(up_e), z3.Implies(z3.Or(lo_e.isfin(), up_e.isfin()), z3.And(lo_e.le(c), c.le(up_e))))
        prove(out, prop, fn, "lemma:edges-increase-and-centre-between-them", variant, variant, st2, g, tier, extra_index=[k, k + 1, k - 1])
        x, wf = Fl.sym("x")
        st3 = st2.fork()
        st3.add(wf, z3.Not(x.nan), z3.Not(x.pinf))
        r = C.lower(st3, x)
        g = z3.And(lo_e.le(x), x.lt(up_e)) == (r == k)
        prove(out, prop, fn, "lemma:edges-bound-the-bin-fill-uses", variant, variant, st3, g, tier, extra_index=[k, k + 1, k - 1, r, r + 1, r - 1])
        if lo is not None:
            g = z3.And(C.e_up(st, lidx).le(lo), lo.lt(C.e_up(st, lidx + 1)))
            prove(out, prop, fn, "lemma:first-bin-holds-low", variant, variant, st, g, tier, extra_index=ex)
        if hi is not None:
            g = z3.And(C.e_up(st, hidx).lt(hi), hi.le(C.e_up(st, hidx + 1)))
            prove(out, prop, fn, "lemma:last-bin-reaches-high", variant, variant, st, g, tier, extra_index=ex)


# ------------------------------------------------------------------------------------------------ Categorize


def acc_cat(P, meth, variant, prop, tier, out):
    """Categorize: labels, entries and mpv agree with the bins.  The arrays are in the dict's enumeration order
    (the same dict in the same state enumerates in the same order: labels[j] and entries[j] belong together)."""
    from .builtins_model import VKey, denum

    name, _, form = meth.partition(":")
    fi = P.lookup_method("Categorize", name)
    st = State()
    selfv = schema.make_instance(st, "Categorize", 1, opts={"catkeys": "str"})
    o = st.obj(selfv)
    bins = o.fields["bins"]
    d = st.obj(bins)
    n = d.length()
    did = z3.IntVal(d.did)
    INPUTS.clear()
    X = Exec(P, models.std_hooks())
    args = [selfv]
    lab = None
    if form == "labels":
        lab = z3.Const("q.label", core.StrS)
        args.append(st.alloc(CList([core.VStr(lab)]), new=False))
    if name == "mpv":
        st.add(n > 0)  # mpv of an unfilled Categorize is max() of an empty sequence
    pre = st.fork()
    cover(out, prop, fi.qualname, "cover:query-satisfiable", variant, variant, st, tier, extra=[n >= 2])
    try:
        res = X.run(st, fi, args)
    except Unsupported as e:
        out["out_of_reach"].append({"function": fi.qualname, "reason": f"[{meth}] {e}"})
        return
    add_function(out, fi, meth, paths=len(res))

    def E_at(s, k):
        return core.E(s.view(s.obj(bins).val(k).ref))

    for i, r in enumerate(res):
        p = f"{meth}:p{i}"
        if r.exc is not None:
            prove(out, prop, fi.qualname, "ensures:no-raise", p + ":" + r.exc.cls, variant, r.st, z3.BoolVal(False), tier)
            continue

        def goal(s2, r=r):
            j = sk("cat")
            s2.add_index(j)
            if name == "n_bins":
                return (r.v.t == n) if isinstance(r.v, VInt) else z3.BoolVal(False)
            if name == "mpv":
                if not isinstance(r.v, VKey):
                    return z3.BoolVal(False)
                k = z3.Const("sk.key", core.Key)
                s2.add_index(k)
                return z3.And(d.present(r.v.t), z3.Implies(d.present(k), E_at(s2, k) <= E_at(s2, r.v.t)))
            if not NP.is_arr(s2, r.v):
                return z3.BoolVal(False)
            a = s2.heap[r.v.oid]
            e = a.elem(j)
            if form == "labels":
                kk = core.KStr(lab)
                e0 = X.B.num(a.elem(z3.IntVal(0)))
                want = Fl.ite(d.present(kk), Fl.fin(E_at(s2, kk)), Fl.const(0.0))
                return z3.And(a.length == 1, e0.same(want)) if e0 is not None else z3.BoolVal(False)
            inr = z3.And(j >= 0, j < n)
            if name == "bin_entries":
                f = X.B.num(e)
                return z3.And(a.length == n, z3.Implies(inr, f.same(Fl.fin(E_at(s2, denum(did, j)))))) if f is not None else z3.BoolVal(False)
            if name in ("bin_labels", "bin_centers"):
                return z3.And(a.length == n, z3.Implies(inr, e.t == denum(did, j))) if isinstance(e, VKey) else z3.BoolVal(False)
            return z3.BoolVal(False)

        clause = {
            "n_bins": "ensures:number-of-bins",
            "mpv": "ensures:label-of-a-fullest-bin",
            "bin_entries": "ensures:entries-in-enumeration-order" if not form else "ensures:entries-of-the-requested-labels",
            "bin_labels": "ensures:labels-in-enumeration-order",
            "bin_centers": "ensures:labels-in-enumeration-order",
        }[name]
        prove(out, prop, fi.qualname, clause, p, variant, r.st, goal, tier)
        prove(out, prop, fi.qualname, "ensures:frame", p, variant, r.st, lambda s2: frame_same(s2, pre, selfv), tier)


# ------------------------------------------------------------------------------------------------ mpv (numeric classes)


def mpv_numeric(P, K, prop, tier, out):
    """mpv of a filled histogram is the centre of a bin holding the maximum (the first such bin): the property
    composes bin_entries(), bin_centers() and max(enumerate(...), key=...) (assumed contract: first maximum)"""
    fi = P.lookup_method(K, "mpv")
    st = State()
    half = z3.RealVal("1/2")
    if K == "Bin":
        selfv, T = bin_setup(st)
        ms = bin_models(T)
        values = st.obj(selfv).fields["values"]
        n = T.n
        entry = lambda s, j: core.E(s.view(s.obj(values).get(j).ref))
        centre = lambda s, j: Fl.fin(T.L + T.delta * (z3.ToReal(j) + half))
        base = z3.IntVal(0)
    elif K == "SparselyBin":
        C = sparse_setup(st)
        selfv, T = C.selfv, C.T
        ms = sparse_models(C, (None, None))
        st.add(C.n > 0)
        n = C.mx - C.mn + 1
        base = C.mn
        entry = lambda s, j: z3.If(C.present(core.KInt(C.mn + j)), core.E(s.view(s.obj(C.bins).val(core.KInt(C.mn + j)).ref)), z3.RealVal(0))
        centre = lambda s, j: Fl.fin(T.O + T.W * (z3.ToReal(C.mn + j) + half))
    elif K == "CentrallyBin":
        C = CentralCtx(st)
        selfv = C.selfv
        ms = central_models(C)
        n = C.n
        entry = lambda s, j: core.E(s.view(C.child(s, j).ref))
        centre = lambda s, j: C.c(s, j)
    else:
        C = IrrCtx(st)
        selfv = C.selfv
        ms = irr_models(C)
        n = C.n
        two = Fl.const(2.0)
        entry = lambda s, j: core.E(s.view(C.child(s, j).ref))
        centre = lambda s, j: NP.np_div(C.e_up(s, j).add(C.e_up(s, j + 1)), two)
    X = Exec(P, models.std_hooks(call_models={**models.STD_MODELS, **ms}))
    pre = st.fork()
    cover(out, prop, fi.qualname, "cover:filled-histogram", "p0", "full", st, tier)
    try:
        res = X.run(st, fi, [selfv])
    except Unsupported as e:
        out["out_of_reach"].append({"function": fi.qualname, "reason": str(e)})
        return
    add_function(out, fi, "full", paths=len(res))
    for i, r in enumerate(res):
        p = f"p{i}"
        if r.exc is not None:
            prove(out, prop, fi.qualname, "ensures:no-raise", p + ":" + r.exc.cls, "full", r.st, z3.BoolVal(False), tier)
            continue
        am = [t for t in r.st.index_terms if z3.is_const(t) and t.sort() == z3.IntSort() and t.decl().name().startswith("argmax")]

        def goal(s2, r=r, am=am):
            f = X.B.num(r.v)
            if f is None or len(am) != 1:
                return z3.BoolVal(False)
            a = am[0]
            j = sk("mpv")
            s2.add_index(j)
            hints_idx = [a, j]
            for t in hints_idx:
                s2.add_index(t)
            return z3.And(a >= 0, a < n, f.same(centre(s2, a)), z3.Implies(z3.And(j >= 0, j < n), entry(s2, j) <= entry(s2, a)), z3.Implies(z3.And(j >= 0, j < a), entry(s2, j) < entry(s2, a)))

        hints = step_hints(T.delta if K == "Bin" else T.W, base, am[0]) if K in ("Bin", "SparselyBin") and len(am) == 1 else ()
        prove(out, prop, fi.qualname, "ensures:centre-of-the-first-fullest-bin", p, "full", r.st, goal, tier, hints=hints)
        prove(out, prop, fi.qualname, "ensures:frame", p, "full", r.st, lambda s2: frame_same(s2, pre, selfv), tier)
