"""C05 / C02: the routing specification of the binning primitives is a partition.

spec/binspec.selectors says which slot of a node receives a datum with quantity q.  The view clause of `fill`
(C02) proves that each slot moves by the weight iff its selector holds.  Here: for every q the selectors of
Bin, CentrallyBin and IrregularlyBin are
  exclusive   no two slots (bins, underflow, overflow, nanflow) are selected together;
  exhaustive  one is selected (the witness bin is floor((q-low)/delta), the least bin whose upper edge exceeds q,
              the largest threshold not above q).
With the Lean theorem HgvMeta.sum_routed (premises: these two lemmas + the pointwise clause) the total of the
bins and flows moves by exactly the weight, i.e. "every datum lands in exactly one bin" and the sum invariant
of C05 is preserved by fill.  (SparselyBin / Categorize select the single key k == key(q): exclusive and
exhaustive by the form of the selector.)  The composition of the three facts is not mechanised (T-SUM).
"""

import z3

from . import core, schema, smt
from .core import State
from .extra import record
from .fl import Fl

import sys, os

sys.path.insert(0, os.path.dirname(os.path.dirname(os.path.abspath(__file__))))
from spec import binspec  # noqa: E402

CLASSES = ("Bin", "CentrallyBin", "IrregularlyBin")


def tasks_for(prop, tier):
    if prop not in ("C05",):
        return []
    return [("part", K) for K in CLASSES]


def prove(out, prop, fn, clause, path, st, goal, tier, extra_index=()):
    s = st.fork()
    vc = smt.build_vc(f"{fn}/{clause}#{path}", s, goal, extra_index=extra_index)
    return record(out, prop, fn, clause, path, "spec", vc, tier)


def run_task(P, task, prop, tier, out):
    from . import c13
    from .contracts import view_of

    K = task[1]
    fn = f"spec.binspec.selectors.{K}"
    st = State()
    if K == "Bin":
        selfv, T = c13.bin_setup(st)
    elif K == "CentrallyBin":
        C = c13.CentralCtx(st)
        selfv = C.selfv
    else:
        C = c13.IrrCtx(st)
        selfv = C.selfv
    a = view_of(st, selfv, K)
    q, wf = Fl.sym("q")
    st.add(wf)
    sel = binspec.selectors(st, K, a, q)
    fam = sel["values"] if K == "Bin" else sel["bins"]
    n = (a["values"] if K == "Bin" else a["bins"]).length
    flows = {f: c for f, c in sel.items() if not callable(c)}
    i, j = z3.Int("i"), z3.Int("j")
    inr = lambda k: z3.And(k >= 0, k < n)
    # vacuity guard
    c13.cover(out, prop, fn, "cover:a-bin-is-selected", "p0", "spec", st, tier, extra=[inr(i), fam(i)])
    # exclusive
    gs = [z3.Implies(z3.And(inr(i), inr(j), fam(i), fam(j)), i == j)]
    names = sorted(flows)
    for x in range(len(names)):
        gs.append(z3.Implies(z3.And(inr(i), fam(i)), z3.Not(flows[names[x]])))
        for y in range(x + 1, len(names)):
            gs.append(z3.Not(z3.And(flows[names[x]], flows[names[y]])))
    ex = [i, j, i + 1, j + 1, i - 1, j - 1]
    prove(out, prop, fn, "lemma:routing-exclusive", "p0", st, z3.And(gs), tier, extra_index=ex)
    # exhaustive, with the witness bin
    s2 = st.fork()
    if K == "Bin":
        s2.add(*T.pos_facts(q.r))
        w = z3.ToInt(T.pos(q.r))
        # the selectors use their own width variable: it is the same number (delta * n == high - low)
        s2.add(*T.cmp_facts(q.r, w), *T.cmp_facts(q.r, w + 1))
    elif K == "CentrallyBin":
        w = z3.If(q.nan, z3.IntVal(0), C.idx(s2, Fl.ite(q.nan, Fl.const(0.0), q), True))
    else:
        w = z3.If(q.nan, z3.IntVal(0), C.lower(s2, Fl.ite(q.nan, Fl.const(0.0), q)))
    g = z3.Or(list(flows.values()) + [z3.And(inr(w), fam(w))])
    prove(out, prop, fn, "lemma:routing-exhaustive", "p0", s2, g, tier, extra_index=[w, w + 1, w - 1])
    out.setdefault("assumptions", []).append(
        "T-SUM: 'the entries of all bins and flows sum to the node's entries' is preserved by fill because (i) the view clause of fill moves each slot by the weight iff its selector holds (C02), (ii) the selectors are exclusive and exhaustive (lemma:routing-*), (iii) HgvMeta.sum_routed (Lean); by + through sum_add, by * through sum_scale, by zero() trivially.  The three facts are proved separately; their composition is by hand"
    )
