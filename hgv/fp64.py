"""fp64 obligations (DESIGN §2.2): bit-precise IEEE-754 binary64 verification of the bin-index
computations, generated from the real AST of the routing functions and discharged by cvc5 (QF_FP).

Translated subset (anything else makes the function out of reach): straight-line float code made of
`if/return/assign`, + - * / on floats (RNE), comparisons, and/or/not, math.isnan, math.floor, int(),
min/max of two numbers, integer constants, self.<field> reads.  `self.num` (an int < 2^31) enters
float arithmetic as its exact double.  Python's exact int/float comparison is encoded exactly for the
constants +-(2^63-1).
"""

import ast
import os
import re
import subprocess
import tempfile
import time

from . import REPO, VERIF

F64 = "(_ FloatingPoint 11 53)"


class OutOfReach(Exception):
    pass


def fp_const(x):
    """bit-exact Float64 literal"""
    import struct

    if isinstance(x, bool):
        x = int(x)
    x = float(x)
    if x != x:
        return "(_ NaN 11 53)"
    bits = int.from_bytes(struct.pack(">d", x), "big")
    b = f"{bits:064b}"
    return f"(fp #b{b[0]} #b{b[1:12]} #b{b[12:]})"


def fp_real(i):
    return fp_const(float(i))


class Val:
    """kind: 'f' float term, 'b' bool term, 'i' integer-valued float term (result of floor/int), 'ci' python int constant"""

    def __init__(self, kind, t, py=None):
        self.kind, self.t, self.py = kind, t, py


class Translator:
    def __init__(self, P, cls, fields, int_fields=()):
        self.P = P
        self.cls = cls
        self.fields = fields  # attribute name -> smt var
        self.int_fields = set(int_fields)
        self.side = []  # conditions under which an exception would be raised: (cond term, exception)

    def const_of(self, name, modname):
        mod = self.P.modules[modname]
        node = mod.constants.get(name)
        if node is None:
            raise OutOfReach(f"name {name}")
        return ast.literal_eval(node)

    def asf(self, v):
        if v.kind == "ci":
            return fp_const(v.py)
        if v.kind in ("f", "i"):
            return v.t
        raise OutOfReach("float expected")

    def expr(self, n, env, modname):
        if isinstance(n, ast.Constant):
            if isinstance(n.value, bool):
                return Val("b", "true" if n.value else "false")
            if isinstance(n.value, int):
                return Val("ci", None, n.value)
            if isinstance(n.value, float):
                return Val("f", fp_const(n.value))
            raise OutOfReach("constant")
        if isinstance(n, ast.Name):
            if n.id in env:
                return env[n.id]
            c = self.const_of(n.id, modname)
            return Val("ci", None, c) if isinstance(c, int) else Val("f", fp_const(c))
        if isinstance(n, ast.Attribute) and isinstance(n.value, ast.Name) and n.value.id == "self":
            if n.attr in self.fields:
                return Val("i" if n.attr in self.int_fields else "f", self.fields[n.attr])
            # property / method-less attribute: inline a property getter
            fi = self.P.lookup_method(self.cls, n.attr)
            if fi is not None and fi.is_property:
                return self.call_fn(fi, [], modname=fi.module)
            raise OutOfReach(f"self.{n.attr}")
        if isinstance(n, ast.UnaryOp):
            v = self.expr(n.operand, env, modname)
            if isinstance(n.op, ast.Not):
                return Val("b", f"(not {self.asb(v)})")
            if isinstance(n.op, ast.USub):
                if v.kind == "ci":
                    return Val("ci", None, -v.py)
                return Val("f", f"(fp.neg {self.asf(v)})")
        if isinstance(n, ast.BinOp):
            a, b = self.expr(n.left, env, modname), self.expr(n.right, env, modname)
            if a.kind == "ci" and b.kind == "ci":
                op = {ast.Add: lambda x, y: x + y, ast.Sub: lambda x, y: x - y, ast.Mult: lambda x, y: x * y, ast.Pow: lambda x, y: x**y}.get(type(n.op))
                if op:
                    return Val("ci", None, op(a.py, b.py))
            opn = {ast.Add: "fp.add", ast.Sub: "fp.sub", ast.Mult: "fp.mul", ast.Div: "fp.div"}.get(type(n.op))
            if opn is None:
                raise OutOfReach("operator")
            fa, fb = self.asf(a), self.asf(b)
            if opn == "fp.div":
                self.side.append((f"(fp.isZero {fb})", "ZeroDivisionError"))
            return Val("f", f"({opn} RNE {fa} {fb})")
        if isinstance(n, ast.BoolOp):
            vs = [self.asb(self.expr(x, env, modname)) for x in n.values]
            return Val("b", f"({'and' if isinstance(n.op, ast.And) else 'or'} {' '.join(vs)})")
        if isinstance(n, ast.Compare) and len(n.ops) == 1:
            a, b = self.expr(n.left, env, modname), self.expr(n.comparators[0], env, modname)
            return Val("b", self.compare(n.ops[0], a, b))
        if isinstance(n, ast.Call):
            fn = ast.unparse(n.func)
            if fn == "len" and ast.unparse(n.args[0]) == "self.values" and "num" in self.fields:
                return Val("i", self.fields["num"])
            args = [self.expr(x, env, modname) for x in n.args]
            if fn == "math.isnan":
                return Val("b", f"(fp.isNaN {self.asf(args[0])})")
            if fn == "math.floor":
                x = self.asf(args[0])
                self.side.append((f"(fp.isNaN {x})", "ValueError"))
                self.side.append((f"(fp.isInfinite {x})", "OverflowError"))
                return Val("i", f"(fp.roundToIntegral RTN {x})")
            if fn == "int":
                if args[0].kind in ("i", "ci"):
                    return args[0]
                x = self.asf(args[0])
                self.side.append((f"(fp.isNaN {x})", "ValueError"))
                self.side.append((f"(fp.isInfinite {x})", "OverflowError"))
                return Val("i", f"(fp.roundToIntegral RTZ {x})")
            if fn in ("min", "max") and len(args) == 2:
                a, b = self.asf(args[0]), self.asf(args[1])
                c = f"(fp.lt {b} {a})" if fn == "min" else f"(fp.gt {b} {a})"
                kind = "i" if all(x.kind in ("i", "ci") for x in args) else "f"
                return Val(kind, f"(ite {c} {b} {a})")
            if fn == "len" and ast.unparse(n.args[0]) == "self.values" and "num" in self.fields:
                return Val("i", self.fields["num"])
            if fn.startswith("self."):
                fi = self.P.lookup_method(self.cls, fn[5:])
                if fi is not None:
                    return self.call_fn(fi, args, modname=fi.module)
            raise OutOfReach(f"call {fn}")
        raise OutOfReach(type(n).__name__)

    def asb(self, v):
        if v.kind == "b":
            return v.t
        raise OutOfReach("bool expected")

    def compare(self, op, a, b):
        name = {ast.Lt: "fp.lt", ast.LtE: "fp.leq", ast.Gt: "fp.gt", ast.GtE: "fp.geq", ast.Eq: "fp.eq"}.get(type(op))
        if isinstance(op, ast.NotEq):
            return f"(not {self.compare(ast.Eq(), a, b)})"
        if name is None:
            raise OutOfReach("comparison")
        # exact comparison of a float with a huge python int (not representable): Python compares exactly
        for x, y, flip in ((a, b, False), (b, a, True)):
            if y.kind == "ci" and abs(y.py) >= 2**53 and float(y.py) != y.py:
                c = y.py
                lo = fp_const(float(c)) if float(c) < c else fp_const(prev_double(float(c)))
                hi = fp_const(float(c)) if float(c) > c else fp_const(next_double(float(c)))
                xf = self.asf(x)
                opn = name if not flip else {"fp.lt": "fp.gt", "fp.leq": "fp.geq", "fp.gt": "fp.lt", "fp.geq": "fp.leq", "fp.eq": "fp.eq"}[name]
                # x < c  <=> x <= lo ; x <= c <=> x <= lo ; x > c <=> x >= hi ; x >= c <=> x >= hi (c strictly between lo and hi)
                if opn in ("fp.lt", "fp.leq"):
                    return f"(fp.leq {xf} {lo})"
                if opn in ("fp.gt", "fp.geq"):
                    return f"(fp.geq {xf} {hi})"
                return "false"
        return f"({name} {self.asf(a)} {self.asf(b)})"

    def call_fn(self, fi, args, modname):
        params = [p.arg for p in fi.node.args.args if p.arg != "self"]
        env = dict(zip(params, args))
        return self.block(fi.node.body, env, modname)

    def block(self, stmts, env, modname):
        """-> Val of the returned value (ite over the paths)"""
        if not stmts:
            raise OutOfReach("fall-through without return")
        s, rest = stmts[0], stmts[1:]
        if isinstance(s, ast.Expr) and isinstance(s.value, ast.Constant):
            return self.block(rest, env, modname)
        if isinstance(s, ast.Return):
            return self.expr(s.value, env, modname)
        if isinstance(s, ast.Assign) and len(s.targets) == 1 and isinstance(s.targets[0], ast.Name):
            env = dict(env)
            env[s.targets[0].id] = self.expr(s.value, env, modname)
            return self.block(rest, env, modname)
        if isinstance(s, ast.If):
            c = self.asb(self.expr(s.test, env, modname))
            n0 = len(self.side)
            a = self.block(list(s.body) + (rest if not ends_in_return(s.body) else []), env, modname)
            for i in range(n0, len(self.side)):
                self.side[i] = (f"(and {c} {self.side[i][0]})", self.side[i][1])
            n1 = len(self.side)
            b = self.block(list(s.orelse) + rest, env, modname)
            for i in range(n1, len(self.side)):
                self.side[i] = (f"(and (not {c}) {self.side[i][0]})", self.side[i][1])
            if a.kind == "ci":
                a = Val("i", fp_const(a.py))
            if b.kind == "ci":
                b = Val("i", fp_const(b.py))
            kind = a.kind if a.kind == b.kind else "f"
            return Val(kind, f"(ite {c} {a.t} {b.t})")
        raise OutOfReach(f"statement {type(s).__name__}")


def ends_in_return(body):
    return bool(body) and isinstance(body[-1], (ast.Return, ast.Raise))


def next_double(x):
    import math

    return math.nextafter(x, float("inf"))


def prev_double(x):
    import math

    return math.nextafter(x, float("-inf"))


def run_cvc5(script, timeout_s):
    with tempfile.NamedTemporaryFile("w", suffix=".smt2", delete=False, dir=os.environ.get("HGV_TMP", "/tmp")) as f:
        f.write(script)
        path = f.name
    t0 = time.time()
    try:
        p = subprocess.run(["/usr/bin/cvc5", f"--tlimit={timeout_s * 1000}", "--produce-models", path], capture_output=True, text=True, timeout=timeout_s + 15)
        out = p.stdout
    except subprocess.TimeoutExpired:
        out = "unknown"
    finally:
        os.unlink(path)
    ans = out.strip().splitlines()[0].strip() if out.strip() else "unknown"
    return ans, out, time.time() - t0


def parse_model(out, names):
    """Float64 values of the named constants from a cvc5 model"""
    vals = {}
    for nm in names:
        m = re.search(r"\(define-fun " + re.escape(nm) + r" \(\) \(_ FloatingPoint 11 53\) \(fp #b([01]) #b([01]{11}) #b([01]{52})\)", out)
        if m:
            import struct

            bits = int(m.group(1) + m.group(2) + m.group(3), 2)
            vals[nm] = struct.unpack(">d", bits.to_bytes(8, "big"))[0]
    return vals


def tasks_for(prop, tier):
    if prop in ("C05", "C13"):
        return [("fp64", "Bin.bin"), ("fp64", "SparselyBin.bin")]
    return []


MAG = 970  # |low|, |high|, |x - ...| kept below 2^MAG so that num * (x - low) cannot overflow (stated bound)


def header(vars_):
    return "(set-logic QF_FP)\n" + "".join(f"(declare-const {v} {F64})\n" for v in vars_)


def finite_bounded(v, exp=MAG):
    big = f"(fp #b0 #b{(1023 + exp):011b} #b{'0' * 52})"
    return f"(and (not (fp.isNaN {v})) (not (fp.isInfinite {v})) (fp.leq (fp.abs {v}) {big}))"


def run_task(P, task, prop, tier, out):
    from .extra import add_function

    which = task[1]
    budget = 60 if tier == "quick" else 300
    if which == "Bin.bin":
        fi = P.lookup_method("Bin", "bin")
        add_function(out, fi, "fp64")
        for aux in ("under", "over", "nan", "num"):
            add_function(out, P.lookup_method("Bin", aux), "fp64")
        tr = Translator(P, "Bin", {"low": "low", "high": "high", "num": "numf"}, int_fields=["num"])
        try:
            res = tr.call_fn(fi, [Val("f", "x")], fi.module)
        except OutOfReach as e:
            out["out_of_reach"].append({"function": fi.qualname, "reason": f"fp64 translator: {e}"})
            return
        two31 = fp_const(float(2**31))
        pre = (
            f"(assert {finite_bounded('low')})\n(assert {finite_bounded('high')})\n(assert (fp.lt low high))\n"
            f"(assert (not (fp.isNaN numf)))\n(assert (fp.eq (fp.roundToIntegral RTZ numf) numf))\n"
            f"(assert (fp.geq numf {fp_const(1.0)}))\n(assert (fp.lt numf {two31}))\n"
            f"(assert (not (fp.isNaN x)))\n(assert (fp.geq x low))\n(assert (fp.lt x high))\n"
        )
        idx = res.t
        clauses = [
            ("ensures:index-below-num", f"(fp.lt {idx} numf)"),
            ("ensures:index-nonnegative", f"(fp.geq {idx} {fp_const(0.0)})"),
        ]
        for cond, exc in tr.side:
            clauses.append((f"ensures:no-{exc}", f"(not {cond})"))
        seen = set()
        for cname, goal in clauses:
            if cname in seen:
                cname = cname + "-2"
            seen.add(cname)
            script = header(["x", "low", "high", "numf"]) + pre + f"(assert (not {goal}))\n(check-sat)\n(get-model)\n"
            ans, raw, secs = run_cvc5(script, budget)
            rec = {
                "obligation": f"{prop}/{fi.qualname}/fp64:{cname}",
                "function": fi.qualname,
                "clause": "fp64:" + cname,
                "path": "p0",
                "variant": "fp64",
                "verdict": ans if ans in ("sat", "unsat") else "unknown",
                "backend": "cvc5-1.0.3 QF_FP (Float64, RNE)",
                "seconds": round(secs, 2),
                "hyps": 10,
                "instances": 0,
                "reason": None if ans in ("sat", "unsat") else raw[:200],
                "fp64": True,
            }
            if ans == "sat":
                rec["model"] = parse_model(raw, ["x", "low", "high", "numf"])
                rec["model_text"] = raw[:1500]
            out["records"].append(rec)
        out.setdefault("notes", []).append(f"fp64 obligations of Bin.bin assume |low|, |high| <= 2^{MAG} and 1 <= num < 2^31")
    elif which == "SparselyBin.bin":
        fi = P.lookup_method("SparselyBin", "bin")
        add_function(out, fi, "fp64")
        add_function(out, P.lookup_method("SparselyBin", "nan"), "fp64")
        tr = Translator(P, "SparselyBin", {"origin": "origin", "binWidth": "bw"})
        try:
            res = tr.call_fn(fi, [Val("f", "x")], fi.module)
        except OutOfReach as e:
            out["out_of_reach"].append({"function": fi.qualname, "reason": f"fp64 translator: {e}"})
            return
        pre = (
            f"(assert {finite_bounded('origin', 1023)})\n(assert {finite_bounded('bw', 1023)})\n(assert (fp.gt bw {fp_const(0.0)}))\n"
            f"(assert (not (fp.isNaN x)))\n"
        )
        M = float(2**63)
        clauses = [("ensures:index-in-int64-range", f"(and (fp.geq {res.t} {fp_const(-M)}) (fp.leq {res.t} {fp_const(M)}))")]
        for cond, exc in tr.side:
            clauses.append((f"ensures:no-{exc}", f"(not {cond})"))
        seen = set()
        for cname, goal in clauses:
            while cname in seen:
                cname = cname + "'"
            seen.add(cname)
            script = header(["x", "origin", "bw"]) + pre + f"(assert (not {goal}))\n(check-sat)\n(get-model)\n"
            ans, raw, secs = run_cvc5(script, budget)
            rec = {
                "obligation": f"{prop}/{fi.qualname}/fp64:{cname}",
                "function": fi.qualname,
                "clause": "fp64:" + cname,
                "path": "p0",
                "variant": "fp64",
                "verdict": ans if ans in ("sat", "unsat") else "unknown",
                "backend": "cvc5-1.0.3 QF_FP (Float64, RNE)",
                "seconds": round(secs, 2),
                "hyps": 5,
                "instances": 0,
                "reason": None if ans in ("sat", "unsat") else raw[:200],
                "fp64": True,
            }
            if ans == "sat":
                rec["model"] = parse_model(raw, ["x", "origin", "bw"])
                rec["model_text"] = raw[:1500]
            out["records"].append(rec)
