"""Symbolic executor over the real ast.FunctionDef nodes of /repo (DESIGN §2.5).

Forward execution with path splitting.  Results of expressions are lists of Res
(state, value | exception); outcomes of statements are lists of Out.
"""

import ast

import z3

from . import core
from .core import (
    NONE,
    CDict,
    CList,
    CSet,
    Inst,
    LDict,
    LList,
    LSet,
    State,
    Unsupported,
    VBool,
    VBuiltin,
    VChild,
    VClass,
    VFl,
    VFunc,
    VInt,
    VIte,
    VJson,
    VLambda,
    VModule,
    VNone,
    VObj,
    VOpq,
    VStr,
    VTuple,
    vite,
)
from .fl import Fl


class Exc:
    def __init__(self, cls, origin=""):
        self.cls = cls
        self.origin = origin

    def __repr__(self):
        return f"Exc({self.cls}@{self.origin})"


class Res:
    __slots__ = ("st", "v", "exc")

    def __init__(self, st, v=None, exc=None):
        self.st, self.v, self.exc = st, v, exc


class Out:
    __slots__ = ("st", "kind", "v", "exc")

    def __init__(self, st, kind="next", v=None, exc=None):
        self.st, self.kind, self.v, self.exc = st, kind, v, exc


EXC_HIER = {
    "ContainerException": ["Exception", "BaseException"],
    "JsonFormatException": ["Exception", "BaseException"],
    "InvalidJsonException": ["Exception", "BaseException"],
    "TypeError": ["Exception", "BaseException"],
    "ValueError": ["Exception", "BaseException"],
    "KeyError": ["LookupError", "Exception", "BaseException"],
    "IndexError": ["LookupError", "Exception", "BaseException"],
    "AttributeError": ["Exception", "BaseException"],
    "ZeroDivisionError": ["ArithmeticError", "Exception", "BaseException"],
    "OverflowError": ["ArithmeticError", "Exception", "BaseException"],
    "AssertionError": ["Exception", "BaseException"],
    "NameError": ["Exception", "BaseException"],
    "UnboundLocalError": ["NameError", "Exception", "BaseException"],
    "RuntimeError": ["Exception", "BaseException"],
    "NotImplementedError": ["RuntimeError", "Exception", "BaseException"],
    "ImportError": ["Exception", "BaseException"],
    "UserException": ["Exception", "BaseException"],  # anything a user function raises
    "Exception": ["BaseException"],
}


def exc_matches(cls, handler):
    return cls == handler or handler in EXC_HIER.get(cls, ["Exception", "BaseException"])


_solver_stats = {"feas_checks": 0}


def is_feasible(pc, timeout_ms=1500):
    s = z3.Solver()
    s.set("timeout", timeout_ms)
    for f in pc:
        s.add(f)
    for f in core.strlit_axioms():
        s.add(f)
    _solver_stats["feas_checks"] += 1
    return s.check() != z3.unsat


def simp(c):
    if isinstance(c, bool):
        return z3.BoolVal(c)
    return z3.simplify(c)


class Exec:
    def __init__(self, program, hooks=None):
        self.P = program
        self.hooks = hooks or {}
        from . import builtins_model, iface

        self.B = builtins_model.Builtins(self)
        self.I = iface.Iface(self)
        self.call_depth = 0
        self.stats = {"paths": 0, "forks": 0}
        self.module_globals_cache = {}

    # ------------------------------------------------------------------ helpers
    def branch(self, st, cond):
        """Split a state on a z3 condition -> list of (state, bool)."""
        c = simp(cond)
        if z3.is_true(c):
            return [(st, True)]
        if z3.is_false(c):
            return [(st, False)]
        out = []
        s1 = st.fork()
        s1.pc.append(c)
        if is_feasible(s1.pc):
            s1.trace.append(1)
            out.append((s1, True))
        s2 = st
        s2.pc.append(z3.Not(c))
        if is_feasible(s2.pc):
            s2.trace.append(0)
            out.append((s2, False))
        self.stats["forks"] += 1
        return out

    def bind(self, results, fn):
        out = []
        for r in results:
            if r.exc is not None:
                out.append(r)
            else:
                out.extend(fn(r.st, r.v))
        return out

    def raise_(self, st, cls, origin=""):
        return [Res(st, exc=Exc(cls, origin))]

    def ev_list(self, st, nodes):
        """Evaluate expressions left to right -> list of (Res with v = python list of values)."""
        results = [Res(st, [])]
        for n in nodes:
            nxt = []
            for r in results:
                if r.exc is not None:
                    nxt.append(r)
                    continue
                for r2 in self.ev(r.st, n):
                    if r2.exc is not None:
                        nxt.append(r2)
                    else:
                        nxt.append(Res(r2.st, r.v + [r2.v]))
            results = nxt
        return results

    # ------------------------------------------------------------------ truthiness
    def truth(self, st, v):
        """-> z3 Bool"""
        if isinstance(v, VBool):
            return v.t
        if isinstance(v, VNone):
            return z3.BoolVal(False)
        if isinstance(v, VInt):
            return v.t != 0
        if isinstance(v, VFl):
            return z3.Not(v.fl.iszero())
        if isinstance(v, VStr):
            return v.t != core.strlit("")
        if isinstance(v, VTuple):
            return z3.BoolVal(len(v.items) > 0)
        if isinstance(v, core.VRec):
            return z3.BoolVal(len(v.items) > 0)
        if isinstance(v, VJson):
            # python truthiness of a decoded JSON value: None, False, 0, "", [] and {} are false
            from . import jsonmodel as JM

            t = v.t
            nonempty_obj = z3.Function("jobj_nonempty", core.Json, z3.BoolSort())(t)
            return z3.If(
                JM.jtag(t) == JM.NULL,
                z3.BoolVal(False),
                z3.If(
                    JM.jtag(t) == JM.BOOL,
                    JM.jbool(t),
                    z3.If(JM.jtag(t) == JM.NUM, JM.jnum(t) != 0, z3.If(JM.jtag(t) == JM.STR, JM.jstr(t) != core.strlit(""), z3.If(JM.jtag(t) == JM.ARR, JM.jlen(t) > 0, nonempty_obj))),
                ),
            )
        if isinstance(v, (VChild, VClass, VFunc, VBuiltin, VLambda)):
            return z3.BoolVal(True)
        if isinstance(v, VObj):
            o = st.obj(v)
            if isinstance(o, (CList, LList)):
                return o.length() > 0
            if isinstance(o, CDict):
                return z3.BoolVal(len(o.items) > 0)
            if isinstance(o, LDict):
                return o.length() > 0
            if isinstance(o, CSet):
                return z3.BoolVal(len(o.items) > 0)
            if isinstance(o, Inst):
                return z3.BoolVal(True)
        raise Unsupported(f"truth value of {v!r}")

    def split_ite(self, st, v):
        """Resolve a deferred VIte by forking -> list of (state, value)."""
        if not isinstance(v, VIte):
            return [(st, v)]
        out = []
        for s, b in self.branch(st, v.c):
            out.extend(self.split_ite(s, v.a if b else v.b))
        return out

    # ------------------------------------------------------------------ name resolution
    def lookup_name(self, st, name, modname):
        fr = st.locals
        if name in fr:
            return fr[name]
        if "%closure" in fr and name in fr["%closure"]:
            return fr["%closure"][name]
        return self.lookup_global(st, name, modname)

    def lookup_global(self, st, name, modname, seen=None):
        ov = self.hooks.get("global_overrides")
        if ov and (modname, name) in ov:
            return ov[(modname, name)]  # a module-level setting made symbolic by the obligation (e.g. the tolerances)
        mod = self.P.modules.get(modname)
        if mod is not None:
            if name in mod.classes:
                return VClass(name)
            if name in mod.functions:
                return VFunc(mod.functions[name])
            if name in mod.constants:
                return self.B.module_constant(st, mod, name)
            if name in mod.imports:
                src, orig = mod.imports[name]
                if orig is None:
                    return VModule(src)
                if src in self.P.modules:
                    seen = seen or set()
                    if (src, orig) not in seen:
                        seen.add((src, orig))
                        return self.lookup_global(st, orig, src, seen)
                if src + "." + orig in self.P.modules:
                    return VModule(src + "." + orig)
                return VBuiltin(f"{src}.{orig}")
        b = self.B.builtin_name(name)
        if b is not None:
            return b
        raise Unsupported(f"unresolved name {name} in {modname}")

    # ------------------------------------------------------------------ expressions
    def ev(self, st, node):
        m = getattr(self, "ev_" + type(node).__name__, None)
        if m is None:
            raise Unsupported(f"expression {type(node).__name__}")
        return m(st, node)

    def ev_Constant(self, st, n):
        v = n.value
        if v is None:
            return [Res(st, NONE)]
        if isinstance(v, bool):
            return [Res(st, VBool(v))]
        if isinstance(v, int):
            return [Res(st, VInt(v))]
        if isinstance(v, float):
            return [Res(st, VFl(Fl.const(v)))]
        if isinstance(v, str):
            return [Res(st, VStr(v))]
        raise Unsupported(f"constant {v!r}")

    def ev_Name(self, st, n):
        try:
            v = self.lookup_name(st, n.id, st.locals.get("%module", ""))
        except KeyError:
            return self.raise_(st, "NameError", n.id)
        if v is UNBOUND:
            return self.raise_(st, "UnboundLocalError", n.id)
        return [Res(st, v)]

    def ev_JoinedStr(self, st, n):
        # exception-message text is dropped (DESIGN §2.1): an opaque string
        return [Res(st, VStr(st.fresh("fstr", core.StrS)))]

    def ev_Tuple(self, st, n):
        if any(isinstance(e, ast.Starred) for e in n.elts):
            raise Unsupported("starred in tuple")
        return self.bind(self.ev_list(st, n.elts), lambda s, vs: [Res(s, VTuple(vs))])

    def ev_List(self, st, n):
        return self.bind(self.ev_list(st, n.elts), lambda s, vs: [Res(s, s.alloc(CList(vs)))])

    def ev_Set(self, st, n):
        def mk(s, vs):
            return [Res(s, s.alloc(CSet([self.B.pykey(v) for v in vs])))]

        return self.bind(self.ev_list(st, n.elts), mk)

    def ev_Dict(self, st, n):
        if any(k is None for k in n.keys):
            raise Unsupported("dict unpacking in literal")

        def mk(s, vs):
            k = len(n.keys)
            keys, vals = vs[:k], vs[k:]
            d = {}
            for kk, vv in zip(keys, vals):
                d[self.B.pykey(kk)] = vv
            if s.keyctx:
                return [Res(s, core.VRec(d))]  # inside a family body: a value, not a heap object
            return [Res(s, s.alloc(CDict(d)))]

        return self.bind(self.ev_list(st, list(n.keys) + list(n.values)), mk)

    def ev_Lambda(self, st, n):
        return [Res(st, VLambda(n, dict(st.locals), st.locals.get("%module", "")))]

    def ev_IfExp(self, st, n):
        out = []
        for r in self.ev(st, n.test):
            if r.exc is not None:
                out.append(r)
                continue
            for s, b in self.branch(r.st, self.truth(r.st, r.v)):
                out.extend(self.ev(s, n.body if b else n.orelse))
        return out

    def ev_UnaryOp(self, st, n):
        def f(s, v):
            if isinstance(n.op, ast.Not):
                return [Res(s, VBool(z3.Not(self.truth(s, v))))]
            if isinstance(n.op, ast.USub):
                if isinstance(v, VInt):
                    return [Res(s, VInt(-v.t))]
                if isinstance(v, VFl):
                    return [Res(s, VFl(v.fl.neg(), v.pytype))]
            if isinstance(n.op, ast.Invert):
                from . import npmodel

                if npmodel.is_arr(s, v) and s.heap[v.oid].dtype == "bool":
                    return npmodel.call(self, s, "bitwise_not", [v], {})
            raise Unsupported(f"unary {type(n.op).__name__} on {v!r}")

        return self.bind(self.ev(st, n.operand), f)

    def ev_BoolOp(self, st, n):
        is_and = isinstance(n.op, ast.And)

        SIMPLE_CALLS = {"isinstance", "len", "hasattr", "callable"}

        def simple(node):
            for x in ast.walk(node):
                if isinstance(x, ast.Call):
                    if not (isinstance(x.func, ast.Name) and x.func.id in SIMPLE_CALLS):
                        return False
                elif isinstance(x, (ast.BoolOp, ast.IfExp, ast.Lambda, ast.ListComp, ast.GeneratorExp, ast.DictComp)):
                    return False
            return True

        def pure_eval(s, node):
            """evaluate node on a scratch fork; return its value if it is a single, effect-free,
            non-raising, fork-free result (then short-circuiting cannot be observed)"""
            if not simple(node):
                return None
            probe = s.fork()
            npc, heap0, views0, nev = len(probe.pc), dict(probe.heap), probe.views, len(probe.events)
            try:
                rs = self.ev(probe, node)
            except Unsupported:
                return None
            if len(rs) != 1 or rs[0].exc is not None or not isinstance(rs[0].v, VBool):
                return None
            s2 = rs[0].st
            if s2.views is not views0 or len(s2.events) != nev or len(s2.foralls) != len(s.foralls):
                return None
            if len(s2.heap) != len(heap0) or any(s2.heap[k] is not heap0[k] for k in heap0):
                return None
            if len(s2.trace) != len(s.trace):
                return None
            return rs[0].v, s2.pc[npc:], s2.index_terms

        def rec(s, i):
            out = []
            for r in self.ev(s, n.values[i]):
                if r.exc is not None or i == len(n.values) - 1:
                    out.append(r)
                    continue
                if isinstance(r.v, VBool):
                    # merge the remaining operands without forking when they are pure booleans
                    acc = r.v.t
                    st2 = r.st
                    j = i + 1
                    while j < len(n.values):
                        pe = pure_eval(st2, n.values[j])
                        if pe is None:
                            break
                        v, facts, idx = pe
                        st2.pc.extend(facts)  # lemma instances only (no branch decisions were taken)
                        st2.index_terms = idx
                        acc = z3.And(acc, v.t) if is_and else z3.Or(acc, v.t)
                        j += 1
                    if j == len(n.values):
                        out.append(Res(st2, VBool(acc)))
                        continue
                    if j > i + 1:
                        # partially merged: continue with the rest under the usual short-circuit rule
                        for s2, b in self.branch(st2, acc):
                            if b == is_and:
                                out.extend(rec(s2, j))
                            else:
                                out.append(Res(s2, VBool(b)))
                        continue
                for s2, b in self.branch(r.st, self.truth(r.st, r.v)):
                    if b == is_and:
                        out.extend(rec(s2, i + 1))
                    else:
                        out.append(Res(s2, r.v))
            return out

        return rec(st, 0)

    def ev_Compare(self, st, n):
        def rec(s, left, i):
            if i == len(n.ops):
                return [Res(s, VBool(True))]
            out = []
            for r in self.ev(s, n.comparators[i]):
                if r.exc is not None:
                    out.append(r)
                    continue
                for r2 in self.B.compare(r.st, n.ops[i], left, r.v):
                    if r2.exc is not None or i == len(n.ops) - 1:
                        out.append(r2)
                        continue
                    for s3, b in self.branch(r2.st, self.truth(r2.st, r2.v)):
                        if b:
                            out.extend(rec(s3, r.v, i + 1))
                        else:
                            out.append(Res(s3, VBool(False)))
            return out

        return self.bind(self.ev(st, n.left), lambda s, v: rec(s, v, 0))

    def ev_BinOp(self, st, n):
        def f(s, vs):
            return self.B.binop(s, n.op, vs[0], vs[1])

        return self.bind(self.ev_list(st, [n.left, n.right]), f)

    def ev_Attribute(self, st, n):
        return self.bind(self.ev(st, n.value), lambda s, v: self.getattr(s, v, n.attr))

    def ev_Subscript(self, st, n):
        if isinstance(n.slice, ast.Slice):
            parts = [n.value] + [x for x in (n.slice.lower, n.slice.upper, n.slice.step)]
            if n.slice.step is not None:
                raise Unsupported("slice step")

            def f(s, vs):
                return self.B.getslice(s, vs[0], vs[1], vs[2])

            nodes = [n.value, n.slice.lower or ast.Constant(None), n.slice.upper or ast.Constant(None)]
            return self.bind(self.ev_list(st, nodes), f)
        return self.bind(self.ev_list(st, [n.value, n.slice]), lambda s, vs: self.B.getitem(s, vs[0], vs[1]))

    def ev_Call(self, st, n):
        # super().__init__() and friends
        if (
            isinstance(n.func, ast.Attribute)
            and isinstance(n.func.value, ast.Call)
            and isinstance(n.func.value.func, ast.Name)
            and n.func.value.func.id == "super"
        ):
            fv0 = self.super_function(st, n)
            if fv0 is None:
                return [Res(st, NONE)]  # object.__init__
            return self._call_with_args(st, fv0, n)
        return self.bind(self.ev(st, n.func), lambda s, fv: self._call_with_args(s, fv, n))

    def _call_with_args(self, st, fv, n):
        def with_func(s, fv):
            # evaluate arguments
            pos_nodes = []
            star_nodes = []
            for a in n.args:
                if isinstance(a, ast.Starred):
                    star_nodes.append((len(pos_nodes), a.value))
                    pos_nodes.append(a.value)
                else:
                    pos_nodes.append(a)
            kw_nodes = [k.value for k in n.keywords]

            def with_args(s2, vs):
                pos = vs[: len(pos_nodes)]
                kws = vs[len(pos_nodes) :]
                starred_idx = {i for i, _ in star_nodes}
                args = []
                starlist = None
                for i, v in enumerate(pos):
                    if i in starred_idx:
                        seq = self.B.as_sequence(s2, v)
                        if seq is None:
                            if starlist is not None or i != len(pos) - 1:
                                raise Unsupported("symbolic *args not in last position")
                            starlist = v
                        else:
                            args.extend(seq)
                    else:
                        args.append(v)
                kwargs = {}
                starkw = None
                for k, v in zip(n.keywords, kws):
                    if k.arg is None:
                        o = s2.obj(v) if isinstance(v, VObj) else None
                        if isinstance(o, CDict):
                            for kk, vv in o.items.items():
                                kwargs[kk] = vv
                        else:
                            starkw = v
                    else:
                        kwargs[k.arg] = v
                return self.call_value(s2, fv, args, kwargs, starargs=starlist, starkw=starkw, node=n)

            return self.bind(self.ev_list(s, pos_nodes + kw_nodes), with_args)

        return with_func(st, fv)

    def super_function(self, st, n):
        mname = n.func.attr
        cur_cls = st.locals.get("%class")
        self_v = st.locals.get("self")
        if cur_cls is None or self_v is None:
            raise Unsupported("super() outside method")
        inst = st.obj(self_v)
        fi = self.P.lookup_method(inst.cls, mname, after=cur_cls)
        if fi is None:
            if mname == "__init__":
                return None
            raise Unsupported(f"super().{mname} unresolved")
        return VFunc(fi, self_v=self_v)

    def super_call(self, st, n):
        mname = n.func.attr
        cur_cls = st.locals.get("%class")
        self_v = st.locals.get("self")
        if cur_cls is None or self_v is None:
            raise Unsupported("super() outside method")
        inst = st.obj(self_v)
        fi = self.P.lookup_method(inst.cls, mname, after=cur_cls)

        def with_args(s, vs):
            if fi is None:
                if mname == "__init__":
                    return [Res(s, NONE)]  # object.__init__
                raise Unsupported(f"super().{mname} unresolved")
            kwargs = {k.arg: v for k, v in zip(n.keywords, vs[len(n.args) :])}
            return self.call_function(s, fi, [self_v] + vs[: len(n.args)], kwargs)

        return self.bind(self.ev_list(st, list(n.args) + [k.value for k in n.keywords]), with_args)

    # comprehensions are handled by the family rule (loops.py)
    def ev_ListComp(self, st, n):
        from . import loops

        return loops.comprehension(self, st, n, "list")

    def ev_GeneratorExp(self, st, n):
        from . import loops

        return loops.comprehension(self, st, n, "gen")

    def ev_DictComp(self, st, n):
        from . import loops

        return loops.comprehension(self, st, n, "dict")

    # ------------------------------------------------------------------ attribute access
    def getattr(self, st, v, name):
        out = []
        for s, v in self.split_ite(st, v):
            out.extend(self._getattr(s, v, name))
        return out

    def _getattr(self, st, v, name):
        if isinstance(v, VObj):
            o = st.obj(v)
            if isinstance(o, Inst):
                if name == "__dict__":
                    return [Res(st, VBuiltin("inst.__dict__", v))]
                if name == "__class__":
                    return [Res(st, VClass(o.cls))]
                if name in o.fields:
                    fv = o.fields[name]
                    if fv is ABSENT:
                        pass
                    else:
                        return [Res(st, fv)]
                # class lookup
                fi = self.P.lookup_method(o.cls, name)
                if fi is not None:
                    if fi.is_property:
                        return self.call_function(st, fi, [v], {})
                    if fi.is_static:
                        return [Res(st, VFunc(fi))]
                    return [Res(st, VFunc(fi, self_v=v))]
                ca = self.P.lookup_class_attr(o.cls, name)
                if ca is not None:
                    return self.B.class_attr(st, ca[0], name, ca[1])
                for c in self.P.mro(o.cls):
                    key = f"{c}.{name}"
                    if key in self.P.post_class_attrs:
                        return self.B.post_class_attr(st, v, c, name)
                ga = self.P.lookup_method(o.cls, "__getattr__")
                if ga is not None:
                    return self.call_function(st, ga, [v, VStr(name)], {})
                return self.raise_(st, "AttributeError", f"{o.cls}.{name}")
            from . import npmodel

            if isinstance(o, npmodel.ArrO):
                return npmodel.getattr_(self, st, v, name)
            return [Res(st, VBuiltin("obj." + name, v))]
        if isinstance(v, VChild):
            return self.I.getattr(st, v, name)
        if isinstance(v, VClass):
            return self.B.class_getattr(st, v, name)
        if isinstance(v, VModule):
            return self.B.module_getattr(st, v, name)
        if isinstance(v, (VTuple, VStr, VFl, VInt, VJson, VOpq, VBool)) or v.kind in ("iter", "key", "rec"):
            return self.B.value_getattr(st, v, name)
        if isinstance(v, VNone):
            return self.raise_(st, "AttributeError", f"None.{name}")
        if isinstance(v, VBuiltin):
            return self.B.builtin_getattr(st, v, name)
        if isinstance(v, (VFunc, VLambda)):
            return self.B.func_getattr(st, v, name)
        raise Unsupported(f"getattr {v!r}.{name}")

    def setattr(self, st, v, name, val):
        if isinstance(v, VObj):
            o = st.obj(v)
            if isinstance(o, Inst):
                if name == "__dict__":
                    d = st.obj(val) if isinstance(val, VObj) else None
                    if not isinstance(d, CDict):
                        raise Unsupported("__dict__ assigned a non-concrete dict")
                    st.set_obj(v, Inst(o.cls, {k: x for k, x in d.items.items()}))
                    st.events.append(("set__dict__", v.oid))
                    return [Out(st)]
                setter = self.P.lookup_setter(o.cls, name)
                if setter is not None and name not in o.fields:
                    return [Out(r.st) if r.exc is None else Out(r.st, "raise", exc=r.exc) for r in self.call_function(st, setter, [v, val], {})]
                st.set_obj(v, o.with_field(name, val))
                st.events.append(("setattr", v.oid, name))
                return [Out(st)]
        if isinstance(v, VChild):
            return self.I.setattr(st, v, name, val)
        if isinstance(v, VBuiltin) and v.name == "obj.quantity":
            pass
        raise Unsupported(f"setattr on {v!r}.{name}")

    # ------------------------------------------------------------------ calls
    def call_value(self, st, fv, args, kwargs, starargs=None, starkw=None, node=None):
        if isinstance(fv, VIte):
            out = []
            for s, f2 in self.split_ite(st, fv):
                out.extend(self.call_value(s, f2, args, kwargs, starargs, starkw, node))
            return out
        if isinstance(fv, VFunc):
            a = ([fv.self_v] if fv.self_v is not None else []) + list(args)
            return self.call_function(st, fv.fi, a, kwargs, starargs=starargs, starkw=starkw)
        if isinstance(fv, VClass):
            return self.B.instantiate(st, fv.name, args, kwargs, starargs=starargs, starkw=starkw)
        if isinstance(fv, VBuiltin):
            if fv.name == "type.dict" and starkw is not None and isinstance(starkw, VObj) and isinstance(st.obj(starkw), LDict) and starargs is None and len(args) == 1 and isinstance(args[0], VOpq):
                # dict(mapping, **names): the names override the mapping
                from .builtins_model import mget, mhas

                base, kwd = args[0].t, st.obj(starkw)
                ks = core.Key.ks
                present = lambda k, kwd=kwd: z3.Or(kwd.present(k), z3.And(core.Key.is_KStr(k), mhas(base, ks(k))))
                val = lambda k, kwd=kwd: core.vite(kwd.present(k), kwd.val(k), VOpq(mget(base, ks(k)), "other"))
                return [Res(st, st.alloc(LDict(present, val, st.fresh("dlen", z3.IntSort()))))]
            if fv.name == "type.dict" and starkw is not None and isinstance(starkw, VOpq) and starargs is None:
                f = z3.Function("dict_merge", core.Opq, core.Opq, core.Opq)
                base = args[0].t if args and isinstance(args[0], VOpq) else z3.Const("py:emptydict", core.Opq)
                return [Res(st, VOpq(f(base, starkw.t), "opaque-dict"))]
            if starargs is not None or starkw is not None:
                raise Unsupported(f"symbolic star args to builtin {fv.name}")
            return self.B.call(st, fv, args, kwargs, node)
        if isinstance(fv, VLambda):
            return self.call_lambda(st, fv, args, kwargs)
        if isinstance(fv, VObj):
            o = st.obj(fv)
            if isinstance(o, Inst):
                if o.cls in ("UserFcn", "CachedFcn") and not self.hooks.get("inline_userfcn"):
                    return self.B.call_userfcn(st, fv, args, kwargs)
                fi = self.P.lookup_method(o.cls, "__call__")
                if fi is not None:
                    return self.call_function(st, fi, [fv] + list(args), kwargs)
        if isinstance(fv, VChild):
            return self.I.call_child(st, fv, args, kwargs)
        if isinstance(fv, VOpq):
            return self.B.call_opaque(st, fv, args, kwargs)
        if isinstance(fv, VNone):
            return self.raise_(st, "TypeError", "call None")
        raise Unsupported(f"call of {fv!r}")

    def call_lambda(self, st, lam, args, kwargs):
        n = lam.node
        params = [a.arg for a in n.args.args]
        if len(args) != len(params) or kwargs:
            raise Unsupported("lambda arity")
        frame = {"%module": lam.modname, "%closure": lam.env}
        frame.update(dict(zip(params, args)))
        st.frames.append(frame)
        out = []
        if isinstance(n, ast.FunctionDef):  # a nested def
            for nm in assigned_names(n):
                if nm not in frame:
                    frame[nm] = UNBOUND
            for o in self.ex_block(st, n.body):
                o.st.frames.pop()
                if o.kind == "raise":
                    out.append(Res(o.st, exc=o.exc))
                elif o.kind == "return":
                    out.append(Res(o.st, o.v))
                elif o.kind == "next":
                    out.append(Res(o.st, NONE))
                else:
                    raise Unsupported(f"{o.kind} escaping nested function")
            return out
        for r in self.ev(st, n.body):
            r.st.frames.pop()
            out.append(r)
        return out

    def call_function(self, st, fi, args, kwargs, starargs=None, starkw=None):
        model = self.hooks.get("call_models", {}).get(fi.qualname)
        if model is not None:
            return model(self, st, fi, args, kwargs)
        self.call_depth += 1
        if self.call_depth > 40:
            raise Unsupported("call depth")
        try:
            return self._call_function(st, fi, args, kwargs, starargs, starkw)
        finally:
            self.call_depth -= 1

    def _call_function(self, st, fi, args, kwargs, starargs, starkw):
        node = fi.node
        a = node.args
        params = [p.arg for p in a.posonlyargs + a.args]
        frame = {"%module": fi.module, "%class": fi.cls, "%func": fi.qualname}
        kwargs = dict(kwargs)
        # positional
        npos = len(params)
        if len(args) > npos:
            if a.vararg is None:
                return self.raise_(st, "TypeError", f"too many args for {fi.qualname}")
            frame[a.vararg.arg] = VTuple(args[npos:])
            if starargs is not None:
                raise Unsupported("mixed star args")
            args = args[:npos]
        elif a.vararg is not None:
            if starargs is not None:
                if len(args) != npos:
                    raise Unsupported("symbolic *args overlapping named parameters")
                frame[a.vararg.arg] = self.B.to_tuple_value(st, starargs)
            else:
                frame[a.vararg.arg] = VTuple([])
        elif starargs is not None:
            raise Unsupported("symbolic *args into fixed parameters")
        for p, v in zip(params, args):
            frame[p] = v
        # defaults
        defaults = a.defaults
        dstart = npos - len(defaults)
        pending_defaults = []
        for i, p in enumerate(params):
            if p in frame:
                if p in kwargs:
                    return self.raise_(st, "TypeError", f"multiple values for {p}")
                continue
            if p in kwargs:
                frame[p] = kwargs.pop(p)
            elif i >= dstart:
                pending_defaults.append((p, defaults[i - dstart]))
            else:
                return self.raise_(st, "TypeError", f"missing argument {p} for {fi.qualname}")
        for p, d in zip(a.kwonlyargs, a.kw_defaults):
            if p.arg in kwargs:
                frame[p.arg] = kwargs.pop(p.arg)
            elif d is not None:
                pending_defaults.append((p.arg, d))
            else:
                return self.raise_(st, "TypeError", f"missing kwonly {p.arg}")
        if a.kwarg is not None:
            if starkw is not None:
                if kwargs:
                    raise Unsupported("mixed ** args")
                frame[a.kwarg.arg] = self.B.copy_dict_value(st, starkw)
            else:
                frame[a.kwarg.arg] = st.alloc(CDict(kwargs))
            kwargs = {}
        elif starkw is not None:
            raise Unsupported("symbolic ** into fixed parameters")
        if kwargs:
            return self.raise_(st, "TypeError", f"unexpected keyword {list(kwargs)} for {fi.qualname}")
        for p, d in pending_defaults:
            frame[p] = self.B.default_value(st, fi, p, d)
        # names assigned somewhere in the body are locals: unbound until assigned (UnboundLocalError)
        for nm in assigned_names(node):
            if nm not in frame:
                frame[nm] = UNBOUND
        # locals that are assigned somewhere in the body start unbound
        st.frames.append(frame)
        out = []
        body = node.body
        for o in self.ex_block(st, body):
            o.st.frames.pop()
            if o.kind == "raise":
                out.append(Res(o.st, exc=o.exc))
            elif o.kind == "return":
                out.append(Res(o.st, o.v))
            elif o.kind == "next":
                out.append(Res(o.st, NONE))
            else:
                raise Unsupported(f"{o.kind} escaping function {fi.qualname}")
        return out

    # ------------------------------------------------------------------ statements
    def ex_block(self, st, stmts):
        outs = [Out(st)]
        for stmt in stmts:
            nxt = []
            for o in outs:
                if o.kind != "next":
                    nxt.append(o)
                else:
                    nxt.extend(self.ex(o.st, stmt))
            outs = nxt
            if not any(o.kind == "next" for o in outs):
                break
        return outs

    def ex(self, st, node):
        m = getattr(self, "ex_" + type(node).__name__, None)
        if m is None:
            raise Unsupported(f"statement {type(node).__name__}")
        return m(st, node)

    def _lift(self, results, fn=None):
        outs = []
        for r in results:
            if r.exc is not None:
                outs.append(Out(r.st, "raise", exc=r.exc))
            elif fn is None:
                outs.append(Out(r.st))
            else:
                outs.extend(fn(r.st, r.v))
        return outs

    def ex_Expr(self, st, n):
        if isinstance(n.value, ast.Constant):
            return [Out(st)]  # docstring (dropped)
        return self._lift(self.ev(st, n.value))

    def ex_Pass(self, st, n):
        return [Out(st)]

    def ex_Break(self, st, n):
        return [Out(st, "break")]

    def ex_Continue(self, st, n):
        return [Out(st, "continue")]

    def ex_Return(self, st, n):
        if n.value is None:
            return [Out(st, "return", NONE)]
        return self._lift(self.ev(st, n.value), lambda s, v: [Out(s, "return", v)])

    def ex_Import(self, st, n):
        if any(a.name.split(".")[0] in ("pyspark", "pandas") for a in n.names):
            return [Out(st, "raise", exc=Exc("ImportError", n.names[0].name))]
        for a in n.names:
            st.locals[a.asname or a.name.split(".")[0]] = VModule(a.name if a.asname else a.name.split(".")[0])
        return [Out(st)]

    def ex_ImportFrom(self, st, n):
        if n.module and n.module.split(".")[0] in ("pyspark", "pandas"):
            # environment assumption: optional dependencies are not importable inside verified functions
            return [Out(st, "raise", exc=Exc("ImportError", n.module))]
        for a in n.names:
            if n.module in self.P.modules:
                st.locals[a.asname or a.name] = self.lookup_global(st, a.name, n.module)
            else:
                st.locals[a.asname or a.name] = VBuiltin(f"{n.module}.{a.name}")
        return [Out(st)]

    def ex_Assert(self, st, n):
        outs = []
        for r in self.ev(st, n.test):
            if r.exc is not None:
                outs.append(Out(r.st, "raise", exc=r.exc))
                continue
            for s, b in self.branch(r.st, self.truth(r.st, r.v)):
                outs.append(Out(s) if b else Out(s, "raise", exc=Exc("AssertionError", "assert")))
        return outs

    def ex_Raise(self, st, n):
        if n.exc is None:
            cur = st.locals.get("%handling")
            return [Out(st, "raise", exc=cur or Exc("RuntimeError", "reraise"))]

        def f(s, v):
            if isinstance(v, VObj) and isinstance(s.obj(v), Inst):
                return [Out(s, "raise", exc=Exc(s.obj(v).cls, "raise"))]
            if isinstance(v, VClass):
                return [Out(s, "raise", exc=Exc(v.name, "raise"))]
            if isinstance(v, VBuiltin) and v.name.startswith("exc."):
                return [Out(s, "raise", exc=Exc(v.name[4:], "raise"))]
            if isinstance(v, VOpq) and v.tag == "exc":
                return [Out(s, "raise", exc=Exc(v.cls, "raise"))]
            raise Unsupported(f"raise {v!r}")

        return self._lift(self.ev(st, n.exc), f)

    def ex_If(self, st, n):
        outs = []
        for r in self.ev(st, n.test):
            if r.exc is not None:
                outs.append(Out(r.st, "raise", exc=r.exc))
                continue
            for s, b in self.branch(r.st, self.truth(r.st, r.v)):
                outs.extend(self.ex_block(s, n.body if b else n.orelse))
        return outs

    def ex_Assign(self, st, n):
        def f(s, v):
            outs = [Out(s)]
            for t in n.targets:
                nxt = []
                for o in outs:
                    if o.kind != "next":
                        nxt.append(o)
                    else:
                        nxt.extend(self.assign(o.st, t, v))
                outs = nxt
            return outs

        return self._lift(self.ev(st, n.value), f)

    def assign(self, st, target, v):
        if isinstance(target, ast.Name):
            st.locals[target.id] = v
            return [Out(st)]
        if isinstance(target, ast.Attribute):
            return self._lift(self.ev(st, target.value), lambda s, o: self.setattr(s, o, target.attr, v))
        if isinstance(target, ast.Subscript):
            if isinstance(target.slice, ast.Slice):
                return self._lift(self.ev(st, target.value), lambda s, o: self.B.setslice(s, o, target.slice, v))
            return self._lift(
                self.ev_list(st, [target.value, target.slice]),
                lambda s, vs: self._lift(self.B.setitem(s, vs[0], vs[1], v)),
            )
        if isinstance(target, (ast.Tuple, ast.List)):
            outs = []
            for s, v2 in self.split_ite(st, v):
                seq = self.B.as_sequence(s, v2)
                if seq is None:
                    raise Unsupported(f"unpack of symbolic-length {v2!r}")
                if len(seq) != len(target.elts):
                    outs.append(Out(s, "raise", exc=Exc("ValueError", "unpack")))
                    continue
                cur = [Out(s)]
                for t, x in zip(target.elts, seq):
                    nxt = []
                    for o in cur:
                        if o.kind != "next":
                            nxt.append(o)
                        else:
                            nxt.extend(self.assign(o.st, t, x))
                    cur = nxt
                outs.extend(cur)
            return outs
        raise Unsupported(f"assign target {type(target).__name__}")

    def ex_AugAssign(self, st, n):
        t = n.target
        if isinstance(t, ast.Name):

            def f(s, vs):
                return self._lift(self.B.augop(s, n.op, vs[0], vs[1]), lambda s2, r: self.assign(s2, t, r))

            return self._lift(self.ev_list(st, [ast.Name(t.id, ast.Load()), n.value]), f)
        if isinstance(t, ast.Attribute):

            def f(s, vs):
                obj, rhs = vs

                def g(s2, cur):
                    return self._lift(self.B.augop(s2, n.op, cur, rhs), lambda s3, r: self.setattr(s3, obj, t.attr, r))

                return self._lift(self.getattr(s, obj, t.attr), g)

            return self._lift(self.ev_list(st, [t.value, n.value]), f)
        if isinstance(t, ast.Subscript) and not isinstance(t.slice, ast.Slice):

            def f(s, vs):
                obj, idx, rhs = vs

                def g(s2, cur):
                    return self._lift(
                        self.B.augop(s2, n.op, cur, rhs), lambda s3, r: self._lift(self.B.setitem(s3, obj, idx, r))
                    )

                return self._lift(self.B.getitem(s, obj, idx), g)

            return self._lift(self.ev_list(st, [t.value, t.slice, n.value]), f)
        raise Unsupported("augassign target")

    def ex_Delete(self, st, n):
        outs = [Out(st)]
        for t in n.targets:
            if not isinstance(t, ast.Subscript):
                raise Unsupported("del of non-subscript")
            nxt = []
            for o in outs:
                if o.kind != "next":
                    nxt.append(o)
                    continue
                nxt.extend(
                    self._lift(self.ev_list(o.st, [t.value, t.slice]), lambda s, vs: self._lift(self.B.delitem(s, vs[0], vs[1])))
                )
            outs = nxt
        return outs

    def ex_Try(self, st, n):
        if n.finalbody:
            raise Unsupported("try/finally")
        outs = []
        for o in self.ex_block(st, n.body):
            if o.kind == "raise":
                handled = False
                for h in n.handlers:
                    names = []
                    if h.type is None:
                        names = ["BaseException"]
                    elif isinstance(h.type, ast.Tuple):
                        names = [ast.unparse(e).split(".")[-1] for e in h.type.elts]
                    else:
                        names = [ast.unparse(h.type).split(".")[-1]]
                    if any(exc_matches(o.exc.cls, nm) for nm in names):
                        s = o.st
                        prev = s.locals.get("%handling")
                        s.locals["%handling"] = o.exc
                        if h.name:
                            s.locals[h.name] = VOpq(s.fresh("excobj", core.Opq), "excobj")
                        for o2 in self.ex_block(s, h.body):
                            if prev is None:
                                o2.st.locals.pop("%handling", None)
                            else:
                                o2.st.locals["%handling"] = prev
                            outs.append(o2)
                        handled = True
                        break
                if not handled:
                    outs.append(o)
            elif o.kind == "next" and n.orelse:
                outs.extend(self.ex_block(o.st, n.orelse))
            else:
                outs.append(o)
        return outs

    def ex_With(self, st, n):
        # only contextlib.suppress(...) is modelled
        if len(n.items) != 1:
            raise Unsupported("with: multiple items")
        ce = n.items[0].context_expr
        if not (isinstance(ce, ast.Call) and ast.unparse(ce.func) == "contextlib.suppress"):
            raise Unsupported("with: " + ast.unparse(ce))
        names = [ast.unparse(a).split(".")[-1] for a in ce.args]
        outs = []
        for o in self.ex_block(st, n.body):
            if o.kind == "raise" and any(exc_matches(o.exc.cls, nm) for nm in names):
                outs.append(Out(o.st))
            else:
                outs.append(o)
        return outs

    def ex_For(self, st, n):
        from . import loops

        return loops.for_loop(self, st, n)

    def ex_FunctionDef(self, st, n):
        from .frontend import FuncInfo

        mod = self.P.modules[st.locals["%module"]]
        fi = FuncInfo(mod.name, None, n, mod.source, mod.path)
        st.locals[n.name] = VLambda(n, st.locals, mod.name)
        return [Out(st)]

    # ------------------------------------------------------------------ entry point
    def run(self, st, fi, args, kwargs=None):
        """Run a function under contract from a prepared pre-state -> list of Res."""
        st.frames = [{"%module": fi.module}]
        res = self.call_function(st, fi, args, kwargs or {})
        self.stats["paths"] += len(res)
        return res


_ASSIGNED = {}


def assigned_names(fnode):
    k = id(fnode)
    if k not in _ASSIGNED:
        names = set()
        for x in ast.walk(fnode):
            if x is not fnode and isinstance(x, (ast.FunctionDef, ast.Lambda, ast.ListComp, ast.DictComp, ast.GeneratorExp, ast.SetComp)):
                continue
            if isinstance(x, ast.Name) and isinstance(x.ctx, ast.Store):
                names.add(x.id)
        # comprehension targets are not function locals
        for x in ast.walk(fnode):
            if isinstance(x, (ast.ListComp, ast.DictComp, ast.GeneratorExp, ast.SetComp)):
                for g in x.generators:
                    for t in ast.walk(g.target):
                        if isinstance(t, ast.Name):
                            names.discard(t.id) if not _assigned_outside(fnode, t.id) else None
        _ASSIGNED[k] = names
    return _ASSIGNED[k]


def _assigned_outside(fnode, name):
    def walk(n, inside):
        for c in ast.iter_child_nodes(n):
            ins = inside or isinstance(c, (ast.ListComp, ast.DictComp, ast.GeneratorExp, ast.SetComp))
            if isinstance(c, ast.Name) and isinstance(c.ctx, ast.Store) and c.id == name and not ins:
                return True
            if walk(c, ins):
                return True
        return False

    return walk(fnode, False)


class _Absent:
    def __repr__(self):
        return "ABSENT"


ABSENT = _Absent()
UNBOUND = _Absent()
