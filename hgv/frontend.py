"""Front end: re-reads the real source of /repo/histogrammar on every run.

Builds the class table (classes, bases, MRO, methods, properties, static methods,
module constants).  The executor walks the ast.FunctionDef nodes found here; there is
no copy, rewriting or intermediate model of a method body.
"""

import ast
import hashlib
import os

from . import REPO


_LINES = {}


def source_lines(source):
    k = id(source)
    if k not in _LINES:
        _LINES[k] = (source, source.splitlines())
    return _LINES[k][1]


class FuncInfo:
    def __init__(self, module, cls, node, source, path):
        self.module = module
        self.cls = cls
        self.node = node
        self.name = node.name
        self.path = path
        self.decorators = []
        for d in node.decorator_list:
            if isinstance(d, ast.Name):
                self.decorators.append(d.id)
            elif isinstance(d, ast.Call) and isinstance(d.func, ast.Name):
                self.decorators.append(d.func.id)
            elif isinstance(d, ast.Attribute):
                self.decorators.append(d.attr)  # e.g. variance.setter
            else:
                self.decorators.append(ast.dump(d))
        self.is_static = "staticmethod" in self.decorators
        self.is_property = "property" in self.decorators
        self.is_setter = "setter" in self.decorators
        lines = source_lines(source)
        seg = "\n".join(lines[node.lineno - 1 : node.end_lineno])
        self.sha256 = hashlib.sha256(seg.encode()).hexdigest()
        self.lines = (node.lineno, node.end_lineno)

    @property
    def qualname(self):
        if self.cls:
            return f"{self.module}.{self.cls}.{self.name}"
        return f"{self.module}.{self.name}"

    def describe(self):
        return {
            "function": self.qualname,
            "file": os.path.relpath(self.path, REPO),
            "lines": list(self.lines),
            "sha256": self.sha256,
        }


class ClassInfo:
    def __init__(self, module, node):
        self.module = module
        self.node = node
        self.name = node.name
        self.bases = [b.id if isinstance(b, ast.Name) else ast.unparse(b) for b in node.bases]
        self.methods = {}  # name -> FuncInfo (getter for properties)
        self.setters = {}
        self.class_attrs = {}  # name -> ast expr


class ModuleInfo:
    def __init__(self, name, path, source, tree):
        self.name = name
        self.path = path
        self.source = source
        self.tree = tree
        self.functions = {}
        self.classes = {}
        self.constants = {}  # name -> ast expr (module-level simple assignments)
        self.imports = {}  # local name -> (module, name) or (module, None)


class Program:
    def __init__(self, repo=None):
        self.repo = repo or REPO
        self.modules = {}
        self.classes = {}  # simple class name -> ClassInfo (names are unique in this code base)
        self.post_class_attrs = {}  # 'Count.n_dim' style assignments at module level
        self._load()

    def _load(self):
        root = os.path.join(self.repo, "histogrammar")
        for dirpath, _dirs, files in os.walk(root):
            for fn in sorted(files):
                if not fn.endswith(".py"):
                    continue
                path = os.path.join(dirpath, fn)
                rel = os.path.relpath(path, self.repo)[:-3].replace(os.sep, ".")
                if rel.endswith(".__init__"):
                    rel = rel[: -len(".__init__")]
                with open(path) as f:
                    src = f.read()
                try:
                    tree = ast.parse(src)
                except SyntaxError as e:  # checker failure, never a violation
                    raise RuntimeError(f"cannot parse {path}: {e}")
                self._index(ModuleInfo(rel, path, src, tree))

    def _index(self, mod):
        self.modules[mod.name] = mod
        for node in mod.tree.body:
            if isinstance(node, ast.FunctionDef):
                mod.functions[node.name] = FuncInfo(mod.name, None, node, mod.source, mod.path)
            elif isinstance(node, ast.ClassDef):
                ci = ClassInfo(mod.name, node)
                for item in node.body:
                    if isinstance(item, ast.FunctionDef):
                        fi = FuncInfo(mod.name, node.name, item, mod.source, mod.path)
                        if fi.is_setter:
                            ci.setters[item.name] = fi
                        else:
                            ci.methods[item.name] = fi
                    elif isinstance(item, ast.Assign) and len(item.targets) == 1 and isinstance(item.targets[0], ast.Name):
                        ci.class_attrs[item.targets[0].id] = item.value
                mod.classes[node.name] = ci
                self.classes.setdefault(node.name, ci)
            elif isinstance(node, ast.Assign) and len(node.targets) == 1:
                t = node.targets[0]
                if isinstance(t, ast.Name):
                    mod.constants[t.id] = node.value
                elif isinstance(t, ast.Attribute) and isinstance(t.value, ast.Name):
                    self.post_class_attrs[f"{t.value.id}.{t.attr}"] = node.value
            elif isinstance(node, ast.ImportFrom):
                for a in node.names:
                    mod.imports[a.asname or a.name] = (node.module, a.name)
            elif isinstance(node, ast.Import):
                for a in node.names:
                    # `import a.b.c` binds the top package `a`; `import a.b as x` binds the submodule
                    mod.imports[a.asname or a.name.split(".")[0]] = (a.name if a.asname else a.name.split(".")[0], None)

    # ---- class table queries
    def mro(self, cname):
        """C3 linearisation over the classes known to the program (object omitted)."""
        ci = self.classes.get(cname)
        if ci is None:
            return [cname]
        seqs = [self.mro(b) for b in ci.bases if b in self.classes] + [[b for b in ci.bases if b in self.classes]]
        res = [cname]
        seqs = [list(s) for s in seqs if s]
        while seqs:
            for s in seqs:
                head = s[0]
                if not any(head in t[1:] for t in seqs):
                    break
            else:
                raise RuntimeError(f"inconsistent MRO for {cname}")
            res.append(head)
            seqs = [[x for x in s if x != head] for s in seqs]
            seqs = [s for s in seqs if s]
        return res

    def lookup_method(self, cname, mname, after=None):
        """Resolve mname on class cname following the MRO; `after` = class to start after (super())."""
        mro = self.mro(cname)
        if after is not None:
            mro = mro[mro.index(after) + 1 :]
        for c in mro:
            ci = self.classes.get(c)
            if ci and mname in ci.methods:
                return ci.methods[mname]
        return None

    def lookup_setter(self, cname, mname):
        for c in self.mro(cname):
            ci = self.classes.get(c)
            if ci and mname in ci.setters:
                return ci.setters[mname]
        return None

    def lookup_class_attr(self, cname, name):
        for c in self.mro(cname):
            ci = self.classes.get(c)
            if ci and name in ci.class_attrs:
                return (c, ci.class_attrs[name])
        return None

    def attr_names(self, cname):
        """names resolvable on an instance of cname: methods/properties of the MRO plus every
        attribute stored through `self.<name> = ...` / `out.<name> = ...` in the class body"""
        names = set()
        for c in self.mro(cname):
            ci = self.classes.get(c)
            if ci is None:
                continue
            names |= set(ci.methods) | set(ci.setters) | set(ci.class_attrs)
            for node in ast.walk(ci.node):
                if isinstance(node, ast.Attribute) and isinstance(node.ctx, ast.Store) and isinstance(node.value, ast.Name):
                    if node.value.id in ("self", "out"):
                        names.add(node.attr)
            for key in self.post_class_attrs:
                if key.startswith(c + "."):
                    names.add(key.split(".", 1)[1])
        return names

    def is_subclass(self, cname, base):
        return base in self.mro(cname)

    def function(self, qual):
        """'histogrammar.util.numeq' or 'histogrammar.primitives.bin.Bin.fill'."""
        parts = qual.split(".")
        for i in range(len(parts) - 1, 0, -1):
            mname = ".".join(parts[:i])
            if mname in self.modules:
                mod = self.modules[mname]
                rest = parts[i:]
                if len(rest) == 1:
                    return mod.functions.get(rest[0])
                if len(rest) == 2 and rest[0] in mod.classes:
                    ci = mod.classes[rest[0]]
                    return ci.methods.get(rest[1]) or ci.setters.get(rest[1])
        return None

    def module_of_class(self, cname):
        return self.classes[cname].module


PRIMITIVES = [
    "Count",
    "Sum",
    "Average",
    "Deviate",
    "Minimize",
    "Maximize",
    "Bag",
    "Bin",
    "SparselyBin",
    "CentrallyBin",
    "IrregularlyBin",
    "Stack",
    "Fraction",
    "Select",
    "Categorize",
    "Label",
    "UntypedLabel",
    "Index",
    "Branch",
]
