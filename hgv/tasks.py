"""Task registry: which symbolic executions / lemma families serve which property."""

from .frontend import PRIMITIVES

CLASSES = list(PRIMITIVES)
# fan-out classes with a quantity of their own: a failure of *that* function (exception or wrong type) is inside the C12
# guarantee (only children filled before a failing sibling are outside it)
OWN_QUANTITY_FANOUT = ["Fraction", "Stack"]
SINGLE_PATH = ["Bag", "Count", "Sum", "Average", "Deviate", "Minimize", "Maximize", "Bin", "SparselyBin", "CentrallyBin", "IrregularlyBin", "Categorize", "Select"]

# method-kind -> properties that have clauses on it
KIND_PROPS = {
    "zero": {"C01", "C04", "C05", "C06", "C08"},
    "add": {"C01", "C04", "C05", "C06", "C08", "C10"},
    "iadd": {"C05", "C07", "C10"},
    "mul": {"C04", "C05", "C06", "C08"},
    "rmul": {"C04", "C05", "C06", "C08"},
    "fill": {"C01", "C02", "C05", "C06", "C16"},
    "fill-rollback": {"C12"},
    "copy": {"C06", "C04"},
    "eq": {"C06", "C09"},
    "ne": {"C06", "C09"},
}


# methods outside the symbolic executor's reach: covered by a bounded native stand-in (nativeob.py)
STANDIN = {("Bag", "eq"): "nested loops with break over sorted item lists", ("Bag", "ne"): "delegates to Bag.__eq__"}


def method_tasks(prop):
    out = []
    for K in CLASSES:
        for kind, props in KIND_PROPS.items():
            if prop not in props:
                continue
            if (K, kind) in STANDIN:
                continue
            if kind == "fill-rollback" and K not in SINGLE_PATH + OWN_QUANTITY_FANOUT:
                continue
            out.append(("method", K, kind))
    if prop == "C06":
        # copy() of a reloaded container (ed / fromJson built) is a fresh object too
        for K in CLASSES:
            out.append(("method", K, "copy", "reloaded"))
    if prop == "C16":
        # the representation invariant the cross-reference walk relies on (the skipped template is not a
        # fillable slot) is established by every producer of the three classes that keep a template
        for K in ("SparselyBin", "CentrallyBin", "Categorize"):
            for kind in ("zero", "add", "iadd", "mul"):
                out.append(("method", K, kind))
                out.append(("method", K, kind, "reloaded"))
    if prop in ("C01", "C10", "C08"):
        # the content type of a sparse container built by ed / fromJson (no template to derive it from) must survive zero, +
        # and *: later merges check it (C10) and associativity of + on reloaded partial results depends on it (C01)
        for K in ("SparselyBin", "Categorize"):
            for kind in {"C01": ("zero", "add"), "C10": ("add", "iadd"), "C08": ("mul",)}[prop]:
                out.append(("method", K, kind, "reloaded"))
    if prop == "C04":
        # "the reloaded container is interchangeable with the original under +, *, zero(), copy()":
        # the same interface clauses on pre-states built the way ed / fromJsonFragment build them
        for K in CLASSES:
            for kind in ("zero", "add", "iadd", "mul", "copy"):
                out.append(("method", K, kind, "reloaded"))
    return out


def run_method_task(P, K, kind, mode="live"):
    from . import contracts as C

    if kind == "zero":
        return [C.ob_zero(P, K, mode=mode)]
    if kind == "add":
        return C.ob_add(P, K, mode=mode)
    if kind == "iadd":
        return C.ob_iadd(P, K, mode=mode)
    if kind == "mul":
        return [C.ob_mul(P, K, "__mul__", mode=mode)]
    if kind == "rmul":
        return [C.ob_mul(P, K, "__rmul__")]
    if kind == "copy":
        return [C.ob_copy(P, K, mode=mode)]
    if kind == "fill":
        return [C.ob_fill(P, K)]
    if kind == "fill-rollback":
        return [C.ob_fill(P, K, rollback=True)]
    if kind == "eq":
        return C.ob_eq(P, K, "__eq__")
    if kind == "ne":
        return C.ob_eq(P, K, "__ne__")
    raise ValueError(kind)
