"""C16: the body of Container._checkForCrossReferences under a modular contract.

The recursive walk is executed on the real AST for every class, with the recursive call on a child replaced by the
child's contract (it records the visit and either returns or raises ContainerException).  Proved per node:

  flagged-root-returns     a root call (memo is None) on a node whose flag is set returns without visiting anything
  raises-if-self-in-memo   a node that is already in the memo raises ContainerException before anything else: no child
                           is visited, the memo and the flag are unchanged
  otherwise                the node appends itself to the memo, visits every fill slot exactly once and nothing else
                           (the template is skipped), sets its flag only on normal completion, and leaves the flag
                           unset when a visit raised (the exception propagates)

Together with `children` enumerating exactly the fill slots (c16.py) and the invariant that the skipped template is not
a fill slot, the global statement (an object at two positions is met twice by the walk, hence found in the memo the
second time) is an induction over the tree that is not mechanised; it is exercised by the bounded stand-in.
"""

import z3

from . import core, models, schema, smt
from .core import NONE, CList, Inst, State, Unsupported, VBool, VChild, VNone, VObj
from .execu import Exec
from .extra import add_function, record
from .frontend import PRIMITIVES

import sys, os

sys.path.insert(0, os.path.dirname(os.path.dirname(os.path.abspath(__file__))))
from spec import specs  # noqa: E402


def tasks_for(prop, tier):
    if prop != "C16":
        return []
    return [("xref", K) for K in PRIMITIVES]


def goal_rec(out, prop, fn, clause, path, variant, st, goal, tier, extra_index=()):
    s = st.fork()
    if callable(goal):
        goal = goal(s)
    vc = smt.build_vc(f"{fn}/{clause}#{path}", s, goal, extra_index=extra_index)
    record(out, prop, fn, clause, path, variant, vc, tier)


def run_task(P, task, prop, tier, out):
    K = task[1]
    fi = P.function("histogrammar.defs.Container._checkForCrossReferences")
    add_function(out, fi, K)
    hooks = models.std_hooks()
    hooks["call_models"] = {k: v for k, v in hooks["call_models"].items() if not k.endswith("._checkForCrossReferences")}
    hooks["child_xref_may_raise"] = True
    for mode in ("live", "reloaded"):
        for variant in ("root", "root-flagged", "memo-other", "memo-other-flagged", "memo-self"):
            X = Exec(P, hooks)
            st = State()
            selfv = schema.make_instance(st, K, 1, mode=mode)
            o = st.obj(selfv)
            if variant in ("root-flagged", "memo-other-flagged"):
                # the flag only short-cuts a root call: below a root the node is walked again
                st.set_obj(selfv, o.with_field("_checkedForCrossReferences", VBool(True)))
            other = st.alloc(Inst("Count", {}), new=False)
            memo = NONE
            if variant in ("memo-other", "memo-other-flagged"):
                memo = st.alloc(CList([other]), new=False)
            if variant == "memo-self":
                memo = st.alloc(CList([other, selfv]), new=False)
            pre = st.fork()
            st.frames = [{"%module": "histogrammar.defs"}]
            try:
                res = X.call_function(st, fi, [selfv, memo], {})
            except Unsupported as e:
                out["out_of_reach"].append({"function": fi.qualname, "reason": f"[{K} {mode} {variant}] {e}"})
                return
            for i, r in enumerate(res):
                p = f"{K}:{mode}:{variant}:p{i}"
                s = r.st
                visits = getattr(s, "xref_calls", [])
                flag0 = pre.obj(selfv).fields.get("_checkedForCrossReferences")
                flag1 = s.obj(selfv).fields.get("_checkedForCrossReferences")
                flag_same = flag1 is flag0 or (isinstance(flag0, VBool) and isinstance(flag1, VBool) and z3.eq(z3.simplify(flag0.t), z3.simplify(flag1.t)))
                memo_same = isinstance(memo, VNone) or s.heap.get(memo.oid) is pre.heap.get(memo.oid)
                if variant == "root-flagged":
                    ok = r.exc is None and not visits and flag_same
                    goal_rec(out, prop, fi.qualname, "ensures:flagged-root-returns", p, variant, s, z3.BoolVal(bool(ok)), tier)
                    continue
                if variant == "memo-self":
                    ok = r.exc is not None and r.exc.cls == "ContainerException" and not visits and flag_same and memo_same
                    goal_rec(out, prop, fi.qualname, "raises:if-self-in-memo-before-anything-else", p, variant, s, z3.BoolVal(bool(ok)), tier)
                    continue
                raised_by_child = any(ev[-2:] == ("child-xref-raised",) or (len(ev) >= 2 and ev[-2] == "child-xref-raised") for ev in s.events)
                if r.exc is not None:
                    ok = r.exc.cls == "ContainerException" and raised_by_child and flag_same
                    goal_rec(out, prop, fi.qualname, "raises:only-from-a-visit-and-flag-not-set", p, variant, s, z3.BoolVal(bool(ok)), tier)
                    continue
                # normal completion
                fl_set = isinstance(flag1, VBool) and z3.is_true(z3.simplify(flag1.t))
                goal_rec(out, prop, fi.qualname, "ensures:flag-set-on-completion", p, variant, s, z3.BoolVal(bool(fl_set)), tier)
                if variant in ("memo-other", "memo-other-flagged"):
                    mo = s.heap.get(memo.oid)
                    app = isinstance(mo, CList) and len(mo.items) == 2 and mo.items[0] is other and isinstance(mo.items[1], VObj) and mo.items[1].oid == selfv.oid
                    goal_rec(out, prop, fi.qualname, "ensures:self-appended-to-memo", p, variant, s, z3.BoolVal(bool(app)), tier)
                visits_goals(out, prop, fi, K, p, variant, s, pre, selfv, visits, tier)


def visits_goals(out, prop, fi, K, p, variant, s, pre, selfv, visits, tier):
    """every fill slot visited exactly once; nothing else visited"""
    from .sv import CTuple, comp_of

    o = pre.obj(selfv)
    single, fams = [], []
    for rec in visits:
        if isinstance(rec, tuple) and rec and isinstance(rec[0], str) and rec[0] == "family":
            _, k, desc, cond, sub = rec
            for ref_t in sub:
                fams.append((k, desc, cond, ref_t))
        else:
            single.append(rec)

    def pred(fm, kk):
        k, desc, cond, ref_t = fm
        sub = lambda t: z3.substitute(t, (k, kk))
        return lambda target: z3.And(desc.guard(kk), sub(cond), sub(ref_t) == target)

    for f, kind in specs.CHILDREN.get(K, {}).items():
        s2 = s.fork()
        fv = o.fields.get(f)
        cands = [z3.IntVal(c) for c in range(0, 6)]
        if kind == "one":
            target, guard = fv.ref, z3.BoolVal(True)
        else:
            c = comp_of(pre, fv)
            key = s2.fresh("sk.slot", c.ksort)
            s2.add_index(key)
            comp = c.val(key)
            if isinstance(comp, CTuple):
                comp = comp.items[1]
            target, guard = comp.ref, c.dom(key)
            if c.ksort == z3.IntSort():
                cands += [key + cc for cc in range(0, 6)]
            else:
                # a dict slot is walked through the dict's enumeration: position of the key (+ the slots listed before)
                from .builtins_model import dpos
                from .core import LDict

                for oo in s2.heap.values():
                    if isinstance(oo, LDict):
                        cands += [dpos(z3.IntVal(oo.did), key) + cc for cc in range(0, 6)]
        s2.add(guard)
        nf = [r == target for r in single]
        at_least = list(nf)
        at_most = [z3.Not(z3.And(a, b)) for i, a in enumerate(nf) for b in nf[i + 1 :]]
        sk = []
        for fm in fams:
            ksort = fm[1].ksort
            ws = [w for w in cands if w.sort() == ksort] if ksort == z3.IntSort() else []
            if ksort != z3.IntSort() and kind != "one":
                ws = [key] if key.sort() == ksort else []
            at_least += [pred(fm, w)(target) for w in ws]
            k1, k2 = s2.fresh("sk.v1", ksort), s2.fresh("sk.v2", ksort)
            s2.add_index(k1)
            s2.add_index(k2)
            at_most.append(z3.Implies(z3.And(pred(fm, k1)(target), pred(fm, k2)(target)), k1 == k2))
            at_most += [z3.Not(z3.And(h, pred(fm, k1)(target))) for h in nf]
            sk.append((fm, k1))
        for i, (fa, ka) in enumerate(sk):
            for fb, kb in sk[i + 1 :]:
                at_most.append(z3.Not(z3.And(pred(fa, ka)(target), pred(fb, kb)(target))))
        g = z3.And(z3.Or(at_least) if at_least else z3.BoolVal(False), *at_most)
        goal_rec(out, prop, fi.qualname, f"ensures:slot-visited-once:{f}", p, variant, s2, g, tier, extra_index=cands)
    # nothing but fill slots: each visit is a slot of this node (not the template)
    tv = o.fields.get("value")
    s3 = s.fork()
    gs = []
    own = lambda r: z3.And(core.Ref.is_Old(r), core.Ref.owner(r) == 1)
    nt = lambda r: (r != tv.ref) if isinstance(tv, VChild) else z3.BoolVal(True)
    for r in single:
        gs.append(z3.And(own(r), nt(r)))
    for k, desc, cond, ref_t in fams:
        kw = s3.fresh("sk.visit", desc.ksort)
        s3.add_index(kw)
        sub = lambda t: z3.substitute(t, (k, kw))
        gs.append(z3.Implies(z3.And(desc.guard(kw), sub(cond)), z3.And(sub(own(ref_t)), sub(nt(ref_t)))))
    goal_rec(out, prop, fi.qualname, "ensures:only-fill-slots-visited", p, variant, s3, z3.And(gs) if gs else z3.BoolVal(True), tier)
