"""C16: the body of Container._checkForCrossReferences under a modular contract.

The recursive walk is executed on the real AST for every class, with the recursive call on a child replaced by the
child's contract (it records the visit and either returns or raises ContainerException).  Proved per node:

  flagged-root-returns     a root call (memo is None) on a node whose flag is set returns without visiting anything
  raises-if-self-in-memo   a node that is already in the memo raises ContainerException before anything else: no child
                           is visited, the memo and the flag are unchanged
  otherwise                the node appends itself to the memo, visits every fill slot exactly once and nothing else
                           (the template is skipped), sets its flag only on normal completion, and leaves the flag
                           unset when a visit raised (the exception propagates)

Together with `children` enumerating exactly the fill slots (c16.py) and the invariant that the skipped template is not
a fill slot, the global statement (an object at two positions is met twice by the walk, hence found in the memo the
second time) is an induction over the tree that is not mechanised; it is exercised by the bounded stand-in.
"""

import z3

from . import core, models, schema, smt
from .core import NONE, CList, Inst, State, Unsupported, VBool, VChild, VNone, VObj
from .execu import Exec
from .extra import add_function, record
from .frontend import PRIMITIVES

import sys, os

sys.path.insert(0, os.path.dirname(os.path.dirname(os.path.abspath(__file__))))
from spec import specs  # noqa: E402


def tasks_for(prop, tier):
    if prop != "C16":
        return []
    return [("xref", K) for K in PRIMITIVES]


def goal_rec(out, prop, fn, clause, path, variant, st, goal, tier, extra_index=()):
    s = st.fork()
    if callable(goal):
        goal = goal(s)
    vc = smt.build_vc(f"{fn}/{clause}#{path}", s, goal, extra_index=extra_index)
    record(out, prop, fn, clause, path, variant, vc, tier)


def run_task(P, task, prop, tier, out):
    K = task[1]
    fi = P.function("histogrammar.defs.Container._checkForCrossReferences")
    add_function(out, fi, K)
    hooks = models.std_hooks()
    hooks["call_models"] = {k: v for k, v in hooks["call_models"].items() if not k.endswith("._checkForCrossReferences")}
    hooks["child_xref_may_raise"] = True
    for mode in ("live", "reloaded"):
        for variant in ("root", "root-flagged", "memo-other", "memo-self"):
            X = Exec(P, hooks)
            st = State()
            selfv = schema.make_instance(st, K, 1, mode=mode)
            o = st.obj(selfv)
            if variant == "root-flagged":
                st.set_obj(selfv, o.with_field("_checkedForCrossReferences", VBool(True)))
            other = st.alloc(Inst("Count", {}), new=False)
            memo = NONE
            if variant == "memo-other":
                memo = st.alloc(CList([other]), new=False)
            if variant == "memo-self":
                memo = st.alloc(CList([other, selfv]), new=False)
            pre = st.fork()
            st.frames = [{"%module": "histogrammar.defs"}]
            try:
                res = X.call_function(st, fi, [selfv, memo], {})
            except Unsupported as e:
                out["out_of_reach"].append({"function": fi.qualname, "reason": f"[{K} {mode} {variant}] {e}"})
                return
            for i, r in enumerate(res):
                p = f"{K}:{mode}:{variant}:p{i}"
                s = r.st
                visits = getattr(s, "xref_calls", [])
                flag0 = pre.obj(selfv).fields.get("_checkedForCrossReferences")
                flag1 = s.obj(selfv).fields.get("_checkedForCrossReferences")
                flag_same = flag1 is flag0 or (isinstance(flag0, VBool) and isinstance(flag1, VBool) and z3.eq(z3.simplify(flag0.t), z3.simplify(flag1.t)))
                memo_same = isinstance(memo, VNone) or s.heap.get(memo.oid) is pre.heap.get(memo.oid)
                if variant == "root-flagged":
                    ok = r.exc is None and not visits and flag_same
                    goal_rec(out, prop, fi.qualname, "ensures:flagged-root-returns", p, variant, s, z3.BoolVal(bool(ok)), tier)
                    continue
                if variant == "memo-self":
                    ok = r.exc is not None and r.exc.cls == "ContainerException" and not visits and flag_same and memo_same
                    goal_rec(out, prop, fi.qualname, "raises:if-self-in-memo-before-anything-else", p, variant, s, z3.BoolVal(bool(ok)), tier)
                    continue
                raised_by_child = any(ev[-2:] == ("child-xref-raised",) or (len(ev) >= 2 and ev[-2] == "child-xref-raised") for ev in s.events)
                if r.exc is not None:
                    ok = r.exc.cls == "ContainerException" and raised_by_child and flag_same
                    goal_rec(out, prop, fi.qualname, "raises:only-from-a-visit-and-flag-not-set", p, variant, s, z3.BoolVal(bool(ok)), tier)
                    continue
                # normal completion
                fl_set = isinstance(flag1, VBool) and z3.is_true(z3.simplify(flag1.t))
                goal_rec(out, prop, fi.qualname, "ensures:flag-set-on-completion", p, variant, s, z3.BoolVal(bool(fl_set)), tier)
                if variant == "memo-other":
                    mo = s.heap.get(memo.oid)
                    app = isinstance(mo, CList) and len(mo.items) == 2 and mo.items[0] is other and isinstance(mo.items[1], VObj) and mo.items[1].oid == selfv.oid
                    goal_rec(out, prop, fi.qualname, "ensures:self-appended-to-memo", p, variant, s, z3.BoolVal(bool(app)), tier)
                visits_goals(out, prop, fi, K, p, variant, s, pre, selfv, visits, tier)


def visits_goals(out, prop, fi, K, p, variant, s, pre, selfv, visits, tier):
    """every fill slot visited exactly once; nothing else visited"""
    from .loops import invert
    from .sv import CTuple, comp_of

    o = pre.obj(selfv)
    flat = []
    for rec in visits:
        if isinstance(rec[0], str) and rec[0] == "family":
            _, k, desc, cond, sub = rec
            for ref_t in sub:
                flat.append((k, desc, cond, ref_t))
        else:
            flat.append((None, None, None, rec))
    for f, kind in specs.CHILDREN.get(K, {}).items():
        s2 = s.fork()
        fv = o.fields.get(f)
        if kind == "one":
            target, guard = fv.ref, z3.BoolVal(True)
        else:
            c = comp_of(pre, fv)
            key = s2.fresh("sk.slot", c.ksort)
            s2.add_index(key)
            comp = c.val(key)
            if isinstance(comp, CTuple):
                comp = comp.items[1]
            target, guard = comp.ref, c.dom(key)
        s2.add(guard)
        hits = []
        for k, desc, cond, ref_t in flat:
            if k is None:
                hits.append(ref_t == target)
            else:
                kk = invert(ref_t, k, target)
                if kk is None:
                    continue
                s2.add_index(kk)
                hits.append(z3.And(desc.guard(kk), z3.substitute(cond, (k, kk)), z3.substitute(ref_t, (k, kk)) == target))
        g = z3.PbEq([(h, 1) for h in hits], 1) if hits else z3.BoolVal(False)
        goal_rec(out, prop, fi.qualname, f"ensures:slot-visited-once:{f}", p, variant, s2, g, tier)
    # nothing but fill slots: each visit is a slot of this node (not the template)
    tv = o.fields.get("value")
    s3 = s.fork()
    gs = []
    for k, desc, cond, ref_t in flat:
        own = z3.And(core.Ref.is_Old(ref_t), core.Ref.owner(ref_t) == 1)
        nt = ref_t != tv.ref if isinstance(tv, VChild) else z3.BoolVal(True)
        if k is None:
            gs.append(z3.And(own, nt))
        else:
            kw = s3.fresh("sk.visit", desc.ksort)
            s3.add_index(kw)
            sub = lambda t: z3.substitute(t, (k, kw))
            gs.append(z3.Implies(z3.And(desc.guard(kw), sub(cond)), z3.And(sub(own), sub(nt))))
    goal_rec(out, prop, fi.qualname, "ensures:only-fill-slots-visited", p, variant, s3, z3.And(gs) if gs else z3.BoolVal(True), tier)
