"""Replay of refuted obligations against the real code (DESIGN §3.2)."""

import json
import os
import re
import subprocess

from . import REPO, VERIF


def slug(s):
    return re.sub(r"[^A-Za-z0-9_.-]+", "_", s)


def make_replay(prop, name, recs, baseline):
    """Try to reproduce the refuted obligation natively; returns the replay path (.py if it reproduces,
    .json carrying the verifier's output otherwise)."""
    d = os.path.join(VERIF, "replays", prop)
    os.makedirs(d, exist_ok=True)
    base = os.path.join(d, slug(name.split("/", 1)[1]))
    was = baseline.get(prop, {}).get(name)
    info = {
        "property": prop,
        "obligation": name,
        "baseline_verdict": was,
        "note": "discharged on the unchanged tree and refuted now" if was == "unsat" else "no baseline verdict recorded",
        "failing_paths": [
            {k: r.get(k) for k in ("path", "variant", "verdict", "backend", "model", "model_text", "seconds", "reason")} for r in recs
        ],
    }
    try:
        from . import native

        script = native.build_script(prop, name, recs)
    except Exception as e:  # replay machinery must never turn into a crash of the check
        script = None
        info["replay_error"] = repr(e)
    if script is not None:
        path = base + ".py"
        with open(path, "w") as f:
            f.write(script)
        try:
            p = subprocess.run(["/venv/bin/python", path], capture_output=True, text=True, timeout=300, env={**os.environ, "HISTOGRAMMAR_PYTHON_VERIF": "1"})
            info["replay_stdout"] = p.stdout[-2000:]
            info["replay_exit"] = p.returncode
            if p.returncode == 1:
                with open(base + ".info.json", "w") as f:
                    json.dump(info, f, indent=1)
                return path
        except subprocess.TimeoutExpired:
            info["replay_exit"] = "timeout"
        os.unlink(path)
    path = base + ".json"
    with open(path, "w") as f:
        json.dump(info, f, indent=1)
    return path
