"""Engine canaries (DESIGN §3.4): deliberately false obligations that must be refuted, one per engine
feature, plus a true one that must be discharged.  Run by setup_cmd and by every thorough check."""

import z3

from . import contracts as C
from . import core, schema, smt
from .core import NONE, State, VFl, VOpq
from .fl import Fl
from .frontend import Program
from .sv import content_eq


def canaries(P=None):
    P = P or Program()
    res = []

    def expect(name, vc, want):
        smt.discharge(vc)
        res.append((name, vc.verdict, want, vc.verdict == want))

    # 1 float table: python nan == nan is False
    st = State()
    a = Fl.const(float("nan"))
    expect("fl:nan-eq-nan", smt.build_vc("c1", st, a.eq(a)), "sat")
    expect("fl:inf-minus-inf-is-nan", smt.build_vc("c1b", st, Fl.const(float("inf")).sub(Fl.const(float("inf"))).nan), "unsat")
    # 2 straight-line method: Sum.fill changes the sum
    cx = C.Ctx(P, "Sum", "fill", "canary")
    st = State()
    s = schema.make_instance(st, "Sum", 1)
    w = schema.sym_fl(st, "w")
    st.add(w.isfin(), w.r > 0)
    pre = st.fork()
    d = z3.Const("d", core.Datum)
    rs = [r for r in cx.X.run(st, cx.fi, [s, VOpq(d, "datum"), VFl(w)]) if r.exc is None]
    ok_paths = 0
    for r in rs:
        g = content_eq(r.st, C.view_of(r.st, s, "Sum")["sum"], C.view_of(pre, s, "Sum")["sum"])
        vc = smt.build_vc("c2", r.st.fork(), g)
        smt.discharge(vc)
        ok_paths += vc.verdict == "sat"
    res.append(("exec:sum-fill-changes-sum", f"{ok_paths} sat paths", ">=1", ok_paths >= 1))
    # 3 family rule: Bin.__add__ result bins are not the left operand's bins
    cx = C.Ctx(P, "Bin", "__add__", "canary")
    st = State()
    a_ = schema.make_instance(st, "Bin", 1)
    b_ = schema.make_instance(st, "Bin", 2)
    pre = st.fork()
    hit = 0
    for r in cx.X.run(st, cx.fi, [a_, b_]):
        if r.exc is None:
            s2 = r.st.fork()
            g = content_eq(s2, C.view_of(s2, r.v, "Bin")["values"], C.view_of(pre, a_, "Bin")["values"])
            vc = smt.build_vc("c3", s2, g)
            smt.discharge(vc)
            hit += vc.verdict == "sat"
    res.append(("family:bin-add-values", f"{hit} sat", ">=1", hit >= 1))
    # 4 dict update: SparselyBin.fill may add a key
    cx = C.Ctx(P, "SparselyBin", "fill", "canary")
    st = State()
    a_ = schema.make_instance(st, "SparselyBin", 1)
    w = schema.sym_fl(st, "w")
    st.add(w.isfin(), w.r > 0)
    pre = st.fork()
    hit = 0
    for r in cx.X.run(st, cx.fi, [a_, VOpq(d, "datum"), VFl(w)]):
        if r.exc is None:
            s2 = r.st.fork()
            g = content_eq(s2, C.view_of(s2, a_, "SparselyBin")["bins"], C.view_of(pre, a_, "SparselyBin")["bins"])
            vc = smt.build_vc("c4", s2, g)
            smt.discharge(vc)
            hit += vc.verdict == "sat"
    res.append(("dict:sparse-fill-adds-key", f"{hit} sat", ">=1", hit >= 1))
    # 5 exceptional path: Count + None raises
    cx = C.Ctx(P, "Count", "__add__", "canary")
    st = State()
    a_ = schema.make_instance(st, "Count", 1)
    rs = cx.X.run(st, cx.fi, [a_, NONE])
    res.append(("exc:count-add-none-raises", str([r.exc for r in rs]), "all raise", all(r.exc is not None for r in rs) and len(rs) > 0))
    # 6 laws layer: a wrong algebraic law over the spec functions is refuted
    from . import laws
    from spec import specs

    for K in ("Sum", "Bin", "SparselyBin"):
        st = State()
        sh = laws.shared_for(st, K)
        a, b, c = (laws.sym_view(st, K, t, sh) for t in "abc")
        laws.assume_compat(st, K, a, b)
        out = {"records": []}
        laws.prove(out, "C01", K, "canary", "plus-is-left-operand", st, lambda s: laws.eq(s, K, specs.plus(K, s, a, b), a, "x"), "quick")
        res.append((f"laws:{K}:plus-is-not-projection", out["records"][0]["verdict"], "sat", out["records"][0]["verdict"] == "sat"))
    return res


def main():
    ok = True
    for name, got, want, good in canaries():
        print(f"canary {name}: got {got}, want {want}: {'ok' if good else 'FAILED'}")
        ok = ok and good
    return 0 if ok else 3
