"""Structured views: the abstraction function from heap objects to specification values.

A component is one of
  CFl(fl) | CInt(t) | CBool(t) | CStr(t) | CNone | CChild(view, ref) | CTuple(items)
  | CFam(ksort, dom, val, length, pytype, oid)   (a family: list / tuple / dict)
  | CFcn(expr, name)                              (a user function: expr identity + optional name)
  | CIte(c, a, b)
`content_eq(st, a, b)` yields a Bool term (through st.forall for families) stating equality of
aggregated content with nan == nan: the equality of the specification (DESIGN §2.4 `veq`).
"""

import z3

from . import core
from .builtins_model import VKey
from .core import (
    CDict,
    CList,
    Inst,
    LDict,
    LList,
    Unsupported,
    VBool,
    VChild,
    VFl,
    VInt,
    VIte,
    VJson,
    VNone,
    VObj,
    VOpq,
    VStr,
    VTuple,
)
from .fl import Fl


class Comp:
    pass


class CFl(Comp):
    def __init__(self, fl):
        self.fl = fl


class CInt(Comp):
    def __init__(self, t):
        self.t = t

    @property
    def fl(self):
        return Fl.fin(z3.ToReal(self.t))


class CBool(Comp):
    def __init__(self, t):
        self.t = t

    @property
    def fl(self):
        return Fl.fin(z3.If(self.t, z3.RealVal(1), z3.RealVal(0)))


class CStr(Comp):
    def __init__(self, t):
        self.t = t


class CNone_(Comp):
    view = z3.Const("noview", core.View)
    ref = None
    fl = Fl.const(0.0)


CNONE = CNone_()


class CChild(Comp):
    def __init__(self, view, ref=None):
        self.view = view
        self.ref = ref


class CTuple(Comp):
    def __init__(self, items):
        self.items = list(items)


class CFam(Comp):
    def __init__(self, ksort, dom, val, length=None, pytype="list", oid=None):
        self.ksort, self.dom, self.val, self.length, self.pytype, self.oid = ksort, dom, val, length, pytype, oid


class CFcn(Comp):
    def __init__(self, expr, name, oid=None):
        self.expr, self.name, self.oid = expr, name, oid


class COpq(Comp):
    def __init__(self, t, tag):
        self.t, self.tag = t, tag


class CIte(Comp):
    def __init__(self, c, a, b):
        self.c, self.a, self.b = c, a, b

    @property
    def view(self):
        return z3.If(self.c, self.a.view, self.b.view)

    @property
    def fl(self):
        return Fl.ite(self.c, self.a.fl, self.b.fl)

    @property
    def ref(self):
        if self.a.ref is None or self.b.ref is None:
            return None
        return z3.If(self.c, self.a.ref, self.b.ref)


def comp_of(st, v, B=None):
    """Abstraction of a value in state st."""
    if isinstance(v, VFl):
        return CFl(v.fl)
    if isinstance(v, VInt):
        return CInt(v.t)
    if isinstance(v, VBool):
        return CBool(v.t)
    if isinstance(v, VStr):
        return CStr(v.t)
    if isinstance(v, VNone):
        return CNONE
    if isinstance(v, VChild):
        return CChild(st.view(v.ref), v.ref)
    if isinstance(v, VTuple):
        return CTuple([comp_of(st, x) for x in v.items])
    if isinstance(v, VIte):
        return CIte(v.c, comp_of(st, v.a), comp_of(st, v.b))
    if isinstance(v, core.VRec):
        return CRec({k: comp_of(st, x) for k, x in v.items.items()})
    if isinstance(v, VKey):
        return COpq(v.t, "key")
    if isinstance(v, VOpq):
        return COpq(v.t, v.tag)
    if isinstance(v, VJson):
        return COpq(v.t, "json")
    if isinstance(v, VObj):
        o = st.obj(v)
        if isinstance(o, CList):
            items = list(o.items)
            n = len(items)

            def val(i, items=items):
                from .builtins_model import Builtins

                if n == 0:
                    return CNONE
                return comp_of(st, Builtins.clist_get(None, CList(items), i))

            return CFam(z3.IntSort(), lambda i: z3.And(i >= 0, i < n), val, z3.IntVal(n), "tuple" if o.is_tuple else "list", v.oid)
        if isinstance(o, LList):
            n = o.length()
            return CFam(
                z3.IntSort(),
                lambda i: z3.And(i >= 0, i < n),
                lambda i: comp_of(st, o.get(i)),
                n,
                "tuple" if o.is_tuple else "list",
                v.oid,
            )
        if isinstance(o, CDict):
            from .builtins_model import Builtins

            lo = Builtins.cdict_to_ldict(Builtins(None), st, o)
            return CFam(core.Key, lo.present, lambda k: comp_of(st, lo.val(k)), lo.length(), "dict", v.oid)
        if isinstance(o, LDict):
            return CFam(core.Key, o.present, lambda k: comp_of(st, o.val(k)), o.length(), "dict", v.oid)
        if isinstance(o, Inst) and o.cls in ("UserFcn", "CachedFcn"):
            return CFcn(comp_of(st, o.fields.get("expr", core.NONE)), comp_of(st, o.fields.get("name", core.NONE)), v.oid)
        if isinstance(o, Inst):
            return CInst(o.cls, {k: comp_of(st, x) for k, x in o.fields.items() if k not in ("fill", "plot")}, v.oid)
    raise Unsupported(f"abstraction of {v!r}")


class CRec(Comp):
    def __init__(self, items):
        self.items = items


class CInst(Comp):
    def __init__(self, cls, fields, oid=None):
        self.cls, self.fields, self.oid = cls, fields, oid


def content_eq(st, a, b, name="eq"):
    """Bool term: a and b have equal content (nan == nan, families pointwise)."""
    if isinstance(a, CIte):
        return z3.If(a.c, content_eq(st, a.a, b, name), content_eq(st, a.b, b, name))
    if isinstance(b, CIte):
        return z3.If(b.c, content_eq(st, a, b.a, name), content_eq(st, a, b.b, name))
    if isinstance(a, CFl) and isinstance(b, CFl):
        return a.fl.same(b.fl)
    if isinstance(a, (CFl, CInt, CBool)) and isinstance(b, (CFl, CInt, CBool)) and type(a) is not type(b):
        return a.fl.same(b.fl)
    if isinstance(a, CInt) and isinstance(b, CInt):
        return a.t == b.t
    if isinstance(a, CBool) and isinstance(b, CBool):
        return a.t == b.t
    if isinstance(a, CStr) and isinstance(b, CStr):
        return a.t == b.t
    if isinstance(a, CNone_) or isinstance(b, CNone_):
        return z3.BoolVal(isinstance(a, CNone_) and isinstance(b, CNone_))
    if isinstance(a, CChild) and isinstance(b, CChild):
        return a.view == b.view
    if isinstance(a, COpq) and isinstance(b, COpq):
        return a.t == b.t if a.t.sort() == b.t.sort() else z3.BoolVal(False)
    if isinstance(a, CTuple) and isinstance(b, CTuple):
        if len(a.items) != len(b.items):
            return z3.BoolVal(False)
        return z3.And([content_eq(st, x, y, name) for x, y in zip(a.items, b.items)] or [z3.BoolVal(True)])
    if isinstance(a, CRec) and isinstance(b, CRec):
        if set(a.items) != set(b.items):
            return z3.BoolVal(False)
        return z3.And([content_eq(st, a.items[k], b.items[k], name) for k in a.items] or [z3.BoolVal(True)])
    if isinstance(a, CFcn) and isinstance(b, CFcn):
        return z3.And(content_eq(st, a.expr, b.expr, name), content_eq(st, a.name, b.name, name))
    if isinstance(a, CFam) and isinstance(b, CFam):
        if a.ksort != b.ksort:
            return z3.BoolVal(False)
        k = z3.Const(f"ceq!{core.uid()}", a.ksort)
        body = z3.And(a.dom(k) == b.dom(k), z3.Implies(a.dom(k), content_eq(st, a.val(k), b.val(k), name)))
        return st.forall(k, z3.BoolVal(True), body, equiv=True, name=name)
    if type(a) is not type(b):
        return z3.BoolVal(False)
    raise Unsupported(f"content_eq of {type(a).__name__}")


def fam_all(st, fam, pred, name="all"):
    """Bool term: pred(val(k)) for every key of the family."""
    k = z3.Const(f"fall!{core.uid()}", fam.ksort)
    return st.forall(k, fam.dom(k), pred(k, fam.val(k)), equiv=True, name=name)


def inst_view(st, v, fields):
    """Structured view of an instance: {field: component} for the listed fields (missing -> absent)."""
    o = st.obj(v)
    out = {}
    for f in fields:
        if f in o.fields:
            out[f] = comp_of(st, o.fields[f])
    return out
