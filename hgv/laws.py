"""Algebraic laws of the specification functions (DESIGN §2.4): for every class K, assuming the same
laws for K's children (induction hypothesis, instantiated on the ground View terms of each VC):

  L-id     plus(a, zero(a)) = a = plus(zero(a), a)
  L-comm   compat(a, b) => plus(a, b) = plus(b, a)
  L-assoc  plus(plus(a, b), c) = plus(a, plus(b, c))
  L-hom    fill(plus(a, b), d, w) = plus(a, fill(b, d, w))            (w > 0)
  L-scale  scale(scale(a,f),g) = scale(a, f*g); scale(a,1) = a; scale(a,2) = plus(a,a);
           scale(plus(a,b),f) = plus(scale(a,f), scale(b,f))

These are lemmas over the spec functions the method contracts are proved against (contracts.py); together
with the Lean theorem HgvMeta.fold_partition they give the all-partitions / all-schedules statement of C01,
the order independence of C02 and the scaling identities of C08.
"""

import z3

from . import core, schema, smt
from .core import State
from .extra import record
from .fl import Fl
from .frontend import PRIMITIVES
from .sv import CChild, CFam, CFl, CStr, CTuple, content_eq

import sys, os
sys.path.insert(0, os.path.dirname(os.path.dirname(os.path.abspath(__file__))))
from spec import binspec, fillspec, specs  # noqa: E402

LAWS = ["L-id", "L-comm", "L-assoc", "L-hom", "L-scale"]
LAW_PROPS = {"L-id": {"C01"}, "L-comm": {"C01"}, "L-assoc": {"C01"}, "L-hom": {"C01", "C02"}, "L-scale": {"C08"}}
MOMENT = ("Average", "Deviate")


def tasks_for(prop, tier):
    return [("law", K, law) for K in PRIMITIVES for law in LAWS if prop in LAW_PROPS[law]]


# --------------------------------------------------------------------------- symbolic views


def sym_child(st, name):
    v = z3.Const(name, core.View)
    st.add(core.wfv(v), core.E(v) >= 0)
    return CChild(v)


def sym_view(st, K, tag, shared):
    """a symbolic well-formed view of class K.  `shared` carries what compatible operands have in common
    (parameters, sizes, key sets, thresholds); children and contents are per operand."""
    p = f"{tag}.{K}"
    a = {}
    ent = schema.sym_fl(st, p + ".entries", "entries")
    a["entries"] = CFl(ent)
    empty = ent.r == 0
    for prm in specs.PARAMS[K]:
        a[prm] = shared[prm]
    for f in specs.LEAF_FIELDS.get(K, []):
        x = schema.sym_fl(st, f"{p}.{f}")
        a[f] = CFl(x)
        st.add(z3.Implies(empty, x.iszero() if f == "sum" else x.nan))
    for f, kind in specs.CHILDREN.get(K, {}).items():
        if kind == "one":
            a[f] = sym_child(st, f"{p}.{f}")
        elif kind in ("list", "pairs"):
            n = shared["len." + f]
            vf_ = z3.Function(f"{p}.{f}.view", z3.IntSort(), core.View)
            i = z3.Int(f"{p}.{f}.i")
            st.forall(i, z3.And(i >= 0, i < n), z3.And(core.wfv(vf_(i)), core.E(vf_(i)) >= 0), name="wf-children")
            dom = lambda k, n=n: z3.And(k >= 0, k < n)
            if kind == "list":
                a[f] = CFam(z3.IntSort(), dom, lambda k, vf_=vf_: CChild(vf_(k)), n, specs.PYTYPE.get((K, f), "list"))
            else:
                thr = shared["thr." + f]
                a[f] = CFam(z3.IntSort(), dom, lambda k, vf_=vf_, thr=thr: CTuple([CFl(thr(k)), CChild(vf_(k))]), n, specs.PYTYPE.get((K, f), "list"))
        elif kind in ("fixedmap", "sparsemap"):
            domf = shared["dom." + f] if kind == "fixedmap" else z3.Function(f"{p}.{f}.dom", core.Key, z3.BoolSort())
            vf_ = z3.Function(f"{p}.{f}.view", core.Key, core.View)
            k = z3.Const(f"{p}.{f}.k", core.Key)
            body = [core.wfv(vf_(k)), core.E(vf_(k)) >= 0]
            if kind == "sparsemap":
                # bins of one sparse container come from one template
                body += [core.SH(vf_(k)) == shared["tshape"], core.zk(vf_(k)) == shared["tzk"]]
            st.forall(k, domf(k), z3.And(body), name="wf-children")
            a[f] = CFam(core.Key, lambda x, domf=domf: domf(x), lambda x, vf_=vf_: CChild(vf_(x)), None, "dict")
    if K in specs.WEIGHTMAP:
        f = specs.WEIGHTMAP[K]
        domf = z3.Function(f"{p}.{f}.dom", core.Key, z3.BoolSort())
        wf_ = z3.Function(f"{p}.{f}.w", core.Key, z3.RealSort())
        a[f] = CFam(core.Key, lambda x: domf(x), lambda x: CFl(Fl.fin(wf_(x))), None, "dict")
    return a


def shared_for(st, K):
    sh = {}
    for prm in specs.PARAMS[K]:
        if prm == "range":
            sh[prm] = CStr(z3.Const("sh.range", core.StrS))
        else:
            sh[prm] = CFl(schema.sym_fl(st, "sh." + prm, "fin"))
    if K == "Bin":
        st.add(sh["low"].fl.r < sh["high"].fl.r)
    if K == "SparselyBin":
        st.add(sh["binWidth"].fl.r > 0)
    for f, kind in specs.CHILDREN.get(K, {}).items():
        if kind in ("list", "pairs"):
            n = z3.Int("sh.len." + f)
            st.add(n >= (2 if K == "CentrallyBin" else 1))
            sh["len." + f] = n
        if kind == "pairs":
            thr = schema.float_family("sh.thr." + f, 0)
            i, j = z3.Int("sh.ti"), z3.Int("sh.tj")
            n = sh["len." + f]
            if K == "CentrallyBin":
                st.forall(i, z3.And(i >= 0, i < n), z3.And(thr(i).isfin(), thr(i).wf()), name="thr-finite")
                st.forall([i, j], z3.And(i >= 0, i < j, j < n), thr(i).r < thr(j).r, name="thr-monotone")
            else:
                st.add(thr(z3.IntVal(0)).ninf, thr(z3.IntVal(0)).wf())
                st.forall(i, z3.And(i >= 1, i < n), z3.And(thr(i).isfin(), thr(i).wf()), name="thr-finite")
                st.forall([i, j], z3.And(i >= 1, i < j, j < n), thr(i).r < thr(j).r, name="thr-monotone")
            sh["thr." + f] = thr
        if kind == "fixedmap":
            sh["dom." + f] = z3.Function("sh.dom." + f, core.Key, z3.BoolSort())
    sh["tshape"] = z3.Const("sh.tshape", core.Shape)
    sh["tzk"] = z3.Const("sh.tzk", core.Shape)
    return sh


def assume_compat(st, K, a, b):
    """children of compatible operands are pairwise compatible and come from equal templates"""
    for f, kind in specs.CHILDREN.get(K, {}).items():
        def same(x, y):
            return z3.And(core.SH(x.view) == core.SH(y.view), core.zk(x.view) == core.zk(y.view))

        g = specs.all_children2(st, kind, a[f], b[f], same, "compat")
        st.add(g)


# --------------------------------------------------------------------------- induction hypothesis instances


def view_terms(formulas):
    seen, out = set(), []
    stack = list(formulas)
    while stack:
        t = stack.pop()
        i = t.get_id()
        if i in seen:
            continue
        seen.add(i)
        if t.sort() == core.View and z3.is_app(t):
            out.append(t)
        stack.extend(t.children())
    return out


def ih_instances(formulas, rounds=2):
    """ground instances of the interface laws for children (the induction hypothesis of T-IND)"""
    inst, done = [], set()
    cur = list(formulas)
    for _ in range(rounds):
        new = []
        for t in view_terms(cur):
            if t.get_id() in done:
                continue
            done.add(t.get_id())
            nm = t.decl().name()
            if nm == "vplus":
                p, q = t.children()
                compat = z3.And(core.SH(p) == core.SH(q), core.zk(p) == core.zk(q))
                new += [
                    z3.Implies(compat, t == core.vplus(q, p)),
                    core.E(t) == core.E(p) + core.E(q),
                    core.SH(t) == core.SH(p),
                    core.zk(t) == core.zk(p),
                    z3.Implies(q == core.vzero(p), t == p),
                    z3.Implies(p == core.vzero(q), t == q),
                ]
                if z3.is_app(p) and p.decl().name() == "vplus":
                    x, y = p.children()
                    new.append(t == core.vplus(x, core.vplus(y, q)))
                if z3.is_app(q) and q.decl().name() == "vplus":
                    y, z = q.children()
                    new.append(t == core.vplus(core.vplus(p, y), z))
                if z3.is_app(q) and q.decl().name() == "vfill":
                    y, d, w = q.children()
                    new.append(t == core.vfill(core.vplus(p, y), d, w))
            elif nm == "vscale":
                p, f = t.children()
                new += [core.E(t) == f * core.E(p), core.SH(t) == core.SH(p), core.zk(t) == core.zk(p), z3.Implies(f == 1, t == p), z3.Implies(f == 2, t == core.vplus(p, p))]
                if z3.is_app(p) and p.decl().name() == "vscale":
                    x, g = p.children()
                    new.append(z3.Implies(z3.And(f > 0, g > 0), t == core.vscale(x, g * f)))
                if z3.is_app(p) and p.decl().name() == "vplus":
                    x, y = p.children()
                    new.append(z3.Implies(f > 0, t == core.vplus(core.vscale(x, f), core.vscale(y, f))))
            elif nm == "vfill":
                p, d, w = t.children()
                new += [core.E(t) == core.E(p) + w, core.SH(t) == core.SH(p), core.zk(t) == core.zk(p)]
                if z3.is_app(p) and p.decl().name() == "vplus":
                    x, y = p.children()
                    new.append(t == core.vplus(x, core.vfill(y, d, w)))
            elif nm == "zfun":
                (s,) = t.children()
                new += [core.E(t) == 0, core.zk(t) == s]
                if z3.is_app(s) and s.decl().name() == "zk":
                    new.append(core.SH(t) == core.SH(s.arg(0)))
        if not new:
            break
        inst += new
        cur = new
    return inst


def prove(out, prop, K, law, part, st, goal, tier):
    s = st.fork()
    if callable(goal):
        goal = goal(s)
    vc = smt.build_vc(f"{K}/{law}/{part}", s, goal)
    for _ in range(2):
        vc.hyps += ih_instances(vc.hyps + [vc.goal])
    vc.rebuild = None
    record(out, prop, f"spec.{K}", f"law:{law}:{part}", "p0", "law", vc, tier)


def eq(st, K, x, y, name):
    from .contracts import eq_views

    return eq_views(st, K, x, y, name=name)


# --------------------------------------------------------------------------- tasks


def run_task(P, task, prop, tier, out):
    _, K, law = task
    st = State()
    sh = shared_for(st, K)
    a, b, c = (sym_view(st, K, t, sh) for t in "abc")
    assume_compat(st, K, a, b)
    assume_compat(st, K, b, c)
    assume_compat(st, K, a, c)
    if K in MOMENT:
        return moment_laws(out, prop, K, law, st, a, b, c, tier)
    plus = lambda x, y: specs.plus(K, st, x, y)
    if law == "L-id":
        prove(out, prop, K, law, "right", st, lambda s: eq(s, K, specs.plus(K, s, a, specs.zero(K, s, a)), a, "id-r"), tier)
        prove(out, prop, K, law, "left", st, lambda s: eq(s, K, specs.plus(K, s, specs.zero(K, s, a), a), a, "id-l"), tier)
    elif law == "L-comm":
        prove(out, prop, K, law, "comm", st, lambda s: eq(s, K, specs.plus(K, s, a, b), specs.plus(K, s, b, a), "comm"), tier)
    elif law == "L-assoc":
        prove(
            out, prop, K, law, "assoc", st,
            lambda s: eq(s, K, specs.plus(K, s, specs.plus(K, s, a, b), c), specs.plus(K, s, a, specs.plus(K, s, b, c)), "assoc"),
            tier,
        )
    elif law == "L-scale":
        f, g = z3.Real("f"), z3.Real("g")
        st.add(f > 0, g > 0)
        prove(out, prop, K, law, "compose", st, lambda s: eq(s, K, specs.scale(K, s, specs.scale(K, s, a, f), g), specs.scale(K, s, a, f * g), "sc"), tier)
        prove(out, prop, K, law, "one", st, lambda s: eq(s, K, specs.scale(K, s, a, z3.RealVal(1)), a, "s1"), tier)
        prove(out, prop, K, law, "two", st, lambda s: eq(s, K, specs.scale(K, s, a, z3.RealVal(2)), specs.plus(K, s, a, a), "s2"), tier)
        prove(
            out, prop, K, law, "distributes", st,
            lambda s: eq(s, K, specs.scale(K, s, specs.plus(K, s, a, b), f), specs.plus(K, s, specs.scale(K, s, a, f), specs.scale(K, s, b, f)), "sd"),
            tier,
        )
    elif law == "L-hom":
        d = z3.Const("datum", core.Datum)
        w = schema.sym_fl(st, "w")
        st.add(w.isfin(), w.r > 0)
        q = schema.sym_fl(st, "q")

        def goal(s):
            ab = specs.plus(K, s, a, b)
            lhs = fill_view(s, K, ab, d, w, q, sh)
            rhs = specs.plus(K, s, a, fill_view(s, K, b, d, w, q, sh))
            return eq(s, K, lhs, rhs, "hom")

        prove(out, prop, K, law, "hom", st, goal, tier)


def fill_view(st, K, a, d, w, q, sh):
    """the functional form of the fill specification (fillspec / binspec) on a view"""
    out = dict(a)
    out["entries"] = CFl(a["entries"].fl.add(w))
    wr = w.r
    if K == "Count":
        return out
    if K == "Sum":
        out["sum"] = CFl(a["sum"].fl.add(q.mul(w)))
    elif K == "Minimize":
        out["min"] = CFl(specs.minplus_spec(a["min"].fl, q))
    elif K == "Maximize":
        out["max"] = CFl(specs.maxplus_spec(a["max"].fl, q))
    elif K == "Select":
        sel = q.mul(w)
        out["cut"] = fillspec.child_fill(a["cut"], d, sel.r, sel.ispos())
    elif K == "Fraction":
        sel = q.mul(w)
        out["denominator"] = fillspec.child_fill(a["denominator"], d, wr)
        out["numerator"] = fillspec.child_fill(a["numerator"], d, sel.r, sel.ispos())
    elif K in ("Label", "UntypedLabel", "Index", "Branch"):
        f = "pairs" if K in ("Label", "UntypedLabel") else "values"
        out[f] = specs.map_child(specs.CHILDREN[K][f], a[f], lambda x: fillspec.child_fill(x, d, wr))
    elif K == "Bag":
        m = a["values"]
        key = z3.Const("bagkey", core.Key)
        out["values"] = CFam(
            m.ksort,
            lambda k: z3.Or(m.dom(k), k == key),
            lambda k: CFl(Fl.ite(k == key, Fl.ite(m.dom(k), m.val(k).fl.add(w), w), m.val(k).fl)),
            None,
            m.pytype,
        )
    else:
        aa = dict(a)
        aa["__template__"] = core.zfun(sh["tzk"]) if K in ("SparselyBin", "Categorize") else None
        if K == "Categorize":
            from .builtins_model import UF_STR

            aa["__q_expr__"], aa["__q_kind__"] = z3.Const("qexpr", core.Opq), z3.Int("qkind")
        out.update(binspec.fill_want(st, K, aa, d, w, q))
    return out


def moment_laws(out, prop, K, law, st, a, b, c, tier):
    """Average / Deviate are specified by a relation (sufficient statistics); the laws are stated on it:
    any results related to the same operands are equal, in any order / grouping."""
    fs = specs.LEAF_FIELDS[K]

    def res(tag):
        r = {"entries": CFl(schema.sym_fl(st, f"{tag}.entries", "entries"))}
        for f in fs:
            r[f] = CFl(schema.sym_fl(st, f"{tag}.{f}"))
        return r

    def rel(x, y, r):
        return z3.And(r["entries"].fl.same(x["entries"].fl.add(y["entries"].fl)), specs.plus_moments(K, x, y, r), wf_m(r))

    def wf_m(r):
        return z3.And([z3.Implies(r["entries"].fl.r == 0, r[f].fl.nan) for f in fs])

    def same(x, y):
        return z3.And([x[f].fl.same(y[f].fl) for f in ["entries"] + fs])

    # the laws are about finite moments (nan only when empty): the domain on which the statistics are defined
    fin = lambda x: z3.And([z3.Implies(x["entries"].fl.r > 0, x[f].fl.isfin()) for f in fs])
    st.add(fin(a), fin(b), fin(c))
    if law == "L-id":
        z = {"entries": CFl(Fl.const(0.0)), **{f: CFl(Fl.const(float("nan"))) for f in fs}}
        r = res("r")
        st.add(rel(a, z, r))
        prove(out, prop, K, law, "right", st, same(r, a), tier)
        r2 = res("r2")
        st.add(rel(z, a, r2))
        prove(out, prop, K, law, "left", st, same(r2, a), tier)
    elif law == "L-comm":
        r1, r2 = res("r1"), res("r2")
        st.add(rel(a, b, r1), rel(b, a, r2))
        prove(out, prop, K, law, "comm", st, same(r1, r2), tier)
    elif law == "L-assoc":
        ab, abc, bc, abc2 = res("ab"), res("abc"), res("bc"), res("abc2")
        st.add(rel(a, b, ab), rel(ab, c, abc), rel(b, c, bc), rel(a, bc, abc2), fin(ab), fin(bc))
        prove(out, prop, K, law, "assoc", st, same(abc, abc2), tier)
    elif law == "L-scale":
        # scaling multiplies entries (and varianceTimesEntries) and keeps the mean: it commutes with the
        # statistics S1 = E*m, S2 = vTE + E*m^2 being multiplied by f
        f = z3.Real("f")
        st.add(f > 0)
        sa, sb = specs.scale(K, st, a, f), specs.scale(K, st, b, f)
        r, rs = res("r"), res("rs")
        st.add(rel(a, b, r), rel(sa, sb, rs), fin(r))
        sr = specs.scale(K, st, r, f)
        prove(out, prop, K, law, "distributes", st, same(sr, rs), tier)
        one = specs.scale(K, st, a, z3.RealVal(1))
        prove(out, prop, K, law, "one", st, same(one, a), tier)
        g = z3.Real("g")
        st.add(g > 0)
        prove(out, prop, K, law, "compose", st, same(specs.scale(K, st, specs.scale(K, st, a, f), g), specs.scale(K, st, a, f * g)), tier)
        r2 = res("r2")
        st.add(rel(a, a, r2))
        prove(out, prop, K, law, "two", st, same(specs.scale(K, st, a, z3.RealVal(2)), r2), tier)
    elif law == "L-hom":
        # fill on statistics: E += w, S1 += w q, S2 += w q^2 (finite q); relationally
        w = schema.sym_fl(st, "w")
        st.add(w.isfin(), w.r > 0)
        q = schema.sym_fl(st, "q")
        st.add(q.isfin())

        def filled(x, r):
            E = x["entries"].fl.r
            m0, m1 = x["mean"].fl, r["mean"].fl
            emp = E == 0
            S1 = z3.If(emp, z3.RealVal(0), E * m0.r)
            body = [r["entries"].fl.same(x["entries"].fl.add(w)), m1.isfin(), (E + w.r) * m1.r == S1 + w.r * q.r]
            if K == "Deviate":
                v0, v1 = x["varianceTimesEntries"].fl, r["varianceTimesEntries"].fl
                S2 = z3.If(emp, z3.RealVal(0), v0.r + E * m0.r * m0.r)
                body += [v1.isfin(), v1.r + (E + w.r) * m1.r * m1.r == S2 + w.r * q.r * q.r]
            return z3.And(body)

        ab, fab, fb, afb = res("ab"), res("fab"), res("fb"), res("afb")
        st.add(rel(a, b, ab), fin(ab), filled(ab, fab), filled(b, fb), rel(a, fb, afb))
        prove(out, prop, K, law, "hom", st, same(fab, afb), tier)
