"""Core data model of the HGV symbolic executor: SMT sorts, values, heap objects, state."""

import itertools

import z3

from .fl import Fl

# --------------------------------------------------------------------------- sorts

StrS = z3.DeclareSort("Str")
View = z3.DeclareSort("View")
Shape = z3.DeclareSort("Shape")
Datum = z3.DeclareSort("Datum")
Json = z3.DeclareSort("Json")
Opq = z3.DeclareSort("Opq")  # opaque python objects (user function expr, code objects, arrays ...)

_K = z3.Datatype("Key")
_K.declare("KStr", ("ks", StrS))
_K.declare("KInt", ("ki", z3.IntSort()))
_K.declare("KBool", ("kb", z3.BoolSort()))
_K.declare("KReal", ("kr", z3.RealSort()))
_K.declare("KNone")
_K.declare("KPInf")
_K.declare("KNInf")
Key = _K.create()

_R = z3.Datatype("Ref")
_R.declare("Old", ("owner", z3.IntSort()), ("fld", z3.IntSort()), ("okey", Key))
_R.declare("New", ("site", z3.IntSort()), ("nkey", Key))
_R.declare("Ext", ("ext", z3.IntSort()))
_R.declare("Glob", ("glob", z3.IntSort()))
Ref = _R.create()

KNONE = Key.KNone


def KInt(i):
    return Key.KInt(i)


def KStr(s):
    return Key.KStr(s)


_counter = itertools.count(1)


def uid():
    return next(_counter)


# string literals are interned as distinct constants of the uninterpreted sort Str
_str_lits = {}


def strlit(s):
    if s not in _str_lits:
        _str_lits[s] = z3.Const("str:" + s, StrS)
    return _str_lits[s]


def strlit_axioms():
    lits = list(_str_lits.values())
    if len(lits) > 1:
        return [z3.Distinct(*lits)]
    return []


_fld_ids = {}


def fld_id(name):
    if name not in _fld_ids:
        _fld_ids[name] = len(_fld_ids) + 1
    return _fld_ids[name]


# ---- abstract interface vocabulary (DESIGN §2.4)
E = z3.Function("E", View, z3.RealSort())  # entries of a view
SH = z3.Function("SH", View, Shape)  # shape of a view
cname = z3.Function("cname", Shape, StrS)  # class name of a shape
bagrange = z3.Function("bagrange", Shape, StrS)
qname = z3.Function("qname", View, StrS)  # quantity name (meaningful iff has_qname)
has_qname = z3.Function("has_qname", View, z3.BoolSort())
has_quantity = z3.Function("has_quantity", View, z3.BoolSort())  # object has attribute `quantity` (not None)
vplus = z3.Function("vplus", View, View, View)
zk = z3.Function("zk", View, Shape)  # everything zero() depends on: structure and quantity names of the subtree
zfun = z3.Function("zfun", Shape, View)


def vzero(v):
    """L-zero: the empty aggregator is a function of the structure (and quantity names) only"""
    return zfun(zk(v))


vscale = z3.Function("vscale", View, z3.RealSort(), View)
vfill = z3.Function("vfill", View, Datum, z3.RealSort(), View)
fill_raises = z3.Function("fill_raises", View, Datum, z3.RealSort(), z3.BoolSort())
wfv = z3.Function("wfv", View, z3.BoolSort())  # well-formed view (repr. invariant of the subtree)
bkv = z3.Function("bkv", View, z3.BoolSort())  # bookkeeping invariant of the subtree (C05)
enc = z3.Function("enc", View, z3.BoolSort(), Json)  # toJsonFragment(suppressName)
V0 = z3.Function("V0", Ref, View)  # views in the entry heap


class Unsupported(Exception):
    """The executor met a construct it does not model: function is *out of reach* (never a violation)."""


class EngineError(Exception):
    pass


# --------------------------------------------------------------------------- values


class V:
    kind = "?"


class VNone(V):
    kind = "none"

    def __repr__(self):
        return "None"


NONE = VNone()


class VBool(V):
    kind = "bool"

    def __init__(self, t):
        self.t = z3.BoolVal(t) if isinstance(t, bool) else t

    def __repr__(self):
        return f"VBool({self.t})"


class VInt(V):
    kind = "int"

    def __init__(self, t):
        self.t = z3.IntVal(t) if isinstance(t, int) else t

    def __repr__(self):
        return f"VInt({self.t})"


class VFl(V):
    kind = "float"

    def __init__(self, fl, pytype="float"):
        self.fl = fl
        self.pytype = pytype  # 'float' | 'num' (float or int, unknown) | 'npfloat'

    def __repr__(self):
        return f"VFl({self.fl})"


class VStr(V):
    kind = "str"

    def __init__(self, t):
        self.t = strlit(t) if isinstance(t, str) else t
        self.py = t if isinstance(t, str) else None

    def __repr__(self):
        return f"VStr({self.t})"


class VTuple(V):
    kind = "tuple"

    def __init__(self, items):
        self.items = list(items)

    def __repr__(self):
        return f"VTuple({self.items})"


class VObj(V):
    """Reference to an executor-level heap object (instance, list, dict, set)."""

    kind = "obj"

    def __init__(self, oid):
        self.oid = oid

    def __repr__(self):
        return f"VObj({self.oid})"


class VChild(V):
    """An abstract Container (class unknown), known only through the interface contract."""

    kind = "child"

    def __init__(self, ref):
        self.ref = ref

    def __repr__(self):
        return f"VChild({self.ref})"


class VClass(V):
    kind = "class"

    def __init__(self, name):
        self.name = name

    def __repr__(self):
        return f"VClass({self.name})"


class VFunc(V):
    kind = "func"

    def __init__(self, fi, self_v=None, defcls=None):
        self.fi = fi
        self.self_v = self_v

    def __repr__(self):
        return f"VFunc({self.fi.qualname})"


class VBuiltin(V):
    kind = "builtin"

    def __init__(self, name, self_v=None):
        self.name = name
        self.self_v = self_v

    def __repr__(self):
        return f"VBuiltin({self.name})"


class VModule(V):
    kind = "module"

    def __init__(self, name):
        self.name = name


class VOpq(V):
    """Opaque python value (a datum, a user function body, a code object)."""

    kind = "opq"

    def __init__(self, t, tag="obj"):
        self.t = t
        self.tag = tag

    def __repr__(self):
        return f"VOpq({self.tag}:{self.t})"


class VJson(V):
    """A symbolic JSON value (input of fromJsonFragment)."""

    kind = "json"

    def __init__(self, t):
        self.t = t

    def __repr__(self):
        return f"VJson({self.t})"


class VRec(V):
    """An immutable dict literal with concrete keys, as a value (JSON fragments built inside loops)."""

    kind = "rec"

    def __init__(self, items):
        self.items = dict(items)

    def __repr__(self):
        return f"VRec({list(self.items)})"


class VLambda(V):
    kind = "lambda"

    def __init__(self, node, env, modname):
        self.node = node
        self.env = env
        self.modname = modname


class VIte(V):
    """Deferred merge of two values of different kinds; forks when used."""

    kind = "ite"

    def __init__(self, c, a, b):
        self.c, self.a, self.b = c, a, b


def vite(c, a, b):
    c = z3.simplify(c) if not isinstance(c, bool) else z3.BoolVal(c)
    if z3.is_true(c):
        return a
    if z3.is_false(c):
        return b
    if a is b:
        return a
    if isinstance(a, VFl) and isinstance(b, VFl):
        return VFl(Fl.ite(c, a.fl, b.fl), a.pytype if a.pytype == b.pytype else "num")
    if isinstance(a, VChild) and isinstance(b, VChild):
        return VChild(z3.If(c, a.ref, b.ref))
    if isinstance(a, VInt) and isinstance(b, VInt):
        return VInt(z3.If(c, a.t, b.t))
    if isinstance(a, VBool) and isinstance(b, VBool):
        return VBool(z3.If(c, a.t, b.t))
    if isinstance(a, VStr) and isinstance(b, VStr):
        return VStr(z3.If(c, a.t, b.t))
    if isinstance(a, VOpq) and isinstance(b, VOpq) and a.tag == b.tag:
        return VOpq(z3.If(c, a.t, b.t), a.tag)
    if isinstance(a, VJson) and isinstance(b, VJson):
        return VJson(z3.If(c, a.t, b.t))
    if isinstance(a, VNone) and isinstance(b, VNone):
        return a
    if isinstance(a, VObj) and isinstance(b, VObj) and a.oid == b.oid:
        return a
    if isinstance(a, VTuple) and isinstance(b, VTuple) and len(a.items) == len(b.items):
        return VTuple([vite(c, x, y) for x, y in zip(a.items, b.items)])
    if isinstance(a, VRec) and isinstance(b, VRec) and list(a.items) == list(b.items):
        return VRec({k: vite(c, a.items[k], b.items[k]) for k in a.items})
    return VIte(c, a, b)


def subst_v(v, pairs):
    """Substitute z3 constants inside a value."""
    if isinstance(v, VFl):
        f = v.fl
        return VFl(
            Fl(
                z3.substitute(f.nan, *pairs),
                z3.substitute(f.pinf, *pairs),
                z3.substitute(f.ninf, *pairs),
                z3.substitute(f.r, *pairs),
            ),
            v.pytype,
        )
    if isinstance(v, (VInt, VBool)):
        return type(v)(z3.substitute(v.t, *pairs))
    if isinstance(v, VStr):
        return VStr(z3.substitute(v.t, *pairs))
    if isinstance(v, VChild):
        return VChild(z3.substitute(v.ref, *pairs))
    if isinstance(v, VOpq):
        return VOpq(z3.substitute(v.t, *pairs), v.tag)
    if isinstance(v, VJson):
        return VJson(z3.substitute(v.t, *pairs))
    if isinstance(v, VTuple):
        return VTuple([subst_v(x, pairs) for x in v.items])
    if isinstance(v, VRec):
        return VRec({k: subst_v(x, pairs) for k, x in v.items.items()})
    if isinstance(v, VIte):
        return vite(z3.substitute(v.c, *pairs), subst_v(v.a, pairs), subst_v(v.b, pairs))
    return v


# --------------------------------------------------------------------------- heap objects (immutable records)


class Inst:
    def __init__(self, cls, fields, abstract_ref=None):
        self.cls = cls
        self.fields = fields  # dict name -> V

    def with_field(self, name, v):
        f = dict(self.fields)
        f[name] = v
        return Inst(self.cls, f)

    def without_field(self, name):
        f = dict(self.fields)
        f.pop(name, None)
        return Inst(self.cls, f)


class CList:
    """List / tuple of concrete length."""

    def __init__(self, items, is_tuple=False):
        self.items = tuple(items)
        self.is_tuple = is_tuple

    def length(self):
        return z3.IntVal(len(self.items))


class LList:
    """List / tuple of symbolic length: (length, index term -> V), persistent with point writes."""

    def __init__(self, length, getter, is_tuple=False, parent=None, pw=None, tag=None):
        self._length = length
        self.getter = getter
        self.is_tuple = is_tuple
        self.parent = parent
        self.pw = pw  # (idx term, value)
        self.tag = tag

    def length(self):
        return self._length

    def get(self, i):
        return self.getter(i)

    def write(self, i, v):
        par = self
        return LList(self._length, lambda j: vite(j == i, v, par.get(j)), self.is_tuple, parent=self, pw=(i, v))


class CDict:
    """Dict with concrete python keys (str / int / bool), insertion ordered."""

    def __init__(self, items=None):
        self.items = dict(items or {})


class LDict:
    """Dict with symbolic key set: (present(key term) -> Bool, val(key term) -> V, length)."""

    def __init__(self, present, val, length, parent=None, pw=None, did=None, keykind="key"):
        self.present = present
        self.val = val
        self._length = length
        self.parent = parent
        self.pw = pw  # (key term, value) for a point write
        self.did = did if did is not None else uid()
        self.keykind = keykind

    def length(self):
        return self._length

    def write(self, k, v, newlen):
        par = self
        return LDict(
            lambda x: z3.Or(x == k, par.present(x)),
            lambda x: vite(x == k, v, par.val(x)),
            newlen,
            parent=self,
            pw=(k, v),
            keykind=self.keykind,
        )


class CSet:
    def __init__(self, items):
        self.items = frozenset(items)


class LSet:
    def __init__(self, member, tag=None):
        self.member = member  # key term -> Bool


# --------------------------------------------------------------------------- view layers


class ViewLayers:
    """Persistent map Ref -> View as a chain of layers over the entry heap V0."""

    def __init__(self, parent=None, fn=None, pw=None, label=None):
        self.parent = parent
        self.fn = fn  # (ref, lower) -> View
        self.pw = pw  # (ref, view) if point write
        self.label = label

    def lookup(self, ref):
        if self.parent is None:
            return V0(ref)
        return self.fn(ref, self.parent.lookup)

    def point(self, ref, view):
        return ViewLayers(self, lambda r, low: z3.If(r == ref, view, low(r)), pw=(ref, view))

    def family(self, fn, label=None):
        return ViewLayers(self, fn, label=label)


class ForallFact:
    """forall k. guard(k) -> body(k), kept symbolic and instantiated on ground index terms at VC time.

    bvar, if given, is a Bool that is *equivalent* to the quantified statement: besides the
    instances bvar -> body(t), the witness axiom  bvar or (guard(w) and not body(w))  is emitted.
    """

    def __init__(self, k, guard, body, bvar=None, witness=None, name="", nested=None):
        self.k = k
        self.guard = guard
        self.body = body
        self.bvar = bvar
        self.witness = witness
        self.name = name
        self.nested = nested or []  # quantified facts created at the generic key (instantiated along)
        self.base_only = False  # instantiate only at the demanded index terms (Skolems / witnesses)

    def subst(self, pairs):
        sub = lambda t: z3.substitute(t, *pairs) if t is not None else None
        ff = ForallFact(
            self.k,
            sub(self.guard),
            sub(self.body),
            bvar=sub(self.bvar),
            witness=sub(self.witness),
            name=self.name,
            nested=[n.subst(pairs) for n in self.nested],
        )
        ff.base_only = self.base_only
        return ff

    def inst(self, t):
        if isinstance(self.k, (list, tuple)):
            pairs = list(zip(self.k, t))
            return z3.Implies(z3.substitute(self.guard, *pairs), z3.substitute(self.body, *pairs))
        f = z3.Implies(z3.substitute(self.guard, (self.k, t)), z3.substitute(self.body, (self.k, t)))
        if self.bvar is not None:
            f = z3.Implies(self.bvar, f)
        return f

    def witness_axiom(self):
        if self.bvar is None:
            return None
        w = self.witness
        return z3.Or(
            self.bvar,
            z3.And(z3.substitute(self.guard, (self.k, w)), z3.Not(z3.substitute(self.body, (self.k, w)))),
        )


class State:
    def __init__(self):
        self.pc = []
        self.heap = {}
        self.new_oids = set()
        self.frames = [{}]
        self.views = ViewLayers()
        self.foralls = []
        self.index_terms = []  # ground terms (Int / Key / StrS / Ref) at which forall facts are instantiated
        self.keyctx = []  # generic keys of enclosing family executions
        self.events = []
        self.trace = []
        self.new_refs = []  # (ref term, guard) of allocated abstract containers
        self.readlog = None
        self.np_calls = []
        self.arrlog = None
        self.sandbox_fresh = None
        self.infeasible = False

    def fork(self):
        s = State.__new__(State)
        s.pc = list(self.pc)
        s.heap = dict(self.heap)
        s.new_oids = set(self.new_oids)
        s.frames = [dict(f) for f in self.frames]
        s.views = self.views
        s.foralls = list(self.foralls)
        s.index_terms = list(self.index_terms)
        s.keyctx = list(self.keyctx)
        s.events = list(self.events)
        s.trace = list(self.trace)
        s.new_refs = list(self.new_refs)
        s.readlog = self.readlog
        s.np_calls = list(getattr(self, "np_calls", []))
        s.arrlog = list(self.arrlog) if getattr(self, "arrlog", None) is not None else None
        s.sandbox_fresh = self.sandbox_fresh
        s.infeasible = self.infeasible
        for extra in ("mask_counts", "np_special_sums", "np_reductions", "xref_calls"):
            if hasattr(self, extra):
                v = getattr(self, extra)
                setattr(s, extra, dict(v) if isinstance(v, dict) else (list(v) if isinstance(v, list) else v))
        return s

    # ---- locals
    @property
    def locals(self):
        return self.frames[-1]

    # ---- heap
    def alloc(self, obj, new=True):
        oid = uid()
        self.heap[oid] = obj
        if new:
            self.new_oids.add(oid)
        return VObj(oid)

    def obj(self, v):
        return self.heap[v.oid]

    def set_obj(self, v, obj):
        self.heap[v.oid] = obj

    def view(self, ref):
        if self.readlog is not None:
            self.readlog.append(("view", ref))
        return self.views.lookup(ref)

    def set_view(self, ref, view):
        self.views = self.views.point(ref, view)

    # ---- fresh symbols: inside a family execution a fresh symbol is a function of the generic keys
    def fresh(self, prefix, sort):
        n = uid()
        if self.keyctx:
            f = z3.Function(f"{prefix}!{n}", *[k.sort() for k in self.keyctx], sort)
            return f(*self.keyctx)
        return z3.Const(f"{prefix}!{n}", sort)

    def fresh_fl(self, prefix):
        f = Fl(
            self.fresh(prefix + ".nan", z3.BoolSort()),
            self.fresh(prefix + ".pinf", z3.BoolSort()),
            self.fresh(prefix + ".ninf", z3.BoolSort()),
            self.fresh(prefix + ".r", z3.RealSort()),
        )
        self.pc.append(f.wf())
        return f

    def new_ref(self):
        key = self.keyctx[-1] if self.keyctx else KNONE
        if len(self.keyctx) > 1:
            raise Unsupported("allocation inside nested family execution")
        if key.sort() != Key:
            key = KInt(key) if key.sort() == z3.IntSort() else KStr(key)
        r = Ref.New(z3.IntVal(uid()), key)
        self.new_refs.append(r)
        return r

    def add(self, *facts):
        for f in facts:
            self.pc.append(f)

    def add_index(self, t):
        for u in self.index_terms:
            if u.eq(t):
                return
        self.index_terms.append(t)

    def forall(self, k, guard, body, equiv=False, name="", base_only=False):
        """Record forall k. guard -> body.  With equiv=True return a Bool equivalent to it."""
        if equiv:
            b = self.fresh("all." + name, z3.BoolSort())
            w = self.fresh("wit." + name, k.sort())
            ff = ForallFact(k, guard, body, bvar=b, witness=w, name=name)
            ff.base_only = base_only
            self.foralls.append(ff)
            self.add_index(w)
            return b
        ff = ForallFact(k, guard, body, name=name)
        ff.base_only = base_only
        self.foralls.append(ff)
        return None
