"""C06, clause "all read accessors leave their operands' observable state unchanged": a sweep over the public methods
and properties that each primitive class defines itself.

Every function of the class body whose name is public (no leading underscore), that is not a mutator by design (fill,
fillnumpy, specialize, plotting / file output) and takes at most two arguments besides self is executed on a symbolic wf
instance with symbolic arguments (a float, a string, an int, None or an abstract aggregator per parameter: the first menu
entry the executor can run is used).  On every path, normal or exceptional, the frame clause must hold: every object that
existed at entry, every child view and the shared module-level functions are unchanged.

Functions outside the executor's reach are listed in the evidence notes (they are covered by the bounded sweep
hgv_native/accessors.py only) and are *not* counted; they never make the check undecided.
"""

import itertools

import z3

from . import core, models, schema, smt
from .contracts import frame_goal
from .core import NONE, State, Unsupported, VChild, VFl, VInt, VStr
from .execu import Exec
from .extra import add_function, record
from .fl import Fl
from .frontend import PRIMITIVES

SKIP_SUBSTR = ("plot", "bokeh", "matplotlib", "root", "sparksql", "File", "pandas", "spark", "print", "ascii")
MUTATORS = {"fill", "fillnumpy", "fillsparksql", "specialize", "register", "toJsonFile", "toJsonString", "toJson", "toJsonFragment", "fromJson", "fromJsonFragment", "zero", "copy", "children", "ed", "ing", "build"}
# toJson / zero / copy / children have contracts of their own; ed / ing / build are constructors


DUNDER_READS = ("__hash__", "__repr__", "__str__")  # named by the property: "==, hash, repr and all read accessors"


def tasks_for(prop, tier):
    if prop != "C06":
        return []
    return [("accframe", K) for K in PRIMITIVES]


def arg_menu(st, i):
    f, wf = Fl.sym(f"acc.arg{i}")
    st.add(wf)
    ext = core.Ref.Ext(z3.IntVal(40 + i))
    st.add(core.wfv(core.V0(ext)))
    return [
        ("float", VFl(f)),
        ("str", VStr(z3.Const(f"acc.str{i}", core.StrS))),
        ("int", VInt(z3.Int(f"acc.int{i}"))),
        ("none", NONE),
        ("aggregator", VChild(ext)),
    ]


def run_task(P, task, prop, tier, out):
    K = task[1]
    ci = P.classes[K]
    skipped = []
    for name, fi in sorted(ci.methods.items()):
        if (name.startswith("_") and name not in DUNDER_READS) or name in MUTATORS or any(s in name for s in SKIP_SUBSTR) or fi.is_static or getattr(fi, "is_setter", False):
            continue
        a = fi.node.args
        params = [p.arg for p in a.posonlyargs + a.args][1:]
        if len(params) > 2 or a.vararg is not None or a.kwarg is not None:
            continue
        done = False
        reasons = []
        base = State()
        menus = [arg_menu(base, i) for i in range(len(params))]
        for combo in itertools.product(*menus) if params else [()]:
            st = base.fork()
            selfv = schema.make_instance(st, K, 1)
            X = Exec(P, models.std_hooks())
            pre = st.fork()
            try:
                res = X.run(st, fi, [selfv] + [v for _, v in combo])
            except Unsupported as e:
                reasons.append(str(e))
                continue
            except Exception as e:  # an engine limitation on this argument kind: try the next one
                reasons.append(f"{type(e).__name__}: {e}")
                continue
            kinds = ",".join(k for k, _ in combo) or "-"
            add_function(out, fi, kinds, paths=len(res))
            for i, r in enumerate(res):
                s = r.st.fork()
                vc = smt.build_vc(f"{fi.qualname}/frame#{i}", s, frame_goal(s, pre))
                record(out, prop, fi.qualname, "ensures:read-accessor-frame", f"{kinds}:p{i}" + (f":{r.exc.cls}" if r.exc is not None else ""), kinds, vc, tier)
            done = True
            break
        if not done:
            skipped.append(f"{name}: {reasons[0][:80] if reasons else 'no argument kind'}")
    if skipped:
        out.setdefault("notes", []).append(f"C06 accessor sweep, {K}: outside the executor's reach (bounded sweep only): " + "; ".join(skipped))
