"""Builds replay scripts that re-check a refuted obligation natively (hgv_native/harness.py)."""

import json

from . import REPO, VERIF

TEMPLATE = '''#!/venv/bin/python
"""Replay of a refuted HGV obligation against the real code.
property:   {prop}
obligation: {name}
verifier:   {verdicts}
Exit status 1 = the violation reproduces on the code under {repo}; 0 = no failing input found natively.
"""
import os, sys
os.environ.setdefault("HGV_REPO", {repo!r})
sys.path.insert(0, {verif!r})
from hgv_native import harness
VERIFIER_OUTPUT = {model}
sys.exit(harness.replay({function!r}, {clause!r}))
'''


NATIVE_TEMPLATE = '''#!/venv/bin/python
"""Replay of a failing bounded native check.  property: {prop}  obligation: {name}"""
import os, sys, json, subprocess
os.environ.setdefault("HGV_REPO", {repo!r})
p = subprocess.run(["/venv/bin/python", "-m", "hgv_native.run", {check!r}], capture_output=True, text=True, cwd={verif!r})
print(p.stdout)
res = json.loads([l for l in p.stdout.splitlines() if l.startswith("{{")][-1])
sys.exit(1 if res.get("ok") is False else 0)
'''


FP64_TEMPLATE = '''#!/venv/bin/python
"""Replay of an fp64 counter-model found by cvc5.  property: {prop}  obligation: {name}"""
import os, sys, math
sys.path.insert(0, os.environ.get("HGV_REPO", {repo!r}))
import histogrammar as hg
m = {model!r}
x = m["x"]
try:
    if "numf" in m:
        h = hg.Bin(int(m["numf"]), m["low"], m["high"], lambda v: v)
    else:
        h = hg.SparselyBin(m["bw"], lambda v: v, origin=m["origin"])
    h.fill(x)
except Exception as e:
    print("VIOLATED: fill(%r) raised %r for %r" % (x, e, m)); sys.exit(1)
parts = ([v.entries for v in h.values] + [h.underflow.entries, h.overflow.entries, h.nanflow.entries]) if "numf" in m else ([v.entries for v in h.bins.values()] + [h.nanflow.entries])
if sorted(parts)[-1] != 1.0 or sum(parts) != 1.0 or h.entries != 1.0:
    print("VIOLATED: datum %r not routed to exactly one bin: %r" % (x, parts)); sys.exit(1)
print("no violation for the counter-model", m); sys.exit(0)
'''


C13_TEMPLATE = '''#!/venv/bin/python
"""Replay of the verifier's counter-model of a C13 obligation on the real code: the configuration and the query
of the model are rebuilt (rationals rounded to doubles) and the accessors are checked against fill.
property: {prop}  obligation: {name}"""
import os, sys
os.environ.setdefault("HGV_REPO", {repo!r})
sys.path.insert(0, {verif!r})
from hgv_native import c13
MODELS = {models!r}
for m in MODELS:
    msg = c13.replay_model(m)
    if msg:
        print("VIOLATED:", msg, " (counter-model:", m, ")"); sys.exit(1)
print("the counter-models do not reproduce in double precision:", MODELS); sys.exit(0)
'''


def build_script(prop, name, recs):
    _, function, clause = name.split("/", 2)
    if prop == "C13" and recs and not recs[0].get("bounded"):
        models = [r["model"] for r in recs if r.get("model") and "class" in r["model"]]
        if not models:
            return None
        return C13_TEMPLATE.format(prop=prop, name=name, repo=REPO, verif=VERIF, models=models)
    if recs and recs[0].get("fp64") and recs[0].get("model"):
        return FP64_TEMPLATE.format(prop=prop, name=name, repo=REPO, model=recs[0]["model"])
    if recs and recs[0].get("bounded"):
        return NATIVE_TEMPLATE.format(prop=prop, name=name, repo=REPO, verif=VERIF, check=recs[0]["native_check"])
    model = json.dumps([{k: r.get(k) for k in ("path", "variant", "verdict", "model")} for r in recs], indent=1)
    return TEMPLATE.format(
        prop=prop,
        name=name,
        verdicts=", ".join(f"{r['path']}:{r['verdict']}" for r in recs)[:300],
        repo=REPO,
        verif=VERIF,
        model=model,
        function=function,
        clause=clause,
    )
