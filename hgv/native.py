"""Builds replay scripts that re-check a refuted obligation natively (hgv_native/harness.py)."""

import json

from . import REPO, VERIF

TEMPLATE = '''#!/venv/bin/python
"""Replay of a refuted HGV obligation against the real code.
property:   {prop}
obligation: {name}
verifier:   {verdicts}
Exit status 1 = the violation reproduces on the code under {repo}; 0 = no failing input found natively.
"""
import os, sys
os.environ.setdefault("HGV_REPO", {repo!r})
sys.path.insert(0, {verif!r})
from hgv_native import harness
VERIFIER_OUTPUT = {model}
sys.exit(harness.replay({function!r}, {clause!r}))
'''


NATIVE_TEMPLATE = '''#!/venv/bin/python
"""Replay of a failing bounded native check.  property: {prop}  obligation: {name}"""
import os, sys, json, subprocess
os.environ.setdefault("HGV_REPO", {repo!r})
p = subprocess.run(["/venv/bin/python", "-m", "hgv_native.run", {check!r}], capture_output=True, text=True, cwd={verif!r})
print(p.stdout)
res = json.loads([l for l in p.stdout.splitlines() if l.startswith("{{")][-1])
sys.exit(1 if res.get("ok") is False else 0)
'''


def build_script(prop, name, recs):
    _, function, clause = name.split("/", 2)
    if recs and recs[0].get("bounded"):
        return NATIVE_TEMPLATE.format(prop=prop, name=name, repo=REPO, verif=VERIF, check=recs[0]["native_check"])
    model = json.dumps([{k: r.get(k) for k in ("path", "variant", "verdict", "model")} for r in recs], indent=1)
    return TEMPLATE.format(
        prop=prop,
        name=name,
        verdicts=", ".join(f"{r['path']}:{r['verdict']}" for r in recs)[:300],
        repo=REPO,
        verif=VERIF,
        model=model,
        function=function,
        clause=clause,
    )
