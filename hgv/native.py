"""Builds replay scripts that re-check a refuted obligation natively (hgv_native/harness.py)."""

import json

from . import REPO, VERIF

TEMPLATE = '''#!/venv/bin/python
"""Replay of a refuted HGV obligation against the real code.
property:   {prop}
obligation: {name}
verifier:   {verdicts}
Exit status 1 = the violation reproduces on the code under {repo}; 0 = no failing input found natively.
"""
import os, sys
os.environ.setdefault("HGV_REPO", {repo!r})
sys.path.insert(0, {verif!r})
from hgv_native import harness
VERIFIER_OUTPUT = {model}
sys.exit(harness.replay({function!r}, {clause!r}))
'''


def build_script(prop, name, recs):
    _, function, clause = name.split("/", 2)
    model = json.dumps([{k: r.get(k) for k in ("path", "variant", "verdict", "model")} for r in recs], indent=1)
    return TEMPLATE.format(
        prop=prop,
        name=name,
        verdicts=", ".join(f"{r['path']}:{r['verdict']}" for r in recs)[:300],
        repo=REPO,
        verif=VERIF,
        model=model,
        function=function,
        clause=clause,
    )
