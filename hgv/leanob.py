"""The repository-independent meta theorems (lean/HgvMeta.lean), re-checked by the Lean kernel."""

import os
import re
import subprocess
import time

from . import VERIF

THEOREM_PROPS = {
    "fillAll_op": {"C01"},
    "fillAll_append": {"C01"},
    "eval_eq_combine": {"C01"},
    "combine_perm": {"C01"},
    "fill_chunks": {"C01"},
    "fold_partition": {"C01"},
    "fill_perm": {"C02"},
    "sum_add": {"C05"},
    "sum_scale": {"C05"},
    "sum_update": {"C05"},
    "sum_routed": {"C05"},
    "sum_congr'": {"C05"},
    "sum_union": {"C05"},
}


def tasks_for(prop, tier):
    if any(prop in ps for ps in THEOREM_PROPS.values()):
        return [("lean", "HgvMeta")]
    return []


def run_task(P, task, prop, tier, out):
    path = os.path.join(VERIF, "lean", "HgvMeta.lean")
    src = open(path).read()
    t0 = time.time()
    try:
        p = subprocess.run(["lean", path], capture_output=True, text=True, timeout=1500, cwd=os.path.join(VERIF, "lean"))
        ok = p.returncode == 0 and "error" not in p.stdout and "error" not in p.stderr
        msg = (p.stdout + p.stderr)[-800:]
    except subprocess.TimeoutExpired:
        ok, msg = None, "lean timed out"
    secs = time.time() - t0
    if "sorry" in src or re.search(r"^\s*axiom\s", src, re.M):
        ok, msg = False, "HgvMeta.lean contains sorry / axiom"
    names = re.findall(r"^theorem\s+([A-Za-z_'0-9]+)", src, re.M)
    for nm in names:
        if prop not in THEOREM_PROPS.get(nm, set()):
            continue
        out["records"].append(
            {
                "obligation": f"{prop}/lean.HgvMeta.{nm}/theorem",
                "function": f"lean.HgvMeta.{nm}",
                "clause": "theorem",
                "path": "p0",
                "variant": "lean",
                "verdict": "unsat" if ok else ("unknown" if ok is None else "sat"),
                "backend": "lean 4.33.0 kernel (Mathlib)",
                "seconds": round(secs / max(1, len(names)), 2),
                "hyps": 0,
                "instances": 0,
                "reason": None if ok else msg,
                "model": {} if ok else {"lean_output": msg},
            }
        )
    out.setdefault("trusted", []).append("Lean 4.33.0 kernel + Mathlib v4.33.0 (lean/HgvMeta.lean: fold/partition theorem and finite-sum algebra)")
