"""Assumed contracts of the numpy functions used by the functions under contract (trusted, listed in
evidence).  Arrays are opaque values here; the element-wise model used by C03 lives in c03.py."""

import z3

from . import core
from .core import Unsupported, VBool, VFl, VInt, VOpq


def Res(st, v=None, exc=None):
    from .execu import Res as R

    return R(st, v, exc)


def call(X, st, name, args, kwargs):
    if name == "array_equal":
        a, b = args
        # assumed: array_equal(a, b) is True exactly when a and b are the same value as far as any
        # deterministic function of them is concerned (A-USERFN: user functions respect it)
        if hasattr(a, "t") and hasattr(b, "t") and a.t.sort() == b.t.sort():
            r = st.fresh("array_equal", z3.BoolSort())
            st.add(r == (a.t == b.t))
            return [Res(st, VBool(r))]
        fa, fb = X.B.num(a), X.B.num(b)
        if fa is not None and fb is not None:
            return [Res(st, VBool(fa.eq(fb)))]
        return [Res(st, VBool(False))]
    if name in ("isnan",):
        f = X.B.num(args[0])
        if f is None:
            return X.raise_(st, "TypeError", "np.isnan")
        return [Res(st, VBool(f.nan))]
    raise Unsupported(f"numpy.{name}")


def method(X, st, selfv, name, args, kwargs):
    raise Unsupported(f"ndarray.{name}")


def child_numpy(X, st, ch, args, kwargs):
    raise Unsupported("child._numpy")
