"""Assumed contracts of the numpy functions used by the `_numpy` methods (trusted, listed in evidence),
over an element-wise array model: an array is a heap object ArrO(length, i -> element value).

Elements are Fl (float arrays), Bool (masks) or Int.  Operations are element-wise and total (numpy float
semantics: x/0 = +-inf or nan, no exception).  `out=` forms and masked / slice assignment mutate the
target object.  Reductions (`sum`) are abstract: asum(W) of the materialised weight array W.
The conversion float -> int (np.array(q, dtype=int)) is defined only for finite values of magnitude
< 2^63; elsewhere the result is unspecified (a fresh unconstrained integer).
"""

import z3

from . import core
from .core import NONE, CList, Unsupported, V, VBool, VChild, VFl, VInt, VNone, VObj, VOpq, VStr, VTuple, vite
from .fl import Fl

WArr = z3.DeclareSort("WArr")  # a materialised float array (identified by a term, elements by wat*)
wat_r = z3.Function("wat_r", WArr, z3.IntSort(), z3.RealSort())
wat_nan = z3.Function("wat_nan", WArr, z3.IntSort(), z3.BoolSort())
wat_pinf = z3.Function("wat_pinf", WArr, z3.IntSort(), z3.BoolSort())
wat_ninf = z3.Function("wat_ninf", WArr, z3.IntSort(), z3.BoolSort())
asum = z3.Function("asum", WArr, z3.RealSort())
Batch = core.Datum  # the data batch is a Datum; its rows are rowof(batch, i)
rowof = z3.Function("rowof", core.Datum, z3.IntSort(), core.Datum)
vnp = z3.Function("vnp", core.View, core.Datum, WArr, core.View)  # child._numpy(batch, W)


def wat(W, i):
    return Fl(wat_nan(W, i), wat_pinf(W, i), wat_ninf(W, i), wat_r(W, i))


# reductions of a materialised array whose elements may be nan / +-inf (leaf `_numpy` methods): abstract
# aggregates, extensional in the elements (c03 uses the witness-of-a-differing-row form of extensionality)
aflag_nan = z3.Function("aflag_nan", WArr, z3.BoolSort())  # some element is nan
aflag_pinf = z3.Function("aflag_pinf", WArr, z3.BoolSort())
aflag_ninf = z3.Function("aflag_ninf", WArr, z3.BoolSort())
amin_nan = z3.Function("amin_nan", WArr, z3.BoolSort())
amin_pinf = z3.Function("amin_pinf", WArr, z3.BoolSort())
amin_ninf = z3.Function("amin_ninf", WArr, z3.BoolSort())
amin_r = z3.Function("amin_r", WArr, z3.RealSort())
amax_nan = z3.Function("amax_nan", WArr, z3.BoolSort())
amax_pinf = z3.Function("amax_pinf", WArr, z3.BoolSort())
amax_ninf = z3.Function("amax_ninf", WArr, z3.BoolSort())
amax_r = z3.Function("amax_r", WArr, z3.RealSort())


def fl_sum(W):
    """sum of the elements of W in the Fl algebra (order independent): nan if a nan or both infinities occur"""
    nan = z3.Or(aflag_nan(W), z3.And(aflag_pinf(W), aflag_ninf(W)))
    return Fl(nan, z3.And(z3.Not(nan), aflag_pinf(W)), z3.And(z3.Not(nan), aflag_ninf(W)), asum(W))


def fl_min(W):
    return Fl(amin_nan(W), amin_pinf(W), amin_ninf(W), amin_r(W))


def fl_max(W):
    return Fl(amax_nan(W), amax_pinf(W), amax_ninf(W), amax_r(W))


class ArrO:
    """persistent array object"""

    def __init__(self, length, elem, dtype, ident=None, mask=None, mask_id=None, count=None):
        self.length = length
        self.elem = elem  # index term -> V
        self.dtype = dtype  # 'float' | 'bool' | 'int'
        self.ident = ident if ident is not None else core.uid()
        # a boolean-mask selection a[m]: `length` / `elem` stay those of the base array, `mask` says which rows
        # survive, `count` is the (symbolic) number of survivors.  Only reductions, element-wise arithmetic with an
        # equally masked array, and .shape[0] are defined on it.
        self.mask = mask
        self.mask_id = mask_id
        self.count = count


def Res(st, v=None, exc=None):
    from .execu import Res as R

    return R(st, v, exc)


def is_arr(st, v):
    return isinstance(v, VObj) and isinstance(st.heap.get(v.oid), ArrO)


def log(st, oid, what):
    if getattr(st, "arrlog", None) is not None:
        st.arrlog.append((oid, what))


def read(st, v):
    log(st, v.oid, "read")
    return st.heap[v.oid]


def new_arr(st, length, elem, dtype, like=()):
    """`like`: operands whose boolean-mask selection (if any) the result inherits"""
    ms = masks_of(st, *[v for v in like if v is not None])
    if ms:
        m = ms[0]
        return st.alloc(ArrO(length, elem, dtype, mask=m.mask, mask_id=m.mask_id, count=m.count))
    return st.alloc(ArrO(length, elem, dtype))


def kill_write(st, v, elem, dtype=None):
    """overwrite every element of an existing array object"""
    log(st, v.oid, "kill")
    o = st.heap[v.oid]
    st.heap[v.oid] = ArrO(o.length, elem, dtype or o.dtype)


def partial_write(st, v, elem):
    log(st, v.oid, "partial")
    o = st.heap[v.oid]
    st.heap[v.oid] = ArrO(o.length, elem, o.dtype)


def fl_of(X, v):
    f = X.B.num(v)
    if f is None:
        raise Unsupported(f"numeric element expected, got {v!r}")
    return f


def masks_of(st, *vs):
    ms = [st.heap[v.oid] for v in vs if is_arr(st, v) and st.heap[v.oid].mask is not None]
    return ms


def elementwise(X, st, a, b, fn, dtype):
    """result element closure for a binary op between array/scalar operands"""
    ms = masks_of(st, a, b)
    if ms:
        arrs = [st.heap[v.oid] for v in (a, b) if is_arr(st, v)]
        if len(ms) != len(arrs) or len({m.mask_id for m in ms}) != 1:
            raise Unsupported("arithmetic between differently selected arrays")
    if is_arr(st, a):
        oa = read(st, a)
        ea = oa.elem
        n = oa.length
    else:
        ea = lambda i, a=a: a
        n = None
    if is_arr(st, b):
        ob = read(st, b)
        eb = ob.elem
        n = n if n is not None else ob.length
    else:
        eb = lambda i, b=b: b
    return n, (lambda i: fn(ea(i), eb(i)))


CMP = {
    "greater_equal": lambda X: (lambda x, y: VBool(fl_of(X, x).ge(fl_of(X, y)))),
    "greater": lambda X: (lambda x, y: VBool(fl_of(X, x).gt(fl_of(X, y)))),
    "less": lambda X: (lambda x, y: VBool(fl_of(X, x).lt(fl_of(X, y)))),
    "less_equal": lambda X: (lambda x, y: VBool(fl_of(X, x).le(fl_of(X, y)))),
    "equal": lambda X: (lambda x, y: VBool(int_or_fl_eq(X, x, y))),
    "not_equal": lambda X: (lambda x, y: VBool(z3.Not(int_or_fl_eq(X, x, y)))),
}


def int_or_fl_eq(X, x, y):
    if isinstance(x, VInt) and isinstance(y, VInt):
        return x.t == y.t
    return fl_of(X, x).eq(fl_of(X, y))


def np_div(fa, fb):
    """numpy float division: no exception; x/0 = +-inf by sign, 0/0 = nan"""
    bz = fb.iszero()
    nan = z3.Or(fa.nan, fb.nan, z3.And(fa.isinf(), fb.isinf()), z3.And(bz, fa.iszero()))
    bpos = z3.Or(fb.pinf, z3.And(fb.isfin(), fb.r > 0))
    bneg = z3.Or(fb.ninf, z3.And(fb.isfin(), fb.r < 0))
    apos, aneg = fa.ispos(), fa.isneg()
    # signed zero is not modelled: x/0 takes the sign of x
    inf_case = z3.Or(z3.And(fa.isinf(), fb.isfin()), z3.And(bz, z3.Not(fa.iszero())))
    pinf = z3.And(z3.Not(nan), inf_case, z3.Or(z3.And(apos, z3.Or(bpos, bz)), z3.And(aneg, bneg)))
    ninf = z3.And(z3.Not(nan), inf_case, z3.Or(z3.And(aneg, z3.Or(bpos, bz)), z3.And(apos, bneg)))
    r = z3.If(z3.Or(fb.isinf(), bz), z3.RealVal(0), npquot(fa.r, fb.r))
    return Fl(nan, pinf, ninf, r)


# purified quotient: an uninterpreted function with the defining lemma  d != 0 => npquot(x, d) * d == x
# added per occurrence by smt.division_lemmas (keeps nonlinear reasoning out of the term structure)
npquot = z3.Function("npquot", z3.RealSort(), z3.RealSort(), z3.RealSort())


ARITH = {
    "subtract": lambda X: (lambda x, y: VFl(fl_of(X, x).sub(fl_of(X, y)))),
    "add": lambda X: (lambda x, y: VFl(fl_of(X, x).add(fl_of(X, y)))),
    "multiply": lambda X: (lambda x, y: VFl(fl_of(X, x).mul(fl_of(X, y)))),
    "divide": lambda X: (lambda x, y: VFl(np_div(fl_of(X, x), fl_of(X, y)))),
}
LOGIC = {
    "bitwise_and": lambda x, y: VBool(z3.And(x.t, y.t)),
    "bitwise_or": lambda x, y: VBool(z3.Or(x.t, y.t)),
}


def with_out(X, st, n, elem, dtype, out, like=()):
    if out is None or isinstance(out, VNone):
        return [Res(st, new_arr(st, n, elem, dtype, like))]
    if not is_arr(st, out):
        raise Unsupported("out= is not an array")
    ms = masks_of(st, *like)
    if ms:
        # in-place update of a mask-selected array by an operation on equally selected operands
        oo = st.heap[out.oid]
        if oo.mask is None or any(m.mask_id != oo.mask_id for m in ms):
            raise Unsupported("out= with differently selected operands")
        log(st, out.oid, "kill")
        st.heap[out.oid] = ArrO(oo.length, elem, dtype or oo.dtype, mask=oo.mask, mask_id=oo.mask_id, count=oo.count)
        return [Res(st, out)]
    # the result elements must be evaluated on the pre-state of `out` (it may be an operand): closures
    # captured the old objects already, so replacing the heap entry is safe
    kill_write(st, out, elem, dtype)
    return [Res(st, out)]


def int_cast(X, st, a, o):
    """float array -> int64 array (np.array(a, dtype=int), a.astype(int)); a boolean-mask selection is inherited"""
    cast = z3.Function(f"np_int_cast!{core.uid()}", z3.IntSort(), z3.IntSort())
    huge = z3.Function(f"np_int_cast_huge!{core.uid()}", z3.IntSort(), z3.IntSort())

    def to_int(i, o=o):
        v = o.elem(i)
        if isinstance(v, VInt):
            return v
        f = fl_of(X, v)
        ok = z3.And(f.isfin(), f.r > -(2**63), f.r < 2**63)
        t = z3.If(f.r >= 0, z3.ToInt(f.r), -z3.ToInt(-f.r))
        # C leaves the conversion undefined outside the int64 range.  Assumed (x86-64: "integer
        # indefinite" INT64_MIN; aarch64: saturation): +-inf and out-of-range finite values give an
        # integer of magnitude >= 2^62; NaN gives an unspecified integer.
        big = z3.If(huge(i) >= 0, huge(i) + 2**62, huge(i) - 2**62)
        return VInt(z3.If(ok, t, z3.If(f.nan, cast(i), big)))

    return new_arr(st, o.length, to_int, "int", like=(a,))


def call(X, st, name, args, kwargs):
    out = kwargs.get("out")
    if name == "array_equal":
        a, b = args
        if hasattr(a, "t") and hasattr(b, "t") and a.t.sort() == b.t.sort():
            r = st.fresh("array_equal", z3.BoolSort())
            st.add(r == (a.t == b.t))
            return [Res(st, VBool(r))]
        fa, fb = X.B.num(a), X.B.num(b)
        if fa is not None and fb is not None:
            return [Res(st, VBool(fa.eq(fb)))]
        return [Res(st, VBool(False))]
    if name in ("isnan", "isfinite", "isneginf", "isposinf", "isinf"):
        a = args[0]
        pred = {
            "isnan": lambda f: f.nan,
            "isfinite": lambda f: f.isfin(),
            "isneginf": lambda f: f.ninf,
            "isposinf": lambda f: f.pinf,
            "isinf": lambda f: f.isinf(),
        }[name]
        if is_arr(st, a):
            o = read(st, a)
            return with_out(X, st, o.length, lambda i, o=o: VBool(pred(fl_of(X, o.elem(i)))), "bool", args[1] if len(args) > 1 else out)
        f = X.B.num(a)
        if f is None:
            return X.raise_(st, "TypeError", "np." + name)
        return [Res(st, VBool(pred(f)))]
    if name == "bitwise_not":
        a = args[0]
        o = read(st, a)
        return with_out(X, st, o.length, lambda i, o=o: VBool(z3.Not(o.elem(i).t)), "bool", args[1] if len(args) > 1 else out)
    if name in LOGIC:
        n, elem = elementwise(X, st, args[0], args[1], LOGIC[name], "bool")
        return with_out(X, st, n, elem, "bool", args[2] if len(args) > 2 else out)
    if name in CMP:
        n, elem = elementwise(X, st, args[0], args[1], CMP[name](X), "bool")
        return with_out(X, st, n, elem, "bool", args[2] if len(args) > 2 else out, like=args[:2])
    if name in ARITH:
        n, elem = elementwise(X, st, args[0], args[1], ARITH[name](X), "float")
        return with_out(X, st, n, elem, "float", args[2] if len(args) > 2 else out, like=args[:2])
    if name == "floor":
        o = read(st, args[0])

        def fl_floor(i, o=o):
            f = fl_of(X, o.elem(i))
            return VFl(Fl(f.nan, f.pinf, f.ninf, z3.ToReal(z3.ToInt(f.r))))

        return with_out(X, st, o.length, fl_floor, "float", args[1] if len(args) > 1 else out, like=args[:1])
    if name in ("minimum", "maximum"):
        def fl_mm(x, y, name=name):
            if isinstance(x, VInt) and isinstance(y, VInt):
                return VInt(z3.If((x.t <= y.t) if name == "minimum" else (x.t >= y.t), x.t, y.t))
            fx, fy = fl_of(X, x), fl_of(X, y)
            pick = Fl.ite(fx.le(fy) if name == "minimum" else fx.ge(fy), fx, fy)
            return VFl(Fl.ite(z3.Or(fx.nan, fy.nan), Fl.const(float("nan")), pick))

        n, elem = elementwise(X, st, args[0], args[1], fl_mm, "float")
        dts = [st.heap[v.oid].dtype for v in args[:2] if is_arr(st, v)]
        return with_out(X, st, n, elem, dts[0] if dts else "float", args[2] if len(args) > 2 else out, like=args[:2])
    if name == "bincount":
        # a reduction with data-dependent structure: the *path* is outside the proof from here on (bounded stand-in);
        # the operands are recorded so that the caller can state a contract about what is being counted
        idx = args[0]
        st.np_bincount = getattr(st, "np_bincount", []) + [(idx, kwargs.get("weights", args[1] if len(args) > 1 else None), kwargs.get("minlength", args[2] if len(args) > 2 else None))]
        st.events.append(("np-out-of-reach", name))
        return X.raise_(st, "HGV_PathOutOfReach", "np." + name)
    if name == "array":
        a = args[0]
        dt = kwargs.get("dtype")
        dts = dt.name if isinstance(dt, core.VBuiltin) else ("type.int" if isinstance(dt, core.VBuiltin) else None)
        if not is_arr(st, a):
            if isinstance(a, VObj) and isinstance(st.obj(a), CList):
                items = list(st.obj(a).items)
                cl = CList(items)
                if not items:
                    return [Res(st, new_arr(st, z3.IntVal(0), lambda i: VFl(Fl.const(0.0)), "float"))]
                return [Res(st, new_arr(st, z3.IntVal(len(items)), lambda i: X.B.clist_get(cl, i), "float"))]
            if isinstance(a, VObj) and isinstance(st.obj(a), core.LList):
                ll = st.obj(a)
                return [Res(st, new_arr(st, ll.length(), lambda i, ll=ll: ll.get(i), "float"))]
            raise Unsupported("np.array of a non-array")
        o = read(st, a)
        if dt is None or (dts and dts.endswith("float64")):
            return [Res(st, new_arr(st, o.length, o.elem, o.dtype if dt is None else "float"))]
        if dts and (dts.endswith("int64") or dts == "type.int"):
            return [Res(st, int_cast(X, st, a, o))]
        raise Unsupported(f"np.array dtype {dt!r}")
    if name == "empty":
        shape = args[0]
        n = shape.items[0].t if isinstance(shape, VTuple) else None
        if n is None:
            raise Unsupported("np.empty shape")
        junk = z3.Function(f"np_empty!{core.uid()}", z3.IntSort(), z3.BoolSort())
        return [Res(st, new_arr(st, n, lambda i: VBool(junk(i)), "bool"))]
    if name == "ones":
        shape = args[0]
        if isinstance(shape, VObj) and isinstance(st.obj(shape), CList):
            n = st.obj(shape).items[0]
        elif isinstance(shape, VTuple):
            n = shape.items[0]
        else:
            raise Unsupported("np.ones shape")
        if not isinstance(n, VInt):
            raise Unsupported("np.ones with unknown length")
        return [Res(st, new_arr(st, n.t, lambda i: VFl(Fl.const(1.0)), "float"))]
    if name == "all":
        a = args[0]
        if isinstance(a, VBool):
            return [Res(st, a)]
        o = read(st, a)
        i = z3.Int(f"npall!{core.uid()}")
        b = st.forall(i, z3.And(i >= 0, i < o.length), o.elem(i).t, equiv=True, name="np.all", base_only=True)
        return [Res(st, VBool(b))]
    if name == "sum":
        return method(X, st, args[0], "sum", [], {})
    if name == "where" and len(args) == 3:
        c = read(st, args[0])
        n1, ea = elementwise(X, st, args[1], args[1], lambda x, y: x, "float")
        n2, eb = elementwise(X, st, args[2], args[2], lambda x, y: x, "float")
        return [Res(st, new_arr(st, c.length, lambda i, c=c: vite(c.elem(i).t, ea(i), eb(i)), "float"))]
    if name in ("isclose", "round", "linspace", "arange", "concatenate", "diff", "finfo"):
        return accessor_call(X, st, name, args, kwargs)
    if name in ("histogram", "unique", "average"):
        # reductions with data-dependent structure: this *path* is outside the proof (bounded stand-in)
        st.events.append(("np-out-of-reach", name))
        return X.raise_(st, "HGV_PathOutOfReach", "np." + name)
    raise Unsupported(f"numpy.{name}")


ISCLOSE_ATOL, ISCLOSE_RTOL = z3.RealVal("1/100000000"), z3.RealVal("1/100000")


def fl_isclose(a, b):
    """numpy.isclose(a, b) with the default tolerances, over the reals (A-REAL):
    |a - b| <= atol + rtol * |b| for finite operands, equality for infinities, False with a NaN"""
    absb = z3.If(b.r >= 0, b.r, -b.r)
    d = a.r - b.r
    absd = z3.If(d >= 0, d, -d)
    return z3.Or(z3.And(a.isfin(), b.isfin(), absd <= ISCLOSE_ATOL + ISCLOSE_RTOL * absb), z3.And(a.pinf, b.pinf), z3.And(a.ninf, b.ninf))


def seq_parts(X, st, v):
    """(length term, index -> V) of an array, list or tuple value"""
    if is_arr(st, v):
        o = read(st, v)
        return o.length, o.elem
    so = X.B.seqobj(st, v)
    if so is None:
        raise Unsupported(f"sequence expected, got {v!r}")
    if isinstance(so, CList):
        return z3.IntVal(len(so.items)), (lambda i, so=so: X.B.clist_get(so, i))
    return so.length(), so.get


def accessor_call(X, st, name, args, kwargs):
    """numpy functions used by the read accessors (bin_edges, bin_centers, ...): assumed contracts over A-REAL"""
    if name == "isclose":
        fa, fb = fl_of(X, args[0]), fl_of(X, args[1])
        if len(args) > 2 or kwargs:
            raise Unsupported("np.isclose with explicit tolerances")
        return [Res(st, VBool(fl_isclose(fa, fb)))]
    if name == "round":
        # round half to even: an integer within 1/2 of the argument (which of the two at a tie is unspecified here)
        f = fl_of(X, args[0])
        if len(args) > 1:
            raise Unsupported("np.round with decimals")
        k = st.fresh("npround", z3.IntSort())
        st.add(z3.Implies(f.isfin(), z3.And(z3.ToReal(k) - z3.RealVal("1/2") <= f.r, f.r <= z3.ToReal(k) + z3.RealVal("1/2"))))
        return [Res(st, VFl(Fl(f.nan, f.pinf, f.ninf, z3.ToReal(k)), "npfloat"))]
    if name == "linspace":
        a, b, n = fl_of(X, args[0]), fl_of(X, args[1]), args[2]
        if not isinstance(n, VInt):
            raise Unsupported("np.linspace num")
        out = []
        for s, neg in X.branch(st, n.t < 0):
            if neg:
                out.extend(X.raise_(s, "ValueError", "np.linspace: negative number of samples"))
                continue
            # element i = a + i * (b - a) / (n - 1); the last element is exactly b (numpy sets it)
            span = b.sub(a)

            def el(i, a=a, b=b, n=n, span=span):
                step = np_div(span, Fl.fin(z3.ToReal(n.t - 1)))
                v = a.add(Fl.fin(z3.ToReal(i)).mul(step))
                v = Fl.ite(i == 0, a, Fl.ite(i == n.t - 1, b, v))
                return VFl(v, "npfloat")

            out.append(Res(s, new_arr(s, n.t, el, "float")))
        return out
    if name == "arange":
        if len(args) != 3:
            raise Unsupported("np.arange form")
        a, b, step = (fl_of(X, x) for x in args)
        # length = ceil((stop - start) / step) for finite operands and step > 0 (otherwise out of reach)
        L = st.fresh("arange.len", z3.IntSort())
        q = npquot(b.r - a.r, step.r)
        st.add(z3.Implies(z3.And(a.isfin(), b.isfin(), step.isfin(), step.r > 0), z3.And(L >= 0, z3.Or(z3.And(q <= 0, L == 0), z3.And(q > 0, z3.ToReal(L) - 1 < q, q <= z3.ToReal(L))))))
        st.events.append(("np-arange", (a, b, step)))
        return [Res(st, new_arr(st, L, lambda i, a=a, step=step: VFl(a.add(Fl.fin(z3.ToReal(i)).mul(step)), "npfloat"), "float"))]
    if name == "concatenate":
        parts = X.B.as_sequence(st, args[0])
        if parts is None or len(parts) != 2:
            raise Unsupported("np.concatenate form")
        (n1, e1), (n2, e2) = seq_parts(X, st, parts[0]), seq_parts(X, st, parts[1])
        return [Res(st, new_arr(st, z3.simplify(n1 + n2), lambda i, n1=n1, e1=e1, e2=e2: vite(i < n1, e1(i), e2(i - n1)), "float"))]
    if name == "diff":
        n, e = seq_parts(X, st, args[0])
        m = z3.simplify(z3.If(n > 0, n - 1, 0))
        return [Res(st, new_arr(st, m, lambda i, e=e: VFl(fl_of(X, e(i + 1)).sub(fl_of(X, e(i))), "npfloat"), "float"))]
    if name == "finfo":
        return [Res(st, core.VBuiltin("np.finfo.obj", None))]
    raise Unsupported(f"numpy.{name}")


def getslice(X, st, a, lo, hi):
    """a[lo:hi] of an array: a new array (a view in numpy; the accessors never write through it)"""
    o = read(st, a)
    n = o.length

    def norm(b, default):
        if isinstance(b, VNone):
            return default
        if not isinstance(b, VInt):
            raise Unsupported("array slice bound")
        t = z3.If(b.t < 0, b.t + n, b.t)
        return z3.If(t < 0, 0, z3.If(t > n, n, t))

    l, h = z3.simplify(norm(lo, z3.IntVal(0))), z3.simplify(norm(hi, n))
    return [Res(st, new_arr(st, z3.simplify(z3.If(h > l, h - l, 0)), lambda i, o=o, l=l: o.elem(i + l), o.dtype))]


def materialise(X, st, v, neutral=None):
    """a WArr term whose elements are the current elements of the float array v; rows dropped by a boolean-mask
    selection hold `neutral` (0 for sums, +inf / -inf for min / max)"""
    o = read(st, v)
    W = st.fresh("W", WArr)
    i = z3.Int(f"wi!{core.uid()}")
    fl = fl_of(X, o.elem(i))
    if o.mask is not None:
        fl = Fl.ite(o.mask(i), fl, neutral if neutral is not None else Fl.const(0.0))
    body = z3.And(wat_nan(W, i) == fl.nan, wat_pinf(W, i) == fl.pinf, wat_ninf(W, i) == fl.ninf, z3.Implies(fl.isfin(), wat_r(W, i) == fl.r))
    st.forall(i, z3.And(i >= 0, i < o.length), body, name="materialise", base_only=True)
    return W


def method(X, st, selfv, name, args, kw):
    if not is_arr(st, selfv):
        raise Unsupported(f"ndarray.{name} on {selfv!r}")
    o = st.heap[selfv.oid]
    if name == "copy":
        read(st, selfv)
        return [Res(st, new_arr(st, o.length, o.elem, o.dtype))]
    if name == "sum":
        W = materialise(X, st, selfv)
        if getattr(st, "np_special_sums", False):
            # elements may be nan / +-inf (a quantity array): the order-independent Fl sum; a flag is set only if
            # some element has it
            st.np_reductions = getattr(st, "np_reductions", []) + [("sum", W)]
            for flag, at in ((aflag_nan, wat_nan), (aflag_pinf, wat_pinf), (aflag_ninf, wat_ninf)):
                j = z3.Int(f"flg!{core.uid()}")
                none = st.forall(j, z3.And(j >= 0, j < o.length), z3.Not(at(W, j)), equiv=True, name="sum-flag", base_only=True)
                st.add(z3.Implies(none, z3.Not(flag(W))))
            return [Res(st, VFl(fl_sum(W), "npfloat"))]
        return [Res(st, VFl(Fl.fin(asum(W)), "npfloat"))]
    if name == "astype":
        dt = args[0] if args else kw.get("dtype")
        dts = dt.name if isinstance(dt, core.VBuiltin) else None
        read(st, selfv)
        if dts and (dts.endswith("int64") or dts == "type.int"):
            return [Res(st, int_cast(X, st, selfv, o))]
        raise Unsupported(f"ndarray.astype({dt!r})")
    if name in ("min", "max") and o.mask is not None:
        W = materialise(X, st, selfv, neutral=Fl.const(float("inf") if name == "min" else float("-inf")))
        st.np_reductions = getattr(st, "np_reductions", []) + [(name, W)]
        out = []
        for s, empty in X.branch(st, o.count == 0):
            if empty:
                out.extend(X.raise_(s, "ValueError", "zero-size array to reduction operation"))
            else:
                out.append(Res(s, VFl(fl_min(W) if name == "min" else fl_max(W), "npfloat")))
        return out
    raise Unsupported(f"ndarray.{name}")


def getattr_(X, st, v, name):
    o = st.heap[v.oid]
    if name == "shape":
        return [Res(st, VTuple([VInt(o.count if o.mask is not None else o.length)]))]
    return [Res(st, core.VBuiltin("arr." + name, v))]


def getitem(X, st, a, i):
    o = read(st, a)
    if isinstance(i, VInt):
        if o.mask is not None:
            raise Unsupported("element of a mask-selected array")
        return [Res(st, o.elem(i.t))]
    if is_arr(st, i):
        m = read(st, i)
        if m.dtype == "bool" and o.mask is None and m.mask is None:
            mid = id(m)
            known = getattr(st, "mask_counts", {})
            if mid not in known:
                cnt = st.fresh("masked.count", z3.IntSort())
                j = z3.Int(f"msk!{core.uid()}")
                none = st.forall(j, z3.And(j >= 0, j < o.length), z3.Not(m.elem(j).t), equiv=True, name="mask-empty", base_only=True)
                st.add(cnt >= 0, cnt <= o.length, (cnt == 0) == none)
                known = dict(known)
                known[mid] = cnt
                st.mask_counts = known
            cnt = known[mid]
            return [Res(st, st.alloc(ArrO(o.length, o.elem, o.dtype, mask=lambda j, m=m: m.elem(j).t, mask_id=mid, count=cnt)))]
    raise Unsupported("array indexing form")


def setitem(X, st, a, idx, v):
    """a[mask] = scalar ; a[:] = b (handled by setslice)"""
    if is_arr(st, idx):
        m = read(st, idx)
        old = st.heap[a.oid]
        log(st, a.oid, "read")
        partial_write(st, a, lambda i, m=m, old=old: vite(m.elem(i).t, v, old.elem(i)))
        return [Res(st, NONE)]
    raise Unsupported("array assignment form")


def setslice(X, st, a, v):
    """a[:] = b"""
    if is_arr(st, v):
        src = read(st, v)
        kill_write(st, a, src.elem)
    else:
        kill_write(st, a, lambda i: v)
    from .execu import Out

    return [Out(st)]


def compare(X, st, op, a, b):
    import ast

    name = {ast.Lt: "less", ast.LtE: "less_equal", ast.Gt: "greater", ast.GtE: "greater_equal", ast.Eq: "equal", ast.NotEq: "not_equal"}.get(type(op))
    if name is None:
        raise Unsupported("array comparison")
    n, elem = elementwise(X, st, a, b, CMP[name](X), "bool")
    return [Res(st, new_arr(st, n, elem, "bool"))]


def binop(X, st, op, a, b):
    import ast

    if isinstance(op, (ast.BitAnd, ast.BitOr)):
        n, elem = elementwise(X, st, a, b, LOGIC["bitwise_and" if isinstance(op, ast.BitAnd) else "bitwise_or"], "bool")
        return [Res(st, new_arr(st, n, elem, "bool"))]
    name = {ast.Add: "add", ast.Sub: "subtract", ast.Mult: "multiply", ast.Div: "divide"}.get(type(op))
    if name is None:
        raise Unsupported("array arithmetic")
    n, elem = elementwise(X, st, a, b, ARITH[name](X), "float")
    return [Res(st, new_arr(st, n, elem, "float", like=(a, b)))]


def child_numpy(X, st, ch, args, kwargs):
    """contract of child._numpy(data, weights, shape): the child's view becomes vnp(view, batch, W) for the
    materialised weight array; the array arguments are not modified; shape[0] is set to the batch length
    when it was None.  (Exceptions of children are not modelled here: C03 is about equality of results.)"""
    data, weights, shape = (list(args) + [kwargs.get(k) for k in ("data", "weights", "shape")])[:3]
    if isinstance(data, VOpq) and data.tag in ("datum", "batch"):
        batch = data.t
    elif isinstance(data, VNone):
        batch = z3.Const("datum:None", core.Datum)
    else:
        raise Unsupported("child._numpy data")
    if is_arr(st, weights):
        W = materialise(X, st, weights)
        n = st.heap[weights.oid].length
    else:
        # scalar weights: every row carries that weight.  Precondition of the interface method: the batch
        # length must be known to the callee -- it is either already in shape[0] or the callee computes a
        # quantity array; a callee without a quantity (Count) cannot know it.  A call with shape[0] None
        # is recorded and reported by the caller's `requires` clause.
        fw = X.B.num(weights)
        if fw is None:
            raise Unsupported("child._numpy weights")
        so = st.obj(shape) if isinstance(shape, VObj) else None
        unknown_len = isinstance(so, CList) and len(so.items) == 1 and isinstance(so.items[0], VNone)
        if unknown_len:
            st.events.append(("np-requires-violated", "child._numpy(scalar weights, shape=[None]): the callee may be a Count, which cannot know the batch length"))
        n = z3.Function("batchlen", core.Datum, z3.IntSort())(batch)
        W = st.fresh("W", WArr)
        i = z3.Int(f"wi!{core.uid()}")
        st.forall(i, z3.And(i >= 0, i < n), wat(W, i).same(fw), name="materialise-scalar", base_only=True)
        if unknown_len:
            # a quantity-bearing callee sets shape[0]; modelled as set (the Count case is the reported violation)
            st.set_obj(shape, CList([VInt(n)]))
    va = st.view(ch.ref)
    r = vnp(va, batch, W)
    st.add(core.SH(r) == core.SH(va), core.zk(r) == core.zk(va), core.E(r) == core.E(va) + asum(W), z3.Implies(core.wfv(va), core.wfv(r)))
    st.set_view(ch.ref, r)
    calls = getattr(st, "np_calls", [])
    st.np_calls = calls + [(ch.ref, W, n)]
    st.events.append(("child-numpy", ch.ref))
    return [Res(st, NONE)]
