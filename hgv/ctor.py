"""C06 constructor clause: two aggregators built by separate constructor calls never share mutable
state.  Every child slot of a freshly constructed object holds either an object the caller passed
explicitly in an *adopting* parameter, or an object allocated by this call; never an object created
at import time (a default-argument aggregator).  The template slot `value` is exempt (it is only
copied / zeroed, never filled: clause template-readonly, checked syntactically)."""

import ast

import z3

from . import core, models, schema, smt
from .core import NONE, State, Unsupported, VChild, VFl, VInt, VObj, VStr
from .execu import Exec
from .extra import add_function, record, record_fact
from .fl import Fl
from .frontend import PRIMITIVES
from .sv import CChild, CIte, CTuple, comp_of

import sys, os
sys.path.insert(0, os.path.dirname(os.path.dirname(os.path.abspath(__file__))))
from spec import specs  # noqa: E402

CALLER = 9  # owner id of objects passed in by the caller


def tasks_for(prop, tier):
    if prop != "C06":
        return []
    return [("ctor", K) for K in PRIMITIVES] + [("ctor", "template-readonly")]


def caller_child(st, name):
    return schema.sym_child(st, CALLER, name)


def arg_sets(st, K):
    """-> list of (variant, args, kwargs, starargs, starkw)"""
    q = schema.sym_userfcn(st, "argq")
    fl = lambda n, kind="fin": VFl(schema.sym_fl(st, n, kind))
    out = []
    if K == "Count":
        out.append(("defaults", [], {}, None, None))
    elif K in ("Sum", "Average", "Deviate", "Minimize", "Maximize"):
        out.append(("explicit", [q], {}, None, None))
        out.append(("defaults", [], {}, None, None))
    elif K == "Bag":
        out.append(("explicit", [q, VStr("N")], {}, None, None))
    elif K == "Bin":
        n = z3.Int("argnum")
        st.add(n >= 1)
        lo, hi = fl("arglow"), fl("arghigh")
        st.add(lo.fl.r < hi.fl.r)
        out.append(("defaults", [VInt(n), lo, hi, q], {}, None, None))
        out.append(("explicit", [VInt(n), lo, hi, q] + [caller_child(st, x) for x in ("value", "underflow", "overflow", "nanflow")], {}, None, None))
    elif K == "SparselyBin":
        bw = fl("argbw", "pos")
        out.append(("defaults", [bw, q], {}, None, None))
        out.append(("explicit", [bw, q, caller_child(st, "value"), caller_child(st, "nanflow"), fl("argorigin")], {}, None, None))
    elif K in ("CentrallyBin", "IrregularlyBin", "Stack"):
        n = z3.Int("argn")
        st.add(n >= 2)
        ff = schema.float_family("argc", 0)
        i, j = z3.Int("ai"), z3.Int("aj")
        st.forall(i, z3.And(i >= 0, i < n), z3.And(ff(i).isfin(), ff(i).wf()), name="arg-finite")
        st.forall(i, z3.And(i >= 0, i + 1 < n), ff(i).r < ff(i + 1).r, name="arg-increasing")
        st.forall([i, j], z3.And(i >= 0, i < j, j < n), ff(i).r < ff(j).r, name="arg-monotone")
        lst = st.alloc(core.LList(n, lambda k: VFl(ff(k))), new=False)
        out.append(("defaults", [lst, q], {}, None, None))
        out.append(("explicit", [lst, q, caller_child(st, "value"), caller_child(st, "nanflow")], {}, None, None))
    elif K in ("Fraction", "Categorize"):
        out.append(("defaults", [q], {}, None, None))
        out.append(("explicit", [q, caller_child(st, "value")], {}, None, None))
    elif K == "Select":
        out.append(("defaults", [q], {}, None, None))
        out.append(("explicit", [q, caller_child(st, "cut")], {}, None, None))
    elif K in ("Label", "UntypedLabel"):
        d, dom, n = schema.child_dict(st, CALLER, "pairs", "str")
        st.add(n >= 1)
        if K == "Label":
            schema.shape_uniform_dict(st, CALLER, "pairs", dom, None, classes_only=True)
        out.append(("explicit", [], {}, None, d))
    elif K in ("Index", "Branch"):
        n = z3.Int("argn")
        st.add(n >= 1)
        lst = schema.child_list(st, CALLER, "values", n, is_tuple=True)
        if K == "Index":
            schema.shape_uniform_list(st, CALLER, "values", n, classes_only=True)
        out.append(("explicit", [], {}, lst, None))
    return out


ADOPTING = {"Select": {"cut"}, "Label": {"pairs"}, "UntypedLabel": {"pairs"}, "Index": {"values"}, "Branch": {"values"}}


def slot_goal(st, K, objv, field, kind):
    o = st.obj(objv)
    fv = o.fields.get(field)
    adopting = field in ADOPTING.get(K, ())

    def ok_ref(ref):
        fresh = core.Ref.is_New(ref)
        if adopting:
            return z3.Or(fresh, z3.And(core.Ref.is_Old(ref), core.Ref.owner(ref) == CALLER))
        return fresh

    def ok(comp):
        if isinstance(comp, CTuple):
            comp = comp.items[1]
        if isinstance(comp, CIte):
            return z3.If(comp.c, ok(comp.a), ok(comp.b))
        if isinstance(comp, CChild) and comp.ref is not None:
            return ok_ref(comp.ref)
        return z3.BoolVal(False)

    if kind == "one":
        if isinstance(fv, VObj):  # a concrete aggregator allocated by this very call (e.g. a fresh default Count)
            return z3.BoolVal(fv.oid in st.new_oids)
        return ok_ref(fv.ref) if isinstance(fv, VChild) else z3.BoolVal(False)
    if not isinstance(fv, VObj):
        return z3.BoolVal(False)
    c = comp_of(st, fv)
    k = z3.Const(f"ct!{core.uid()}", c.ksort)
    return st.forall(k, c.dom(k), ok(c.val(k)), equiv=True, name="ctor." + field)


def run_task(P, task, prop, tier, out):
    K = task[1]
    if K == "template-readonly":
        return template_readonly(P, prop, out)
    for entry in ("__init__", "ing"):
        fi = P.lookup_method(K, entry)
        if fi is None:
            continue
        probe = State()
        variants = [v[0] for v in arg_sets(probe, K)]
        for vi, variant in enumerate(variants):
            X = Exec(P, models.std_hooks())
            st = State()
            _, args, kwargs, starargs, starkw = arg_sets(st, K)[vi]
            st.frames = [{"%module": P.module_of_class(K)}]
            try:
                if entry == "__init__":
                    res = X.B.instantiate(st, K, args, kwargs, starargs=starargs, starkw=starkw)
                else:
                    if K == "Bag":
                        args = args[:1]
                    if entry == "ing" and variant == "defaults" and K in ("Sum", "Average", "Deviate", "Minimize", "Maximize"):
                        continue  # ing(quantity) has no default
                    res = X.call_function(st, fi, args, kwargs, starargs=starargs, starkw=starkw)
            except Unsupported as e:
                out["out_of_reach"].append({"function": fi.qualname, "reason": str(e)})
                continue
            add_function(out, fi, variant, paths=len(res))
            for i, r in enumerate(res):
                p = f"{variant}:p{i}" + (f":{r.exc.cls}@{r.exc.origin}" if r.exc is not None else "")
                if r.exc is not None:
                    vc = smt.build_vc("ctor", r.st.fork(), z3.BoolVal(False))
                    record(out, prop, fi.qualname, "ensures:no-raise-on-valid-arguments", p, variant, vc, tier)
                    continue
                for f, kind in specs.CHILDREN.get(K, {}).items():
                    s = r.st.fork()
                    vc = smt.build_vc("ctor", s, slot_goal(s, K, r.v, f, kind))
                    record(out, prop, fi.qualname, f"ensures:slots-owned:{f}", p, variant, vc, tier)


def template_readonly(P, prop, out):
    """no method under contract calls a mutating interface method on the template slot self.value"""
    bad = []
    for K in ("SparselyBin", "Categorize", "CentrallyBin"):
        ci = P.classes[K]
        for m, fi in ci.methods.items():
            if m in ("_sparksql", "histogram", "fillsparksql"):
                continue
            for node in ast.walk(fi.node):
                if isinstance(node, ast.Call) and isinstance(node.func, ast.Attribute):
                    tgt = node.func.value
                    if isinstance(tgt, ast.Attribute) and tgt.attr == "value" and isinstance(tgt.value, ast.Name) and tgt.value.id == "self":
                        if node.func.attr in ("fill", "_numpy", "__iadd__", "fillnumpy"):
                            bad.append(f"{fi.qualname}: self.value.{node.func.attr}")
                if isinstance(node, ast.AugAssign) and isinstance(node.target, ast.Attribute) and node.target.attr == "value":
                    bad.append(f"{fi.qualname}: self.value augmented")
        record_fact(out, prop, f"{ci.module}.{K}", "invariant:template-readonly", not bad, "; ".join(bad))
