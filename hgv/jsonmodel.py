"""Symbolic JSON values (input of fromJsonFragment for C15) and the JSON part of the child interface
contract (enc / dec, law L-rt as induction hypothesis for children).

A VJson wraps a term of sort Json with
  jtag in {NULL, BOOL, NUM, STR, ARR, OBJ}; jbool; jnum (a finite real; jisint tells ints from floats);
  jstr; jlen / jelem for arrays; jhas / jget for objects.
Assumed: json.loads yields exactly these shapes (numbers finite: the documents are strict JSON).
"""

import ast

import z3

from . import core
from .core import NONE, Unsupported, VBool, VChild, VFl, VInt, VJson, VNone, VObj, VOpq, VStr, VTuple
from .fl import Fl

J = core.Json
NULL, BOOL, NUM, STR, ARR, OBJ = range(6)
jtag = z3.Function("jtag", J, z3.IntSort())
jbool = z3.Function("jbool", J, z3.BoolSort())
jnum = z3.Function("jnum", J, z3.RealSort())
jisint = z3.Function("jisint", J, z3.BoolSort())
jstr = z3.Function("jstr", J, core.StrS)
jlen = z3.Function("jlen", J, z3.IntSort())
jelem = z3.Function("jelem", J, z3.IntSort(), J)
jhas = z3.Function("jhas", J, core.StrS, z3.BoolSort())
jget = z3.Function("jget", J, core.StrS, J)

# child interface: fromJsonFragment of an abstract factory
validJ = z3.Function("validJ", core.StrS, J, z3.BoolSort())  # class name, fragment
dec = z3.Function("dec", core.StrS, J, core.StrS, z3.BoolSort(), core.View)  # class, fragment, nameFromParent, has-name


def Res(st, v=None, exc=None):
    from .execu import Res as R

    return R(st, v, exc)


def tag_facts(st, t):
    st.add(jtag(t) >= 0, jtag(t) <= 5, z3.Implies(jtag(t) == ARR, jlen(t) >= 0))


def isinstance_(v, n):
    t = v.t
    if n == "type.dict":
        return jtag(t) == OBJ
    if n == "type.list":
        return jtag(t) == ARR
    if n == "type.tuple":
        return z3.BoolVal(False)
    if n == "type.str":
        return jtag(t) == STR
    if n == "type.bool":
        return jtag(t) == BOOL
    if n == "numbers.Real":
        return z3.Or(jtag(t) == NUM, jtag(t) == BOOL)
    if n == "type.int":
        return z3.Or(jtag(t) == BOOL, z3.And(jtag(t) == NUM, jisint(t)))
    if n == "type.float":
        return z3.And(jtag(t) == NUM, z3.Not(jisint(t)))
    return z3.BoolVal(False)


def num_of(t):
    """Fl of a JSON number / bool"""
    return Fl.fin(z3.If(jtag(t) == BOOL, z3.If(jbool(t), z3.RealVal(1), z3.RealVal(0)), jnum(t)))


def compare(X, st, op, a, b):
    """comparisons involving a symbolic JSON value"""
    if isinstance(b, VJson) and not isinstance(a, VJson):
        flip = {ast.Lt: ast.Gt, ast.Gt: ast.Lt, ast.LtE: ast.GtE, ast.GtE: ast.LtE}
        op2 = flip.get(type(op))
        return compare(X, st, op2() if op2 else op, b, a)
    t = a.t
    tag_facts(st, t)
    if isinstance(op, ast.Eq):
        if isinstance(b, VStr):
            return [Res(st, VBool(z3.And(jtag(t) == STR, jstr(t) == b.t)))]
        if isinstance(b, VNone):
            return [Res(st, VBool(jtag(t) == NULL))]
        fb = X.B.num(b)
        if fb is not None:
            isnum = z3.Or(jtag(t) == NUM, jtag(t) == BOOL)
            return [Res(st, VBool(z3.And(isnum, num_of(t).eq(fb))))]
        if isinstance(b, VJson):
            return [Res(st, VBool(t == b.t))]
        return [Res(st, VBool(False))]
    fb = X.B.num(b)
    if fb is not None:
        out = []
        for s, isnum in X.branch(st, z3.Or(jtag(t) == NUM, jtag(t) == BOOL)):
            if isnum:
                fa = num_of(t)
                r = {ast.Lt: fa.lt(fb), ast.LtE: fa.le(fb), ast.Gt: fa.gt(fb), ast.GtE: fa.ge(fb)}[type(op)]
                out.append(Res(s, VBool(r)))
            else:
                out.extend(X.raise_(s, "TypeError", "ordering json value with number"))
        return out
    raise Unsupported("json comparison")


def contains(X, st, cont, item):
    """`key in json` for an object"""
    t = cont.t
    out = []
    for s, isobj in X.branch(st, jtag(t) == OBJ):
        if isobj:
            if isinstance(item, VStr):
                out.append(Res(s, VBool(jhas(t, item.t))))
            else:
                out.append(Res(s, VBool(False)))
        else:
            raise Unsupported("membership in non-object json")
    return out


def getitem(X, st, a, i):
    t = a.t
    tag_facts(st, t)
    out = []
    if isinstance(i, VStr):
        for s, isobj in X.branch(st, jtag(t) == OBJ):
            if not isobj:
                out.extend(X.raise_(s, "TypeError", "json[str] on non-object"))
                continue
            for s2, has in X.branch(s, jhas(t, i.t)):
                if has:
                    r = jget(t, i.t)
                    tag_facts(s2, r)
                    out.append(Res(s2, VJson(r)))
                else:
                    out.extend(X.raise_(s2, "KeyError", "json key"))
        return out
    if isinstance(i, VInt):
        for s, isarr in X.branch(st, jtag(t) == ARR):
            if not isarr:
                raise Unsupported("json[int] on non-array")
            for s2, ok in X.branch(s, z3.And(i.t >= 0, i.t < jlen(t))):
                if ok:
                    r = jelem(t, i.t)
                    tag_facts(s2, r)
                    out.append(Res(s2, VJson(r)))
                else:
                    raise Unsupported("json index out of range / negative")
        return out
    raise Unsupported("json getitem")


def length(X, st, v):
    t = v.t
    out = []
    for s, isarr in X.branch(st, jtag(t) == ARR):
        if isarr:
            out.append(Res(s, VInt(jlen(t))))
        else:
            raise Unsupported("len of non-array json")
    return out


def to_float(X, st, v):
    """float(json value): numbers, booleans and the strings nan / inf / -inf give one symbolic float
    (no fork); other strings ValueError (or an unconstrained float), other types TypeError"""
    t = v.t
    T = core.strlit
    isnum = z3.Or(jtag(t) == NUM, jtag(t) == BOOL)
    isstr = jtag(t) == STR
    s_ = jstr(t)
    special = z3.And(isstr, z3.Or(s_ == T("nan"), s_ == T("inf"), s_ == T("-inf")))
    out = []
    for s, ok in X.branch(st, z3.Or(isnum, special)):
        if ok:
            fl = Fl(z3.And(isstr, s_ == T("nan")), z3.And(isstr, s_ == T("inf")), z3.And(isstr, s_ == T("-inf")), num_of(t).r)
            out.append(Res(s, VFl(fl, "float")))
            continue
        for s2, isstr2 in X.branch(s, isstr):
            if isstr2:
                s3 = s2.fork()
                out.extend(X.raise_(s3, "ValueError", "float(str)"))
                out.append(Res(s2, VFl(s2.fresh_fl("float_of_str"), "float")))
            else:
                out.extend(X.raise_(s2, "TypeError", "float(json)"))
    return out


def method(X, st, selfv, name, args, kw):
    from .builtins_model import VIter

    t = selfv.t
    if name == "keys":
        return [Res(st, VIter("jkeys", selfv))]
    if name == "items":
        return [Res(st, VIter("jitems", selfv))]
    if name == "get":
        default = args[1] if len(args) > 1 else NONE
        out = []
        for s, has in X.branch(st, z3.And(jtag(t) == OBJ, jhas(t, args[0].t))):
            if has:
                r = jget(t, args[0].t)
                tag_facts(s, r)
                out.append(Res(s, VJson(r)))
            else:
                out.append(Res(s, default))
        return out
    raise Unsupported(f"json method {name}")


def registered_lookup(X, st, i):
    from .frontend import PRIMITIVES

    t = i.t
    out = []
    for s, isstr in X.branch(st, jtag(t) == STR):
        if not isstr:
            out.extend(X.raise_(s, "TypeError", "unhashable / non-string key for Factory.registered"))
            continue
        return_ = X.B.getitem(s, core.VBuiltin("Factory.registered"), VStr(jstr(t)))
        out.extend(return_)
    return out


def child_from_json(X, st, factory, args):
    """contract of <factory>.fromJsonFragment(fragment, nameFromParent) for an abstract factory:
    raises iff not validJ(class, fragment); otherwise a new wf container of that class whose view is
    dec(class, fragment, nameFromParent)."""
    frag, nm = args
    cls = factory.t
    jt = json_term(X, st, frag)
    hasn = z3.BoolVal(not isinstance(nm, VNone))
    if isinstance(nm, VStr):
        nmt = nm.t
    elif isinstance(nm, VJson):
        nmt = jstr(nm.t)
    elif isinstance(nm, VNone):
        nmt = core.strlit("")
    elif isinstance(nm, core.VIte):
        outs = []
        for s, v in X.split_ite(st, nm):
            outs.extend(child_from_json(X, s, factory, [frag, v]))
        return outs
    else:
        raise Unsupported(f"nameFromParent {nm!r}")
    # induction hypothesis L-rt for children: a fragment produced by the child's own toJsonFragment is
    # accepted by the child's class and decodes to the same view, provided the name travels with it
    # (inside the fragment, or through nameFromParent when it was suppressed)
    def leaves(t):
        if z3.is_app(t) and t.decl().kind() == z3.Z3_OP_ITE:
            return leaves(t.arg(1)) + leaves(t.arg(2))
        return [t]

    for leaf in leaves(jt):
        if z3.is_app(leaf) and leaf.decl().name() == "enc":
            v0, sup = leaf.children()
            own = cls == core.cname(core.SH(v0))
            st.add(z3.Implies(own, validJ(cls, leaf)))
            name_ok = z3.If(
                sup,
                z3.And(hasn == core.has_qname(v0), z3.Implies(hasn, nmt == core.qname(v0))),
                z3.Or(core.has_qname(v0), z3.Not(hasn)),
            )
            st.add(z3.Implies(z3.And(own, name_ok), dec(cls, leaf, nmt, hasn) == v0))
    out = []
    for s, ok in X.branch(st, validJ(cls, jt)):
        if ok:
            view = dec(cls, jt, nmt, hasn)
            s.add(core.wfv(view), core.cname(core.SH(view)) == cls, core.E(view) >= 0, core.bkv(view))
            out.append(Res(s, X.I.new_child(s, view)))
        else:
            s.events.append(("child-fromjson-raised",))
            out.extend(X.raise_(s, "JsonFormatException", "child.fromJsonFragment"))
    return out


jwrap_num = z3.Function("jwrap_num", z3.RealSort(), J)
jwrap_str = z3.Function("jwrap_str", core.StrS, J)
jwrap_bool = z3.Function("jwrap_bool", z3.BoolSort(), J)


def json_term(X, st, v):
    """a Json term for a fragment value (symbolic VJson, or a concrete fragment built by toJsonFragment)"""
    if isinstance(v, VJson):
        return v.t
    if isinstance(v, VFl):
        t = jwrap_num(v.fl.r)
        st.add(jtag(t) == NUM, jnum(t) == v.fl.r)
        return t
    if isinstance(v, VStr):
        t = jwrap_str(v.t)
        st.add(jtag(t) == STR, jstr(t) == v.t)
        return t
    if isinstance(v, core.VIte):
        return z3.If(v.c, json_term(X, st, v.a), json_term(X, st, v.b))
    raise Unsupported(f"json term of {v!r}")
