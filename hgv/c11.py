"""C11: the Python-level pickle hooks (MANIFEST level `other`: hooks proved, pickle/marshal protocol assumed,
bounded native stand-in for the whole round trip).

Proved:  Container.__getstate__ returns a new dict = __dict__ minus {fill, plot} and leaves self unchanged;
Container.__setstate__ installs the dict and rebuilds fill/plot bound to self (fill.numpy = fillnumpy);
UserFcn.__reduce__ / deserializeString / deserializeFunction rebuild a wrapper with the same class, name and
expression (assumed: marshal round trip, types.FunctionType determined by code/name/defaults/closure);
Select.__getattr__ resolves instance fields and delegates the rest to the cut without re-entering itself.
"""

import z3

from . import core, models, schema, smt
from .core import NONE, CDict, Inst, State, Unsupported, VBool, VBuiltin, VClass, VFunc, VObj, VOpq, VStr, VTuple
from .execu import Exec
from .extra import add_function, record
from .frontend import PRIMITIVES
from .sv import comp_of, content_eq

CLASSES = ["Count", "Sum", "Bin", "SparselyBin", "Select", "Label", "Branch", "CentrallyBin"]


def tasks_for(prop, tier):
    if prop != "C11":
        return []
    return [("c11", "getstate", K) for K in CLASSES] + [("c11", "setstate", K) for K in CLASSES] + [("c11", "reduce"), ("c11", "select-getattr")]


def goal_rec(out, prop, fn, clause, path, variant, st, goal, tier):
    s = st.fork()
    if callable(goal):
        goal = goal(s)
    vc = smt.build_vc("c11", s, goal)
    record(out, prop, fn, clause, path, variant, vc, tier)


def run_task(P, task, prop, tier, out):
    kind = task[1]
    if kind == "getstate":
        K = task[2]
        fi = P.lookup_method(K, "__getstate__")
        X = Exec(P, models.std_hooks())
        st = State()
        selfv = schema.make_instance(st, K, 1)
        pre = st.fork()
        try:
            res = X.run(st, fi, [selfv])
        except Unsupported as e:
            out["out_of_reach"].append({"function": fi.qualname, "reason": str(e)})
            return
        add_function(out, fi, K, paths=len(res))
        for i, r in enumerate(res):
            p = f"{K}:p{i}"
            if r.exc is not None:
                goal_rec(out, prop, fi.qualname, "ensures:no-raise", p, K, r.st, z3.BoolVal(False), tier)
                continue
            s = r.st
            o0, o1 = pre.obj(selfv), s.obj(selfv)
            same = o1 is o0 or (set(o0.fields) == set(o1.fields) and all(o0.fields[k] is o1.fields[k] for k in o0.fields))
            goal_rec(out, prop, fi.qualname, "ensures:original-unchanged", p, K, s, z3.BoolVal(same), tier)
            d = s.obj(r.v) if isinstance(r.v, VObj) else None
            ok = isinstance(d, CDict) and r.v.oid in s.new_oids
            if ok:
                want = {k for k in o0.fields if k not in ("fill", "plot")}
                ok = set(d.items) == want and all(d.items[k] is o0.fields[k] for k in want)
            goal_rec(out, prop, fi.qualname, "ensures:state-is-copy-of-dict-minus-fill-plot", p, K, s, z3.BoolVal(bool(ok)), tier)
    elif kind == "setstate":
        K = task[2]
        fi = P.lookup_method(K, "__setstate__")
        X = Exec(P, models.std_hooks())
        st = State()
        src = schema.make_instance(st, K, 1)
        fields = {k: v for k, v in st.obj(src).fields.items() if k not in ("fill", "plot")}
        state = st.alloc(CDict(fields), new=False)
        tgt = st.alloc(Inst(K, {}), new=False)  # what pickle creates with cls.__new__(cls)
        try:
            res = X.run(st, fi, [tgt, state])
        except Unsupported as e:
            out["out_of_reach"].append({"function": fi.qualname, "reason": str(e)})
            return
        add_function(out, fi, K, paths=len(res))
        for aux in ("FillMethod", "PlotMethod"):
            add_function(out, P.lookup_method(aux, "__init__"), K)
        for i, r in enumerate(res):
            p = f"{K}:p{i}"
            if r.exc is not None:
                goal_rec(out, prop, fi.qualname, "ensures:no-raise", p + f":{r.exc.cls}@{r.exc.origin}", K, r.st, z3.BoolVal(False), tier)
                continue
            s = r.st
            o = s.obj(tgt)
            ok = all(k in o.fields and o.fields[k] is v for k, v in fields.items())
            goal_rec(out, prop, fi.qualname, "ensures:fields-installed", p, K, s, z3.BoolVal(ok), tier)
            fm = o.fields.get("fill")
            fo = s.obj(fm) if isinstance(fm, VObj) else None
            live = isinstance(fo, Inst) and fo.cls == "FillMethod"
            if live:
                c, nump, fl = fo.fields.get("container"), fo.fields.get("numpy"), fo.fields.get("fill")
                live = (
                    isinstance(c, VObj) and c.oid == tgt.oid
                    and isinstance(nump, VFunc) and nump.fi.name == "fillnumpy" and nump.self_v is not None and nump.self_v.oid == tgt.oid
                    and isinstance(fl, VFunc) and fl.fi.name == "fill" and fl.fi.cls == K and fl.self_v.oid == tgt.oid
                )
            goal_rec(out, prop, fi.qualname, "ensures:fill-rebound-to-clone", p, K, s, z3.BoolVal(bool(live)), tier)
            pm = o.fields.get("plot")
            po = s.obj(pm) if isinstance(pm, VObj) else None
            goal_rec(out, prop, fi.qualname, "ensures:plot-rebuilt", p, K, s, z3.BoolVal(isinstance(po, Inst) and po.cls == "PlotMethod"), tier)
    elif kind == "reduce":
        util = P.modules["histogrammar.util"]
        red = util.classes["UserFcn"].methods["__reduce__"]
        add_function(out, red, "reduce")
        add_function(out, util.functions["deserializeString"], "reduce")
        add_function(out, util.functions["deserializeFunction"], "reduce")
        for cls in ("UserFcn", "CachedFcn"):
            for what in ("string", "none", "function"):
                X = Exec(P, models.std_hooks())
                st = State()
                f = z3.Const("f", core.Opq)
                ex = {"string": VStr(z3.Const("expr", core.StrS)), "none": NONE, "function": VOpq(f, "function")}[what]
                nm = core.vite(z3.Bool("hasname"), VStr(z3.Const("nm", core.StrS)), NONE)
                w = st.alloc(Inst(cls, {"expr": ex, "name": nm}), new=False)
                if what == "function":
                    # assumed: a function is determined by its code, name, defaults and closure
                    A = lambda a: z3.Function("attr_" + a, core.Opq, core.Opq)(f)
                    nameq = z3.Function("opq_of_str", core.StrS, core.Opq)(z3.Function("fn_name", core.Opq, core.StrS)(f))
                    mk = z3.Function("mkfn", core.Opq, core.Opq, core.Opq, core.Opq, core.Opq)
                    st.add(mk(A("__code__"), nameq, A("__defaults__"), A("__closure__")) == f)
                pre = st.fork()
                st.frames = [{"%module": "histogrammar.util"}]
                try:
                    res = X.call_function(st, red, [w], {})
                except Unsupported as e:
                    out["out_of_reach"].append({"function": red.qualname, "reason": str(e)})
                    return
                for i, r in enumerate(res):
                    p = f"{cls}:{what}:p{i}"
                    if r.exc is not None:
                        goal_rec(out, prop, red.qualname, "ensures:no-raise", p, what, r.st, z3.BoolVal(False), tier)
                        continue
                    s = r.st
                    o0, o1 = pre.obj(w), s.obj(w)
                    goal_rec(out, prop, red.qualname, "ensures:original-unchanged", p, what, s, z3.BoolVal(o1 is o0), tier)
                    tup = r.v
                    if not (isinstance(tup, VTuple) and len(tup.items) == 2 and isinstance(tup.items[1], VTuple)):
                        goal_rec(out, prop, red.qualname, "ensures:reduce-shape", p, what, s, z3.BoolVal(False), tier)
                        continue
                    ctor, cargs = tup.items
                    # what pickle.loads does: call the reconstructor with the (deep-copied) arguments
                    s.frames = [{"%module": "histogrammar.util"}]
                    try:
                        rr = X.call_value(s, ctor, list(cargs.items), {})
                    except Unsupported as e:
                        out["out_of_reach"].append({"function": "histogrammar.util.deserialize*", "reason": str(e)})
                        return
                    for j, b in enumerate(rr):
                        pj = f"{p}.{j}"
                        fnq = "histogrammar.util.deserializeFunction" if what == "function" else "histogrammar.util.deserializeString"
                        if b.exc is not None:
                            goal_rec(out, prop, fnq, "ensures:no-raise", pj, what, b.st, z3.BoolVal(False), tier)
                            continue
                        c = b.st.obj(b.v) if isinstance(b.v, VObj) else None
                        good = isinstance(c, Inst) and c.cls == cls

                        def g(s2, c=c, good=good):
                            if not good:
                                return z3.BoolVal(False)
                            return z3.And(
                                content_eq(s2, comp_of(s2, c.fields.get("expr", NONE)), comp_of(pre, ex), "expr"),
                                content_eq(s2, comp_of(s2, c.fields.get("name", NONE)), comp_of(pre, nm), "name"),
                            )

                        goal_rec(out, prop, fnq, "ensures:clone-has-same-class-expr-name", pj, what, b.st, g, tier)
                        if what == "function":
                            # the clone's function must resolve every global name its code refers to, and that the
                            # original resolved, to the same object: the names shipped in refs win over the
                            # deserializer's own namespace
                            from .builtins_model import mget, mhas
                            from .loops import co_names_has

                            evs = [ev for ev in b.st.events if ev[0] == "function-globals"]

                            muts = [ev for ev in b.st.events if ev[0] == "globals-mutated"]
                            goal_rec(out, prop, fnq, "ensures:module-namespace-unchanged", pj, what, b.st, z3.BoolVal(not muts), tier)

                            def gg(s2, evs=evs, muts=muts):
                                if len(evs) != 1:
                                    return z3.BoolVal(False)
                                gv = evs[0][2]
                                go = s2.obj(gv) if isinstance(gv, VObj) else None
                                if go is None and isinstance(gv, VOpq) and gv.tag == "opaque-dict" and len(muts) == 1 and isinstance(muts[0][2], VObj) and isinstance(s2.obj(muts[0][2]), core.LDict):
                                    # the live module namespace, updated in place with the shipped names
                                    from .builtins_model import mget as _mget, mhas as _mhas

                                    upd, base = s2.obj(muts[0][2]), gv.t
                                    go = core.LDict(
                                        lambda k: z3.Or(upd.present(k), z3.And(core.Key.is_KStr(k), _mhas(base, core.Key.ks(k)))),
                                        lambda k: core.vite(upd.present(k), upd.val(k), VOpq(_mget(base, core.Key.ks(k)), "other")),
                                        z3.IntVal(0),
                                    )
                                if not isinstance(go, core.LDict):
                                    return z3.BoolVal(False)
                                k = z3.Const("sk.name", core.StrS)
                                kk = core.KStr(k)
                                s2.add_index(kk)
                                C = z3.Function("attr_co_names", core.Opq, core.Opq)(z3.Function("attr___code__", core.Opq, core.Opq)(f))
                                G = z3.Function("attr___globals__", core.Opq, core.Opq)(f)
                                def same_as(v, t):
                                    if isinstance(v, core.VIte):
                                        return z3.If(v.c, same_as(v.a, t), same_as(v.b, t))
                                    if isinstance(v, VOpq) and v.t.sort() == core.Opq:
                                        return v.t == t
                                    return z3.BoolVal(False)

                                return z3.Implies(z3.And(co_names_has(C, k), mhas(G, k)), z3.And(go.present(kk), same_as(go.val(kk), mget(G, k))))

                            goal_rec(out, prop, fnq, "ensures:clone-resolves-the-referenced-globals-as-the-original", pj, what, b.st, gg, tier)
    elif kind == "select-getattr":
        fi = P.lookup_method("Select", "__getattr__")
        add_function(out, fi, "select-getattr")
        X = Exec(P, models.std_hooks())
        for attr, want in (("entries", "field"), ("cut", "field"), ("__len__", "class"), ("nosuchattr", "missing")):
            st = State()
            selfv = schema.make_instance(st, "Select", 1)
            if want == "missing":
                st.add(z3.Not(z3.Or([core.cname(core.SH(core.V0(st.obj(selfv).fields["cut"].ref))) == core.strlit(c) for c in PRIMITIVES])) if False else z3.BoolVal(True))
            try:
                res = X.run(st, fi, [selfv, VStr(attr)])
            except Unsupported as e:
                if want == "missing":
                    continue  # delegation to an abstract cut's unknown attribute
                out["out_of_reach"].append({"function": fi.qualname, "reason": str(e)})
                return
            for i, r in enumerate(res):
                ok = True
                if want == "field":
                    ok = r.exc is None and r.v is st.obj(selfv).fields.get(attr)
                elif want == "class":
                    ok = r.exc is not None and r.exc.cls == "AttributeError" or r.exc is None
                goal_rec(out, prop, fi.qualname, f"ensures:resolves:{attr}", f"p{i}", attr, r.st, z3.BoolVal(bool(ok)), tier)
