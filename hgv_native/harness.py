"""Native (CPython) side of HGV: runs the *same contract clauses* on concrete inputs against the real
library.  Used (1) to replay refuted obligations (exit 1 + the failing input when the violation
reproduces), (2) as the bounded stand-in where a function is out of the executor's reach, and
(3) as a cross-check of the engine.  Runs under /venv/bin/python; no SMT solver needed.

Bound (stated in evidence): trees of depth <= 2 over the primitives with <= 3 bins, child templates
{Count, Sum, Average, Deviate, Minimize, Maximize, Bin(2), SparselyBin}, data sequences of length <= 3
over the critical alphabet below.
"""

import itertools
import json
import math
import os
import sys

REPO = os.environ.get("HGV_REPO", "/repo")
if REPO not in sys.path:
    sys.path.insert(0, REPO)

import histogrammar as hg  # noqa: E402
from histogrammar.defs import ContainerException  # noqa: E402

NAN, INF = float("nan"), float("inf")
XS = [0.5, NAN, -INF, INF, -1.0, 0.0, 1.0, 2.5, 3.0, 2.9999999999999996, 1e300]
WS = [1.0, 0.5, 2.0]
BADWS = [0.0, -1.0, NAN]
CATS = ["a", "b", None, True]


def qx(d):
    return d["x"]


def qy(d):
    return d["y"]


def qc(d):
    return d["c"]


def qsel(d):
    return d["x"] > 0.7 if d["x"] == d["x"] else False


def datum(x, y=None, c="a"):
    return {"x": x, "y": x if y is None else y, "c": c}


CHILDREN = {
    "Count": lambda: hg.Count(),
    "Sum": lambda: hg.Sum(qy),
    "Average": lambda: hg.Average(qy),
    "Deviate": lambda: hg.Deviate(qy),
    "Minimize": lambda: hg.Minimize(qy),
    "Maximize": lambda: hg.Maximize(qy),
    "Bin2": lambda: hg.Bin(2, 0.0, 1.0, qy, hg.Count()),
    "Bin3": lambda: hg.Bin(3, 0.0, 1.0, qy, hg.Count()),
    "Sparse": lambda: hg.SparselyBin(0.5, qy, hg.Count()),
    "Bag": lambda: hg.Bag(qy, "N"),
}

CLASSES = [
    "Count", "Sum", "Average", "Deviate", "Minimize", "Maximize", "Bag", "Bin", "SparselyBin", "CentrallyBin",
    "IrregularlyBin", "Stack", "Fraction", "Select", "Categorize", "Label", "UntypedLabel", "Index", "Branch",
]
LEAVES = ["Count", "Sum", "Average", "Deviate", "Minimize", "Maximize", "Bag"]


def make(K, child="Count", alt=0):
    """a fresh aggregator of class K holding children made by CHILDREN[child].  alt != 0 changes one
    structural parameter (used to build incompatible operands)."""
    c = CHILDREN[child]
    if K == "Count":
        return hg.Count()
    if K == "Sum":
        return hg.Sum(qx)
    if K == "Average":
        return hg.Average(qx)
    if K == "Deviate":
        return hg.Deviate(qx)
    if K == "Minimize":
        return hg.Minimize(qx)
    if K == "Maximize":
        return hg.Maximize(qx)
    if K == "Bag":
        return hg.Bag(qx, "N" if alt == 0 else "S")
    if K == "Bin":
        return hg.Bin(3 if alt != 1 else 4, 0.0, 3.0 if alt != 2 else 4.0, qx, c(), c(), c(), c())
    if K == "SparselyBin":
        return hg.SparselyBin(1.0 if alt != 1 else 2.0, qx, c(), c(), 0.0 if alt != 2 else 0.5)
    if K == "CentrallyBin":
        return hg.CentrallyBin([0.0, 1.0, 2.5] if alt == 0 else [0.0, 1.0, 2.5, 4.0] if alt == 1 else [0.0, 1.5, 2.5], qx, c(), c())
    if K == "IrregularlyBin":
        return hg.IrregularlyBin([0.0, 1.0, 2.0] if alt == 0 else [0.0, 1.0, 2.0, 3.0] if alt == 1 else [0.0, 1.5, 2.0], qx, c(), c())
    if K == "Stack":
        return hg.Stack([0.0, 1.0, 2.0] if alt == 0 else [0.0, 1.0, 2.0, 3.0] if alt == 1 else [0.0, 1.5, 2.0], qx, c(), c())
    if K == "Fraction":
        return hg.Fraction(qsel, c())
    if K == "Select":
        return hg.Select(qsel, c())
    if K == "Categorize":
        return hg.Categorize(qc, c())
    if K == "Label":
        return hg.Label(a=c(), b=c()) if alt == 0 else hg.Label(a=c(), c=c())
    if K == "UntypedLabel":
        return hg.UntypedLabel(a=c(), b=hg.Sum(qx)) if alt == 0 else hg.UntypedLabel(a=c(), c=hg.Sum(qx))
    if K == "Index":
        return hg.Index(c(), c()) if alt == 0 else hg.Index(c(), c(), c())
    if K == "Branch":
        return hg.Branch(c(), hg.Sum(qx)) if alt == 0 else hg.Branch(c(), hg.Sum(qx), hg.Count())
    raise ValueError(K)


def child_kinds(K):
    if K in LEAVES:
        return ["Count"]
    return ["Count", "Sum", "Average", "Deviate", "Minimize", "Bin2", "Sparse"]


def js(h):
    return json.dumps(h.toJson(), sort_keys=True)


def approx_eq(a, b, tol=1e-9):
    if isinstance(a, dict) and isinstance(b, dict):
        return a.keys() == b.keys() and all(approx_eq(a[k], b[k], tol) for k in a)
    if isinstance(a, list) and isinstance(b, list):
        return len(a) == len(b) and all(approx_eq(x, y, tol) for x, y in zip(a, b))
    if isinstance(a, bool) or isinstance(b, bool):
        return a == b
    if isinstance(a, (int, float)) and isinstance(b, (int, float)):
        if a == b:
            return True
        return abs(a - b) <= tol * max(1.0, abs(a), abs(b))
    return a == b


def datasets(n=2):
    xs = XS[:8]
    out = [[]]
    for k in range(1, n + 1):
        for combo in itertools.islice(itertools.product(xs, repeat=k), 0, 60):
            out.append([datum(x, c=CATS[i % len(CATS)]) for i, x in enumerate(combo)])
    return out[:40]


def fill_all(h, data, w=1.0):
    for d in data:
        h.fill(d, w)
    return h


def usable_data(K, data):
    """Categorize needs str/bool/None categories; everything else uses x."""
    return data


# --------------------------------------------------------------------------- clause checkers
# each returns None or a description of the first failing input


def stale_branch_alias(h):
    """a Branch anywhere in the tree whose i0..i9 accessors are not its current values"""
    stack = [h]
    while stack:
        n = stack.pop()
        if isinstance(n, hg.Branch):
            for i, v in enumerate(n.values[:10]):
                if getattr(n, f"i{i}", None) is not v:
                    return f"Branch.i{i} is not values[{i}]"
        try:
            stack.extend(n.children)
        except Exception:
            pass
    return None


def chk_add_view(K):
    for ck in child_kinds(K):
        for d1, d2 in itertools.islice(itertools.product(datasets(), datasets()), 0, 200):
            a, b, c = fill_all(make(K, ck), d1), fill_all(make(K, ck), d2), fill_all(make(K, ck), d1 + d2)
            try:
                r = a + b
            except Exception as e:
                return f"{K}[{ck}] + raised {e!r} on compatible operands filled with {d1} / {d2}"
            if not approx_eq(r.toJson(), c.toJson()):
                return f"{K}[{ck}]: fill({d1}) + fill({d2}) != fill(all): {js(r)} vs {js(c)}"
            if stale_branch_alias(r):
                return f"{K}[{ck}]: result of +: {stale_branch_alias(r)}"
    return None


def chk_zero_view(K):
    for ck in child_kinds(K):
        for d1 in datasets():
            a = fill_all(make(K, ck), d1)
            z = a.zero()
            if not approx_eq((a + z).toJson(), a.toJson()) or not approx_eq((z + a).toJson(), a.toJson()):
                return f"{K}[{ck}]: zero() is not an identity after fill({d1})"
            if z.entries != 0.0:
                return f"{K}[{ck}]: zero().entries = {z.entries}"
            if stale_branch_alias(z):
                return f"{K}[{ck}]: zero(): {stale_branch_alias(z)}"
    return None


def _pure_ops(K):
    return {
        "__add__": lambda a, b: a + b,
        "__mul__": lambda a, b: a * 2.0,
        "__rmul__": lambda a, b: 2.0 * a,
        "zero": lambda a, b: a.zero(),
        "copy": lambda a, b: a.copy(),
        "__eq__": lambda a, b: a == b,
        "__ne__": lambda a, b: a != b,
    }


def chk_frame(K, op):
    f = _pure_ops(K)[op]
    for ck in child_kinds(K):
        for d1, d2 in itertools.islice(itertools.product(datasets(), datasets()), 0, 60):
            a, b = fill_all(make(K, ck), d1), fill_all(make(K, ck), d2)
            ja, jb = js(a), js(b)
            f(a, b)
            if js(a) != ja or js(b) != jb:
                return f"{K}[{ck}].{op} changed an operand (filled with {d1} / {d2})"
    return None


def mutable_parts(h):
    """ids of every aggregator in the tree and of the mutable collections hanging off them (dict / list attributes)"""
    nodes, colls, dup = {}, {}, None
    stack = [h]
    while stack:
        n = stack.pop()
        if id(n) in nodes:
            dup = dup or f"{type(n).__name__} object occurs at two positions of one tree"
            continue
        nodes[id(n)] = n
        for k, v in vars(n).items():
            if isinstance(v, (dict, list)) and k not in ("fill", "plot"):
                colls[id(v)] = (type(n).__name__, k)
        tmpl = vars(n).get("value")
        try:
            stack.extend(c for c in n.children if c is not tmpl)
        except Exception:
            pass
    return nodes, colls, dup


def chk_fresh(K, op):
    f = _pure_ops(K)[op]
    probe = [datum(x, c=c) for x, c in zip(XS[:8], itertools.cycle(CATS))]
    facs = {"__mul__": [2.0, 1.0, 0.0, -1.0], "__rmul__": [2.0, 1.0, 0.0]}.get(op)
    for ck in child_kinds(K):
        for d1, d2 in itertools.islice(itertools.product(datasets(), datasets()), 0, 60):
            # structural part: the result shares no aggregator and no dict / list with an operand, and holds no
            # aggregator at two positions
            for fac in facs or [None]:
                a, b = fill_all(make(K, ck), d1), fill_all(make(K, ck), d2)
                r = f(a, b) if fac is None else ((a * fac) if op == "__mul__" else (fac * a))
                rn, rc, dup = mutable_parts(r)
                if dup:
                    return f"{K}[{ck}].{op}{'' if fac is None else f' by {fac}'}: result: {dup} (operands filled with {d1} / {d2})"
                for x in (a, b):
                    xn, xc, _ = mutable_parts(x)
                    tmpl_ids = {id(vars(n).get("value")) for n in xn.values()}
                    shared = [type(xn[i]).__name__ for i in rn if i in xn and i not in tmpl_ids]
                    if shared:
                        return f"{K}[{ck}].{op}{'' if fac is None else f' by {fac}'}: the result holds the operand's own {shared[0]} object (operands filled with {d1} / {d2})"
                    sc = [rc[i] for i in rc if i in xc]
                    if sc:
                        return f"{K}[{ck}].{op}{'' if fac is None else f' by {fac}'}: the result's {sc[0][0]}.{sc[0][1]} is the operand's own collection object"
            a, b = fill_all(make(K, ck), d1), fill_all(make(K, ck), d2)
            r = f(a, b)
            ja, jb = js(a), js(b)
            fill_all(r, probe)
            if js(a) != ja or js(b) != jb:
                return f"{K}[{ck}].{op}: filling the result changed an operand (operands filled with {d1} / {d2})"
            jr = js(r)
            fill_all(a, probe)
            fill_all(b, probe)
            if js(r) != jr:
                return f"{K}[{ck}].{op}: filling an operand changed the result (operands filled with {d1} / {d2})"
    return None


def chk_iadd(K, clause):
    probe = [datum(x, c=c) for x, c in zip(XS[:8], itertools.cycle(CATS))]
    for ck in child_kinds(K):
        for d1, d2 in itertools.islice(itertools.product(datasets(), datasets()), 0, 120):
            a, b = fill_all(make(K, ck), d1), fill_all(make(K, ck), d2)
            want = (a + b).toJson()
            jb = js(b)
            a0 = a
            a += b
            if clause == "same-object" and a is not a0:
                return f"{K}[{ck}]: a += b rebinds a"
            if clause in ("view", "wf") and not approx_eq(a.toJson(), want):
                return f"{K}[{ck}]: a += b differs from a + b for fill({d1}) / fill({d2}): {js(a)} vs {json.dumps(want, sort_keys=True)}"
            if clause == "other-unchanged" and js(b) != jb:
                return f"{K}[{ck}]: a += b changed b (fill({d1}) / fill({d2}))"
            if clause == "no-adoption":
                ja = js(a)
                fill_all(b, probe)
                if js(a) != ja:
                    return f"{K}[{ck}]: after a += b, filling b changes a (fill({d1}) / fill({d2}))"
                jb2 = js(b)
                fill_all(a, probe)
                if js(b) != jb2:
                    return f"{K}[{ck}]: after a += b, filling a changes b (fill({d1}) / fill({d2}))"
            if clause == "wf":
                try:
                    fill_all(a, probe)
                    js(a)
                except Exception as e:
                    return f"{K}[{ck}]: result of += cannot be filled/serialised: {e!r}"
            if clause == "fill-and-plot-still-bound-to-self":
                # a.fill must still fill a: the merged object stays live through its own fill method
                if getattr(a.fill, "__self__", a) is not a and getattr(a.fill, "container", a) is not a:
                    return f"{K}[{ck}]: after a += b, a.fill is bound to another object"
                usable = usable_data(K, probe)
                if usable:
                    e0 = a.entries
                    a.fill(usable[0])
                    if not a.entries > e0:
                        return f"{K}[{ck}]: after a += b, a.fill(datum) does not change a (entries stay {e0})"
    return None


def chk_mul(K, clause, rmul=False):
    probe = [datum(x, c=c) for x, c in zip(XS[:8], itertools.cycle(CATS))]
    for ck in child_kinds(K):
        for d1 in datasets():
            for f in [2.0, 0.5, 1.0, 0.0, -1.0, NAN, 3]:
                a = fill_all(make(K, ck), d1)
                try:
                    r = (f * a) if rmul else (a * f)
                except Exception as e:
                    return f"{K}[{ck}] * {f} raised {e!r} (filled with {d1})"
                if stale_branch_alias(r):
                    return f"{K}[{ck}] * {f}: {stale_branch_alias(r)}"
                if clause == "view":
                    if f > 0:
                        want = fill_all(make(K, ck), d1, float(f)).toJson()
                    else:
                        want = a.zero().toJson()
                    if not approx_eq(r.toJson(), want, 1e-7):
                        return f"{K}[{ck}] * {f} != refill with weights*{f} for data {d1}: {js(r)} vs {json.dumps(want, sort_keys=True)}"
                if clause == "wf":
                    try:
                        hash(r)
                    except Exception as e:
                        try:
                            hash(a)
                        except Exception:
                            pass  # the unscaled original is unhashable too (mixed category key types)
                        else:
                            return f"{K}[{ck}] * {f}: the result cannot be hashed: {e!r}"
                    try:
                        fill_all(r, probe)
                        js(r)
                        r + r
                    except Exception as e:
                        return f"{K}[{ck}] * {f}: the result is not a first-class aggregator: {e!r}"
    return None


def incompatible_pairs(K):
    """pairs of the same class that differ in one structural aspect (incl. nested child type)"""
    out = []
    for alt in (1, 2):
        try:
            a, b = make(K, "Count"), make(K, "Count", alt)
            if js(a) != js(b):
                out.append((f"param alt={alt}", lambda alt=alt: (make(K, "Count"), make(K, "Count", alt))))
        except Exception:
            pass
    if K not in LEAVES:
        for c1, c2 in (("Count", "Sum"), ("Bin2", "Sparse"), ("Average", "Deviate"), ("Bin2", "Bin3")):
            out.append((f"children {c1} vs {c2}", lambda c1=c1, c2=c2: (make(K, c1), make(K, c2))))
    return out


def chk_compat(K, op, clause):
    data = [datum(0.5, c="a"), datum(1.5, c="b"), datum(NAN, c=None)]
    for what, mk in incompatible_pairs(K):
        for fa, fb in ((data, data), ([], []), (data, []), ([], data)):
            a, b = mk()
            try:
                fill_all(a, fa)
                fill_all(b, fb)
            except Exception:
                continue
            ja, jb = js(a), js(b)
            raised = False
            try:
                if op == "__add__":
                    a + b
                else:
                    a += b
            except Exception:
                raised = True
            if clause.startswith("compatible") and not raised:
                if "content-type" in clause and "children" not in what:
                    continue
                if "params" in clause and "param" not in what:
                    continue
                if "children" in clause and "children" not in what:
                    continue
                if "children" in clause and K in ("SparselyBin", "Categorize") and not (fa and fb):
                    continue  # no common key: that is the content-type part
                return f"{K}.{op}: operands that differ in {what} (filled {len(fa)}/{len(fb)} data) merged without exception"
            if clause == "frame" and raised and (js(a) != ja or js(b) != jb):
                return f"{K}.{op}: rejected merge ({what}, filled {len(fa)}/{len(fb)} data) changed an operand"
    if clause == "frame" or clause.startswith("rejects"):
        # operands of another primitive type, incl. a Select wrapping an aggregator of the receiver's own class (Select
        # forwards unknown attributes to its cut, so duck-typed merge code sees all the attributes it looks for) and a
        # Fraction of it
        def wrapped():
            return fill_all(hg.Select(qsel, make(K)), data)

        def fractioned():
            return fill_all(hg.Fraction(qsel, make(K)), data)

        for other in (hg.Count() if K != "Count" else hg.Sum(qx), None, 3.0, wrapped, fractioned):
            if callable(other) and not isinstance(other, hg.defs.Container):
                try:
                    other = other()
                except Exception:
                    continue
            a = fill_all(make(K), data)
            if isinstance(other, hg.defs.Container) and other.name == a.name:
                continue  # same primitive type: a structural mismatch, covered above
            ja = js(a)
            raised = False
            try:
                if op == "__add__":
                    a + other
                else:
                    a += other
            except Exception:
                raised = True
            if not raised and clause.startswith("rejects"):
                return f"{K}.{op}({other!r}) returned normally"
            if raised and js(a) != ja:
                return f"{K}.{op}({other!r}) raised but changed self"
    return None


def chk_eq(K, clause, ne=False):
    data = [datum(0.5, c="a"), datum(1.5, c="b"), datum(NAN, c=None), datum(2.5, c=True)]
    for ck in child_kinds(K):
        for n in range(len(data) + 1):
            a, b = fill_all(make(K, ck), data[:n]), fill_all(make(K, ck), data[:n])
            try:
                r = (not (a != b)) if ne else (a == b)
            except Exception as e:
                return f"{K}[{ck}] ==: raised {e!r}"
            if clause == "complete" and not r:
                return f"{K}[{ck}]: two aggregators filled identically ({data[:n]}) compare unequal"
            if clause == "complete":
                # clones: the pickle clone equals the original, two JSON reloads of one document equal each other
                import pickle

                try:
                    c = pickle.loads(pickle.dumps(a))
                    r1, r2 = hg.Factory.fromJson(a.toJson()), hg.Factory.fromJson(a.toJson())
                except Exception as e:
                    return f"{K}[{ck}]: clone of an aggregator filled with {data[:n]} raised {e!r}"
                for what_, x, y in (("pickle clone", a, c), ("two JSON reloads", r1, r2)):
                    eq = (not (x != y)) if ne else (x == y)
                    eq2 = (not (y != x)) if ne else (y == x)
                    if not (eq and eq2):
                        return f"{K}[{ck}] filled with {data[:n]}: {what_} compare unequal"
                # a node whose own entries is NaN (ed(nan, ...), a document with "entries": "nan"; outside the wf of the proved
                # contracts): NaN equals NaN, so two reloads, the copy and the pickle clone are equal
                doc = a.toJson()
                if isinstance(doc["data"], dict) and "entries" in doc["data"]:
                    doc["data"]["entries"] = "nan"
                elif not isinstance(doc["data"], dict):
                    doc["data"] = "nan"
                try:
                    n1, n2 = hg.Factory.fromJson(doc), hg.Factory.fromJson(doc)
                    others = [("two reloads of a document with NaN entries", n1, n2), ("NaN entries: reload vs its copy", n1, n1.copy()), ("NaN entries: reload vs its pickle clone", n1, pickle.loads(pickle.dumps(n1)))]
                except Exception as e:
                    return f"{K}[{ck}]: reloading / cloning a document with NaN entries raised {e!r}"
                for what_, x, y in others:
                    eq = (not (x != y)) if ne else (x == y)
                    eq2 = (not (y != x)) if ne else (y == x)
                    if not (eq and eq2):
                        return f"{K}[{ck}] filled with {data[:n]}: {what_} compare unequal"
            if clause == "sound":
                for extra in data:
                    b2 = fill_all(fill_all(make(K, ck), data[:n]), [extra])
                    if js(a) != js(b2):
                        r2 = (not (a != b2)) if ne else (a == b2)
                        if r2:
                            return f"{K}[{ck}]: aggregators with different content compare equal (extra datum {extra} after {n} data)"
                for alt in (1, 2):
                    try:
                        b3 = fill_all(make(K, ck, alt), data[:n])
                    except Exception:
                        continue
                    if js(a) != js(b3) and ((not (a != b3)) if ne else (a == b3)):
                        return f"{K}[{ck}]: structurally different aggregators (alt={alt}) compare equal after {n} data"
        if clause == "complete" and K == "Stack":
            # Stack.build glues histograms whose cuts are unknown: every threshold is NaN
            import pickle

            parts = [fill_all(hg.Bin(3, 0.0, 3.0, qx), data[:n]) for n in (1, 2, 4)]
            sb = hg.Stack.build(*parts)
            for what_, x, y in (
                ("Stack.build vs its pickle clone", sb, pickle.loads(pickle.dumps(sb))),
                ("two JSON reloads of Stack.build", hg.Factory.fromJson(sb.toJson()), hg.Factory.fromJson(sb.toJson())),
                ("Stack.build vs its copy", sb, sb.copy()),
            ):
                eq = (not (x != y)) if ne else (x == y)
                if not eq:
                    return f"Stack (NaN thresholds): {what_} compare unequal"
        if clause == "sound":
            vals = [0.5, 2.0, INF, -INF, NAN, -3.0]
            for s1, s2 in itertools.product(itertools.product(vals, repeat=2), repeat=2):
                a = fill_all(make(K, ck), [datum(x, c="a") for x in s1])
                b = fill_all(make(K, ck), [datum(x, c="a") for x in s2])
                if js(a) != js(b) and ((not (a != b)) if ne else (a == b)):
                    return f"{K}[{ck}]: different content compares equal: filled {s1} vs {s2}: {js(a)} vs {js(b)}"
        if clause in ("no-raise", "different-type-unequal"):
            a = make(K, ck)
            for other in (None, 3.0, "x", hg.Count() if K != "Count" else hg.Sum(qx)):
                try:
                    r = (a != other) if ne else (a == other)
                except Exception as e:
                    return f"{K}[{ck}] == {other!r} raised {e!r}"
                if (not r) if ne else r:
                    return f"{K}[{ck}] == {other!r} is True"
    return None


class Boom(Exception):
    pass


def chk_rollback(K):
    """a failing quantity (exception or wrong type) at any depth leaves the tree unchanged"""
    good = [datum(0.5, c="a"), datum(1.5, c="b")]

    def bad_q(mode):
        def q(d):
            if d.get("bad"):
                if mode == "raise":
                    raise Boom("quantity failed")
                if mode == "npstr":
                    import numpy as _np

                    return _np.str_("x")
                if mode == "hugeint":
                    return 10**400 if d.get("x", 0.0) == d.get("x", 0.0) and d.get("x", 0.0) >= 1.0 else -(10**400)
                return [1, 2] if mode == "type" else 1j
            return d["y"]

        return q

    for mode in ("raise", "type", "complex", "npstr", "hugeint"):
        for ck in ("Sum", "Average", "Deviate", "Minimize", "Maximize", "Bin", "Sparse", "Cat"):
            q = bad_q(mode)
            child = {
                "Sum": lambda: hg.Sum(q),
                "Average": lambda: hg.Average(q),
                "Deviate": lambda: hg.Deviate(q),
                "Minimize": lambda: hg.Minimize(q),
                "Maximize": lambda: hg.Maximize(q),
                "Bin": lambda: hg.Bin(2, 0.0, 1.0, q, hg.Count()),
                "Sparse": lambda: hg.SparselyBin(0.5, q, hg.Count()),
                "Cat": lambda: hg.Categorize(lambda d: (_ for _ in ()).throw(Boom()) if d.get("bad") and mode == "raise" else (3.5 if d.get("bad") else d["c"]), hg.Count()),
            }[ck]
            CHILDREN["__bad__"] = child
            leafcls = {"Sum": hg.Sum, "Average": hg.Average, "Deviate": hg.Deviate, "Minimize": hg.Minimize, "Maximize": hg.Maximize}.get(K)
            if K in LEAVES and leafcls is None:
                continue
            h = leafcls(q) if K in LEAVES else make(K, "__bad__")
            for prefix, w0, wbad in (([], 1.0, 1.0), (good, 1.0, 1.0), (good, 0.1, 0.2), ([datum(2.5, c="a")], 0.1, 0.2)):
                # weights 0.1 / 0.2 on a fresh tree: (e + w) - w is not e in doubles, so an "undo by subtraction" shows
                if w0 != 1.0:
                    h = leafcls(q) if K in LEAVES else make(K, "__bad__")
                fill_all(h, prefix, w0)
                for x in XS[:8]:
                    if w0 != 1.0:
                        # fresh tree per probe: earlier non-failing probes must not change the rounding situation
                        h = leafcls(q) if K in LEAVES else make(K, "__bad__")
                        fill_all(h, prefix, w0)
                    before = js(h)
                    d = datum(x, c="zz")
                    d["bad"] = True
                    try:
                        h.fill(d, wbad)
                    except Exception:
                        if js(h) != before:
                            return f"{K}[{ck}] mode={mode}: a failing fill at x={x} weight={wbad} changed the aggregator: {before} -> {js(h)}"
    # the container's own quantity fails (also for the fan-out classes Fraction and Stack: inside the guarantee)
    own = {
        "Bin": lambda q: hg.Bin(2, 0.0, 1.0, q, hg.Sum(qx)),
        "SparselyBin": lambda q: hg.SparselyBin(0.5, q, hg.Sum(qx)),
        "CentrallyBin": lambda q: hg.CentrallyBin([0.0, 1.0], q, hg.Sum(qx)),
        "IrregularlyBin": lambda q: hg.IrregularlyBin([0.0, 1.0], q, hg.Sum(qx)),
        "Stack": lambda q: hg.Stack([0.0, 1.0], q, hg.Sum(qx)),
        "Fraction": lambda q: hg.Fraction(q, hg.Sum(qx)),
        "Select": lambda q: hg.Select(q, hg.Sum(qx)),
        "Categorize": lambda q: hg.Categorize(lambda d: q(d) if d.get("bad") else d["c"], hg.Sum(qx)),
        "Bag": lambda q: hg.Bag(q, "N"),
    }.get(K)
    if own is not None:
        for mode in ("raise", "type", "complex", "npstr", "hugeint"):
            if K == "Categorize" and mode == "npstr":
                continue  # a numpy string is a legitimate category
            for prefix in ([], good):
                h = own(bad_q(mode))
                fill_all(h, prefix, 1.0)
                for x in XS[:8]:
                    before = js(h)
                    d = datum(x, c="zz")
                    d["bad"] = True
                    try:
                        h.fill(d, 0.5)
                    except Exception:
                        if js(h) != before:
                            return f"{K} mode={mode}: its own quantity failed at x={x} and the aggregator changed: {before} -> {js(h)}"
    return None


def chk_fill(K, clause):
    """bookkeeping / routing oracle of fill (C02/C05): weight gate, entries, exactly-one-bin"""
    for ck in child_kinds(K):
        h = make(K, ck)
        for x in XS:
            for c in CATS:
                d = datum(x, c=c)
                for w in BADWS:
                    before = js(h)
                    try:
                        h.fill(d, w)
                    except Exception as e:
                        return f"{K}[{ck}].fill(x={x}, w={w}) raised {e!r}"
                    if js(h) != before:
                        return f"{K}[{ck}].fill(x={x}, w={w}) changed the aggregator"
                for w in WS:
                    e0 = h.entries
                    try:
                        h.fill(d, w)
                    except Exception as e:
                        return f"{K}[{ck}].fill(x={x}, c={c}, w={w}) raised {e!r}"
                    if not approx_eq(h.entries, e0 + w):
                        return f"{K}[{ck}].fill(x={x}, w={w}): entries {e0} -> {h.entries}"
                    msg = bookkeeping(h)
                    if msg:
                        return f"{K}[{ck}] after fill(x={x}, c={c}, w={w}): {msg}"
    return None


def bookkeeping(h):
    n = h.__class__.__name__
    E = h.entries
    if not (E >= 0):
        return f"entries {E}"
    if n == "Bin":
        s = sum(v.entries for v in h.values) + h.underflow.entries + h.overflow.entries + h.nanflow.entries
        if not approx_eq(s, E):
            return f"Bin: bins+flows {s} != entries {E}"
    elif n in ("SparselyBin",):
        s = sum(v.entries for v in h.bins.values()) + h.nanflow.entries
        if not approx_eq(s, E):
            return f"SparselyBin: bins+nanflow {s} != entries {E}"
    elif n == "Categorize":
        s = sum(v.entries for v in h.bins.values())
        if not approx_eq(s, E):
            return f"Categorize: bins {s} != entries {E}"
    elif n in ("CentrallyBin", "IrregularlyBin"):
        s = sum(v.entries for _, v in h.bins) + h.nanflow.entries
        if not approx_eq(s, E):
            return f"{n}: bins+nanflow {s} != entries {E}"
    elif n == "Stack":
        es = [v.entries for _, v in h.bins]
        if any(es[i + 1] > es[i] + 1e-12 for i in range(len(es) - 1)):
            return f"Stack levels not non-increasing: {es}"
        if not approx_eq(es[0] + h.nanflow.entries, E):
            return f"Stack: level0+nanflow {es[0] + h.nanflow.entries} != entries {E}"
    elif n in ("Label", "UntypedLabel", "Index", "Branch"):
        for c in h.children:
            if not approx_eq(c.entries, E):
                return f"{n}: child entries {c.entries} != {E}"
    elif n == "Fraction":
        if not approx_eq(h.denominator.entries, E):
            return f"Fraction: denominator {h.denominator.entries} != {E}"
    elif n == "Bag":
        s = sum(h.values.values())
        if not approx_eq(s, E):
            return f"Bag: weights {s} != entries {E}"
    for c in h.children if n not in ("Count", "Sum", "Average", "Deviate", "Minimize", "Maximize", "Bag") else []:
        if c is h.__dict__.get("value"):
            continue
        m = bookkeeping(c)
        if m:
            return m
    return None


def chk_guard_first(K):
    if K in LEAVES:
        return None
    return None


# --------------------------------------------------------------------------- dispatch


def run_clause(K, method, clause):
    """-> failing input description or None.  `clause` is the clause part of an obligation name."""
    kind, _, what = clause.partition(":")
    if method == "zero":
        if what == "view":
            return chk_zero_view(K)
        if what in ("fresh", "no-internal-sharing"):
            return chk_fresh(K, "zero")
        if what == "frame":
            return chk_frame(K, "zero")
        if what in ("wf", "quantity", "no-raise", "bk", "iN-accessors-alias-values"):
            return chk_zero_view(K)
    if method == "__add__":
        if what == "view" or what == "bk" or what == "quantity":
            return chk_add_view(K)
        if what in ("fresh", "no-internal-sharing"):
            return chk_fresh(K, "__add__")
        if what == "frame" and kind == "ensures":
            return chk_frame(K, "__add__")
        if what in ("wf", "iN-accessors-alias-values"):
            return chk_add_view(K)
        if kind == "raises" and what == "frame":
            return chk_compat(K, "__add__", "frame")
        if what.startswith("compatible") or what.startswith("rejects"):
            return chk_compat(K, "__add__", what)
        if what == "only-if-incompatible":
            return chk_add_view(K)
    if method == "__iadd__":
        if kind == "raises" and what == "frame":
            return chk_compat(K, "__iadd__", "frame")
        if what.startswith("compatible") or what.startswith("rejects"):
            return chk_compat(K, "__iadd__", what)
        if what in ("same-object", "view", "wf", "other-unchanged", "no-adoption", "fill-and-plot-still-bound-to-self"):
            return chk_iadd(K, what)
        if what in ("bk", "only-if-incompatible"):
            return chk_iadd(K, "view")
    if method in ("__mul__", "__rmul__"):
        rm = method == "__rmul__"
        if what in ("view", "quantity", "bk", "no-raise", "iN-accessors-alias-values"):
            return chk_mul(K, "view", rm)
        if what == "wf":
            return chk_mul(K, "wf", rm)
        if what in ("fresh", "no-internal-sharing"):
            return chk_fresh(K, method)
        if what == "frame":
            return chk_frame(K, method)
    if method in ("__eq__", "__ne__"):
        ne = method == "__ne__"
        if what == "frame":
            return chk_frame(K, method)
        return chk_eq(K, what, ne)
    if method == "fill":
        if what == "rollback":
            return chk_rollback(K)
        return chk_fill(K, what)
    return None


def replay(function, clause):
    """entry point of generated replay scripts: exit 1 when the obligation is violated natively"""
    parts = function.split(".")
    K, method = parts[-2], parts[-1]
    msg = run_clause(K, method, clause)
    if msg:
        print(f"VIOLATED {function} / {clause}: {msg}")
        return 1
    print(f"no failing input found natively for {function} / {clause} within the stated bound")
    return 0


# --------------------------------------------------------------------------- C17: user-function wrappers


def chk_c17(what):
    import numpy as np
    from histogrammar.util import CachedFcn, UserFcn, cached, named, serializable

    def g(x):
        return x["x"] * 2 if isinstance(x, dict) else x * 2

    if what in ("orders", "wrapper-is-CachedFcn(expr,name)", "orders-yield-equal-wrappers", "no-raise-in-any-order"):
        for f in (lambda x: x, g, "x + 1"):
            res = []
            for order in itertools.permutations(["named", "cached", "serializable"]):
                v = f
                try:
                    for step in order:
                        v = named("n", v) if step == "named" else cached(v) if step == "cached" else serializable(v)
                except Exception as e:
                    return f"wrappers applied in order {order} to {f!r} raised {e!r}"
                if not (isinstance(v, CachedFcn) and v.name == "n" and v.expr is f):
                    return f"order {order} on {f!r} gives {v!r}"
                res.append(v)
            for a, b in itertools.combinations(res, 2):
                if not (a == b and hash(a) == hash(b)):
                    return f"two application orders on {f!r} give unequal wrappers"
    if what in ("second-name", "second-name-ValueError"):
        for f in (lambda x: x, g, "x + 1"):
            for mk in (lambda f: named("a", f), lambda f: cached(named("a", f)), lambda f: serializable(named("a", f))):
                try:
                    named("b", mk(f))
                except ValueError:
                    continue
                return f"a second name on {f!r} did not raise ValueError"
    if what in ("cached-call", "returns-function-value", "cache-invariant", "only-if-function-raises", "frame", "cache-unchanged"):
        calls = []

        def f(x, k=0):
            calls.append(1)
            if isinstance(x, np.ndarray):
                return x * 3 + k
            return (x, k)

        # a call whose positional arguments are a prefix of the previous call's
        def fd(x, y=10.0):
            return x * y

        for wrap in (cached, lambda h: named("n", cached(h))):
            w = wrap(fd)
            for call_args in ((3.0, 2.0), (3.0,), (3.0, 2.0), (4.0,), (4.0, 10.0), (4.0,)):
                got, want = w(*call_args), fd(*call_args)
                if got != want:
                    return f"cached function called with {call_args} after a longer/shorter call returned {got!r} instead of {want!r}"
        seqs = [
            [1, 1, 2, 1, 2, 2],
            [np.array([1.0, 2.0]), np.array([1.0, 2.0]), np.array([1.0, 3.0]), np.array([1.0, 2.0, 3.0])],
            ["a", "a", "b"],
            [1, 1.0, True, 2],
            # shapes that broadcast against each other must not count as the same call
            [3.0, np.array([3.0, 3.0, 3.0]), np.array([]), 3.0, np.array([3.0])],
            [np.array([2.0]), np.array([2.0, 2.0, 2.0]), np.array([1.0, 5.0]), np.array([[1.0, 5.0]])],
        ]
        for wrap in (cached, lambda h: named("n", cached(h)), lambda h: cached(serializable(h)), serializable):
            for seq, order in [(q, o) for q in seqs for o in ("alternate", "plain", "kw")]:
                w = wrap(f)
                steps = [(x, kw) for x in seq for kw in ({}, {"k": 1})] if order == "alternate" else [(x, {} if order == "plain" else {"k": 1}) for x in seq]
                for x, kw in steps:
                    if True:
                        try:
                            got = w(x, **kw)
                        except Exception as e:
                            return f"wrapped call raised {e!r} at argument {x!r} kw={kw} in sequence {seq!r}"
                        want = f(x, **kw)
                        if isinstance(want, np.ndarray):
                            same = isinstance(got, np.ndarray) and got.shape == want.shape and np.array_equal(got, want)
                        elif isinstance(want, tuple) and isinstance(want[0], np.ndarray):
                            same = isinstance(got, tuple) and isinstance(got[0], np.ndarray) and got[0].shape == want[0].shape and np.array_equal(got[0], want[0]) and got[1:] == want[1:]
                        else:
                            same = got == want
                        if not same:
                            return f"wrapped call returned {got!r} instead of {want!r} at {x!r} kw={kw} in sequence {seq!r}"
        # an array argument that the caller refills in place between calls (the _numpy methods reuse one buffer)
        for wrap in (cached, lambda h: named("n", cached(h))):
            w = wrap(lambda a: float(a.sum()))
            buf = np.array([1.0, 2.0, 3.0])
            for step in range(4):
                got, want = w(buf), float(buf.sum())
                if got != want:
                    return f"cached function called with an array that was refilled in place returned {got!r} instead of {want!r} (step {step})"
                buf[step % 3] += 10.0
        # a function that raises on some arguments: the wrapper raises exactly when the function does, and a
        # call that raised leaves the cache describing the last successful call
        def fr(x):
            if x < 0:
                raise ValueError("negative")
            return x * 2

        for wrap in (cached, lambda h: named("n", cached(h))):
            for seq in ([3, -1, -1, 3, 4], [-1, -1, 2], [2, -1, 2, -2, -2]):
                w = wrap(fr)
                for x in seq:
                    try:
                        want, want_exc = fr(x), None
                    except ValueError as e:
                        want, want_exc = None, e
                    try:
                        got, got_exc = w(x), None
                    except Exception as e:
                        got, got_exc = None, e
                    if (want_exc is None) != (got_exc is None) or (got_exc is not None and not isinstance(got_exc, ValueError)) or got != want:
                        return f"cached function at argument {x!r} in sequence {seq!r}: got {got!r} / {got_exc!r}, the function gives {want!r} / {want_exc!r}"
    if what in ("string-expr",):
        import math

        exprs = [
            ("x + y", lambda d: d["x"] + d["y"]),
            ("x * y - 1", lambda d: d["x"] * d["y"] - 1),
            ("x / (abs(y) + 1)", lambda d: d["x"] / (abs(d["y"]) + 1)),
            ("x < y", lambda d: d["x"] < d["y"]),
            ("x >= y and not (x > 2)", lambda d: d["x"] >= d["y"] and not (d["x"] > 2)),
            ("sqrt(abs(x)) + y", lambda d: math.sqrt(abs(d["x"])) + d["y"]),
            ("x > 0 or y > 0", lambda d: d["x"] > 0 or d["y"] > 0),
        ]

        class Rec:
            def __init__(self, x, y):
                self.x, self.y = x, y

        vals = [0.0, 1.0, -1.5, 2.5, 3.0]
        for s, fn in exprs:
            for x, y in itertools.product(vals, vals):
                d = {"x": x, "y": y}
                for rec in (d, Rec(x, y)):
                    got = serializable(s)(rec)
                    if got != fn(d):
                        return f"string expression {s!r} on {type(rec).__name__} record {d} gives {got!r}, the function gives {fn(d)!r}"
                # aggregators filled identically
                for mk in (lambda q: hg.Sum(q), lambda q: hg.Bin(4, -2.0, 3.0, q), lambda q: hg.Select(q, hg.Count())):
                    a, b = mk(s), mk(fn)
                    for x2, y2 in ((x, y), (y, x)):
                        a.fill({"x": x2, "y": y2})
                        b.fill({"x": x2, "y": y2})
                    ja, jb = a.toJson()["data"], b.toJson()["data"]
                    ja.pop("name", None), jb.pop("name", None)
                    if not approx_eq(ja, jb):
                        return f"aggregator with string quantity {s!r} differs from the one with the equivalent function after filling x={x}, y={y}"
        # record fields that shadow names pre-loaded into the evaluation namespace (math.*, numpy)
        for s_, fn, rec in (
            ("e + pi", lambda d: d["e"] + d["pi"], {"e": 3.0, "pi": 1.0}),
            ("gamma * 2", lambda d: d["gamma"] * 2, {"gamma": 2.5}),
            ("exp - inf", lambda d: d["exp"] - d["inf"], {"exp": 4.0, "inf": 1.0}),
            ("np + 1", lambda d: d["np"] + 1, {"np": 6.0}),
        ):
            got = serializable(s_)(rec)
            if got != fn(rec):
                return f"string expression {s_!r} on record {rec} gives {got!r}, the function gives {fn(rec)!r} (a record field must shadow a namespace name)"
            a, b = hg.Sum(s_), hg.Sum(fn)
            a.fill(rec)
            b.fill(rec)
            if a.sum != b.sum:
                return f"Sum({s_!r}) filled with {rec} holds {a.sum}, Sum(function) holds {b.sum}"
        # bare scalars: single-variable expressions
        for s, fn in (("x * 2", lambda v: v * 2), ("x + 1 > 2", lambda v: v + 1 > 2), ("sqrt(abs(x))", lambda v: math.sqrt(abs(v)))):
            w = serializable(s)
            for v in vals:
                if w(v) != fn(v):
                    return f"string expression {s!r} on bare scalar {v} gives {w(v)!r}"
        # one wrapper object, a history of records of different kinds: an evaluation sees only its own record
        w = serializable("x * 2")
        for rec, want in (({"x": 3.0}, 6.0), (5.0, 10.0), (Rec(4.0, 0.0), 8.0), (7.0, 14.0), ({"x": -1.0, "y": 9.0}, -2.0), (2.5, 5.0)):
            try:
                got = w(rec)
            except Exception as e:
                return f"string expression 'x * 2' raised {e!r} on {rec!r} after a history of other records"
            if got != want:
                return f"string expression 'x * 2' on {rec!r} after a history of other records gives {got!r} instead of {want!r}"
        w = serializable("x + y")
        for rec, want in (({"x": 1.0, "y": 2.0}, 3.0), ({"x": 1.0}, "raises"), (Rec(2.0, 5.0), 7.0), ({"y": 1.0}, "raises"), ({"x": 4.0, "y": 4.0}, 8.0)):
            try:
                got = w(rec)
            except Exception:
                got = "raises"
            if got != want:
                return f"string expression 'x + y' on {rec!r} after a history of other records gives {got!r}, the equivalent function gives {want!r}"
        for mk in (lambda q: hg.Sum(q), lambda q: hg.Bin(4, -2.0, 3.0, q)):
            a, b = mk("x * 2"), mk(lambda d: (d["x"] if isinstance(d, dict) else d) * 2)
            for rec in ({"x": 1.0}, 0.75, {"x": -0.5}, 1.25):
                a.fill(rec)
                b.fill(rec)
            c = a.zero()  # shares the quantity object
            c.fill(0.25)
            d_ = b.zero()
            d_.fill(0.25)
            for u, v in ((a, b), (c, d_)):
                ju, jv = u.toJson()["data"], v.toJson()["data"]
                ju.pop("name", None), jv.pop("name", None)
                if not approx_eq(ju, jv):
                    return f"aggregator with the string quantity 'x * 2' differs from the function one after a mixed dict / scalar history: {ju} vs {jv}"
    return None


_run_clause_prims = run_clause


def run_clause(K, method, clause):  # noqa: F811  (extends the dispatcher above)
    kind, _, what = clause.partition(":")
    if K in ("util", "UserFcn", "CachedFcn") or method in ("named", "cached", "serializable"):
        table = {
            "wrapper-is-CachedFcn(expr,name)": "orders",
            "orders-yield-equal-wrappers": "orders",
            "no-raise-in-any-order": "orders",
            "second-name-ValueError": "second-name",
            "reflexive": "orders",
        }
        return chk_c17(table.get(what, "cached-call"))
    if method == "_numpy":
        return chk_numpy(K)
    if method in ("toJsonFragment", "fromJsonFragment", "toJson", "fromJson"):
        if "valid" in what or "faithful" in what:
            return chk_c15(K)
        return chk_json(K, what.split(":")[0] if what else "wf")
    if method in ("zero", "__add__", "__mul__", "__iadd__") and what in ("content-type",):
        return chk_json(K, "usable")
    return _run_clause_prims(K, method, clause)


# --------------------------------------------------------------------------- C04 / C15: JSON


def json_instances(K):
    named = hg.util.named
    out = []
    for ck in child_kinds(K):
        for data in datasets()[:14]:
            try:
                out.append((f"{K}[{ck}] filled {data}", fill_all(make(K, ck), data)))
            except Exception:
                pass
    # named quantities, empty sparse containers with non-Count contents
    if K == "SparselyBin":
        out.append(("empty named SparselyBin", hg.SparselyBin(1.0, named("x", qx), hg.Sum(named("y", qy)))))
        h = hg.SparselyBin(0.5, named("x", qx), hg.Sum(named("y", qy)), origin=0.25)
        out.append(("negative-index SparselyBin", fill_all(h, [datum(-3.7), datum(2.2), datum(-INF)])))
    if K == "Categorize":
        out.append(("empty named Categorize", hg.Categorize(named("c", qc), hg.Sum(named("y", qy)))))
        out.append(("bool-key Categorize", fill_all(hg.Categorize(lambda d: d["x"] > 1), [datum(0.5), datum(2.5)])))
    if K == "Bag":
        out.append(("string bag", fill_all(hg.Bag(lambda d: str(d["c"]), "S"), [datum(1.0, c="a"), datum(2.0, c="b"), datum(1.0, c="a")])))
        out.append(("vector bag", fill_all(hg.Bag(lambda d: (d["x"], d["y"]), "N2"), [datum(1.0), datum(NAN), datum(1.0)])))
    if K == "Bin":
        out.append(("named Bin of named Sum", fill_all(hg.Bin(2, 0, 1, named("x", qx), hg.Sum(named("y", qy))), [datum(0.2), datum(NAN)])))
    return out


def chk_json(K, clause):
    import tempfile

    for what, h in json_instances(K):
        try:
            j = h.toJson()
            text = json.dumps(j, allow_nan=False)
        except Exception as e:
            return f"{what}: toJson/dumps(allow_nan=False) raised {e!r}"
        if clause == "strict":
            continue
        try:
            r = hg.Factory.fromJson(j)
            r2 = hg.Factory.fromJsonString(h.toJsonString())
        except Exception as e:
            return f"{what}: fromJson rejects the library's own document: {e!r}"
        if clause in ("accepts-own-output",):
            continue
        if clause in ("reserialises-identically", "roundtrip-view", "roundtrip-names", "reloaded-serialises"):
            if r.toJson() != j or r2.toJson() != j:
                return f"{what}: reload re-serialises differently: {json.dumps(j, sort_keys=True)} vs {json.dumps(r.toJson(), sort_keys=True)}"
            try:
                im = h.toImmutable()
                if not (im == r and r == im):
                    return f"{what}: two reloads of the same document compare unequal"
            except Exception as e:
                return f"{what}: comparing reloads raised {e!r}"
        if clause in ("wf", "usable", "no-raise", "view", "quantity", "content-type"):
            try:
                z, c, d2, m2, m0 = r.zero(), r.copy(), r + r, r * 2.0, r * 0.0
                for x in (z, c, d2, m2, m0):
                    json.dumps(x.toJson(), allow_nan=False)
            except Exception as e:
                return f"{what}: the reloaded container is not usable under zero/copy/+/*: {e!r}"
            if not approx_eq(d2.toJson(), (h + h).toJson()):
                return f"{what}: reloaded + reloaded differs from original + original"
            r_b = hg.Factory.fromJson(json.loads(json.dumps(j)))
            for x, y, lbl in ((h, r, "original + reloaded"), (r, h, "reloaded + original"), (r, r_b, "two separate reloads")):
                try:
                    m = x + y
                except Exception as e:
                    return f"{what}: {lbl} raised {e!r}"
                if not approx_eq(m.toJson()["data"], (h + h).toJson()["data"]):
                    return f"{what}: {lbl} differs from original + original: {json.dumps(m.toJson()['data'], sort_keys=True)[:300]}"
            if not (r == r_b and r_b == r):
                return f"{what}: two separate reloads of one document compare unequal"
            if not approx_eq(m2.toJson(), (h * 2.0).toJson(), 1e-7):
                return f"{what}: reloaded * 2 differs from original * 2"
            if z.toJson() != h.zero().toJson() or c.toJson() != j:
                return f"{what}: zero()/copy() of the reloaded container differ from the original's: {json.dumps(z.toJson())} vs {json.dumps(h.zero().toJson())}"
    return None


def mutate_docs(j):
    """single-point structural mutations of a JSON document (C15)"""
    import copy

    out = []

    def walk(node, path):
        if isinstance(node, dict):
            for k in list(node):
                yield path + [k]
                yield from walk(node[k], path + [k])
        elif isinstance(node, list):
            for i, x in enumerate(node):
                yield path + [i]
                yield from walk(x, path + [i])

    def get(root, path):
        for p in path:
            root = root[p]
        return root

    for path in list(walk(j, [])):
        parent = path[:-1]
        key = path[-1]
        # delete key / element
        d = copy.deepcopy(j)
        del get(d, parent)[key]
        out.append((f"delete {path}", d))
        # retype value
        v = get(j, path)
        for newv, tag in ((None, "null"), ([1], "list"), ({"zz": 1}, "dict"), ("zzz", "str"), (True, "bool")):
            if type(v) is type(newv) and tag != "bool":
                continue
            if isinstance(v, str) and tag == "str":
                continue
            if isinstance(key, str) and key in ("name", "values:name", "bins:name", "sub:name") and tag in ("null", "str"):
                continue
            if isinstance(v, str) and key in ("type", "values:type", "bins:type", "sub:type", "underflow:type", "overflow:type", "nanflow:type") and tag == "str":
                pass
            d = copy.deepcopy(j)
            get(d, parent)[key] = newv
            out.append((f"retype {path} -> {tag}", d))
        if isinstance(get(j, parent), dict):
            d = copy.deepcopy(j)
            get(d, parent)["extra_key"] = 1
            out.append((f"add key under {parent}", d))
            if isinstance(key, str) and key.lstrip("-").isdigit():
                # a second, non-canonical spelling of an integer bin index
                d = copy.deepcopy(j)
                get(d, parent)[("-0" + key[1:]) if key.startswith("-") else ("0" + key)] = copy.deepcopy(v)
                out.append((f"duplicate integer key {key!r} spelled non-canonically under {parent}", d))
        if isinstance(key, str) and key.endswith("type") and isinstance(v, str):
            d = copy.deepcopy(j)
            get(d, parent)[key] = "NoSuchPrimitive"
            out.append((f"rename type at {path}", d))
        if key == "entries":
            d = copy.deepcopy(j)
            get(d, parent)[key] = -1.0
            out.append((f"negative entries at {path}", d))
            d = copy.deepcopy(j)
            get(d, parent)[key] = "-inf"
            out.append((f"negative entries spelled '-inf' at {path}", d))
    d = copy.deepcopy(j)
    d["version"] = "99.0"
    out.append(("incompatible version", d))
    return out


def chk_c15(K, include_bool=False):
    for what, h in json_instances(K)[:6]:
        j = h.toJson()
        base = json.dumps(j, sort_keys=True)
        for mut, d in mutate_docs(j):
            if not include_bool and "-> bool" in mut:
                continue
            try:
                r = hg.Factory.fromJson(d)
            except Exception:
                continue
            if mut.startswith("negative entries") or mut.startswith("rename type") or mut == "incompatible version":
                return f"{what}: mutated document ({mut}) was accepted"
            # accepted: only acceptable if it is still a faithful, valid document (e.g. optional key removed)
            try:
                back = json.dumps(r.toJson(), sort_keys=True)
            except Exception as e:
                return f"{what}: mutated document ({mut}) loaded into a container that cannot be serialised: {e!r}"
            if not approx_eq(json.loads(back), d):
                return f"{what}: mutated document ({mut}) was accepted but loaded as different content: {json.dumps(d, sort_keys=True)[:300]} -> {back[:300]}"
    return None


def chk_version():
    """version.compatible on a grid of version strings: a document is readable iff its specification
    version (major, minor) is not newer than the library's; malformed strings raise"""
    import histogrammar.version as V

    maj, mnr = V.split_version_string(V.version)
    for a in range(0, maj + 3):
        for b in range(0, mnr + 3):
            for s in (f"{a}.{b}", f"{a}.{b}.7", f"{a}.{b}-rc1" if False else f"{a}.{b}"):
                want = (a, b) <= (maj, mnr)
                got = V.compatible(s)
                if bool(got) != want:
                    return f"compatible({s!r}) = {got} with library version {V.version}"
    for s in ("", "1", "abc", "1.x"):
        try:
            V.compatible(s)
        except Exception:
            continue
        return f"compatible({s!r}) did not raise"
    h = hg.Count()
    j = h.toJson()
    j["version"] = f"{maj + 1}.0"
    try:
        hg.Factory.fromJson(j)
    except Exception:
        return None
    return "a document of a newer major version was accepted by Factory.fromJson"


def chk_tojson_frame(K):
    import copy

    for what, h in json_instances(K):
        before = copy.deepcopy(h.__dict__.get("values", None)), h.entries
        j1 = js(h)
        h.toJson()
        h.toJsonString()
        if js(h) != j1 or (copy.deepcopy(h.__dict__.get("values", None)), h.entries) != before:
            return f"{what}: toJson changed the aggregator"
    return None


# --------------------------------------------------------------------------- C16: shared nodes


def chk_sharing():
    import numpy as np

    def containers(child_a, child_b):
        """containers holding the two given objects at two fillable positions"""
        yield "Label", hg.Label(a=child_a, b=child_b)
        yield "UntypedLabel", hg.UntypedLabel(a=child_a, b=child_b)
        yield "Index", hg.Index(child_a, child_b)
        yield "Branch", hg.Branch(child_a, child_b)
        yield "Branch3", hg.Branch(hg.Count(), child_a, child_b)

    def leaves():
        return [lambda: hg.Count(), lambda: hg.Sum(qx), lambda: hg.Bin(2, 0, 1, qx), lambda: hg.SparselyBin(1.0, qx), lambda: hg.Select(qsel, hg.Count())]

    data = [0.5, 1.5]
    arr = np.array([0.5, 1.5, float("nan")])

    def fills(h):
        yield "fill", lambda: h.fill(datum(0.5))
        yield "fill.numpy", lambda: h.fill.numpy({"x": arr, "y": arr, "c": np.array(["a", "b", "a"])}) if False else h.fill.numpy(recarr())

    def recarr():
        return {"x": arr, "y": arr}

    # numpy fill needs quantities on arrays: use dict-of-arrays data
    def qxa(d):
        return d["x"]

    for mk in leaves():
        # (1) siblings
        shared = mk()
        for name, h in containers(shared, shared):
            before = js(shared)
            try:
                h.fill(datum(0.5))
            except ContainerException:
                if js(shared) != before:
                    return f"{name}: shared sibling detected only after state changed"
            else:
                return f"{name}: the same {type(shared).__name__} at two sibling positions was filled without exception (entries {shared.entries})"
        # (2) cousins under different parents
        shared = mk()
        h = hg.Branch(hg.Label(a=shared, b=mk()), hg.Index(mk(), shared))
        try:
            h.fill(datum(0.5))
        except ContainerException:
            pass
        else:
            return f"cousins: shared {type(shared).__name__} under two parents was filled without exception"
        # (3) a pre-filled subtree embedded next to one of its own inner nodes; and retry after rejection
        shared = mk()
        sub = hg.Select(qsel, shared)
        sub.fill(datum(1.0))
        h = hg.Branch(sub, shared)
        for attempt in (1, 2):
            try:
                h.fill(datum(2.0))
            except ContainerException:
                continue
            return f"pre-filled subtree + inner node (attempt {attempt}): accepted and double-filled"
        # (4) no sharing: never rejected, first and later fills; shared unfilled template is legal
        a, b = mk(), mk()
        for name, h in containers(a, b):
            try:
                h.fill(datum(0.5))
                h.fill(datum(1.5))
            except ContainerException as e:
                return f"{name}: a tree without shared nodes was rejected: {e}"
    tmpl = hg.Sum(qx)
    h = hg.Label(a=hg.SparselyBin(1.0, qx, tmpl), b=hg.SparselyBin(1.0, qx, tmpl))
    try:
        h.fill(datum(0.5))
        h.fill(datum(1.5))
    except ContainerException as e:
        return f"two sparse containers sharing an unfilled template were rejected: {e}"
    h = hg.Bin(3, 0, 3, qx, hg.SparselyBin(1.0, qy, hg.Sum(qy)))
    try:
        h.fill(datum(0.5))
        h.fill(datum(1.5))
    except ContainerException as e:
        return f"Bin of SparselyBin (bins share one template) was rejected: {e}"
    # (5) vectorised fill on a shared node
    shared = hg.Sum(qxa)
    h = hg.Label(a=shared, b=shared)
    try:
        h.fill.numpy({"x": arr})
    except ContainerException:
        pass
    else:
        return "fill.numpy on a tree with a shared node did not raise"
    # (6) every fillable position of every class is visited: share bins[0]/nanflow/flows explicitly
    def probe(h, x, y, what):
        try:
            h.fill(datum(0.5))
        except ContainerException:
            return None
        return f"{what}: one object at two positions of {type(h).__name__} accepted"

    for K in ("Stack", "IrregularlyBin", "CentrallyBin"):
        h = make(K)
        objs = [v for _, v in h.bins] + [h.nanflow]
        for i in range(len(objs)):
            for j in range(i + 1, len(objs)):
                h2 = make(K)
                bins = list(h2.bins)
                allobjs = [v for _, v in bins] + [h2.nanflow]
                target = allobjs[i]
                if j < len(bins):
                    bins[j] = (bins[j][0], target)
                    h2.bins = tuple(bins) if isinstance(h2.bins, tuple) else bins
                else:
                    h2.nanflow = target
                m = probe(h2, i, j, f"{K} positions {i},{j}")
                if m:
                    return m
    h = make("Bin")
    for i, j in ((0, 1), (0, 2)):
        h2 = make("Bin")
        h2.values[j] = h2.values[i]
        m = probe(h2, i, j, "Bin values")
        if m:
            return m
    for fl in ("underflow", "overflow", "nanflow"):
        h2 = make("Bin")
        setattr(h2, fl, h2.values[0])
        m = probe(h2, 0, fl, "Bin value/" + fl)
        if m:
            return m
    h2 = make("Fraction")
    h2.numerator = h2.denominator
    m = probe(h2, 0, 1, "Fraction")
    if m:
        return m
    return None


# --------------------------------------------------------------------------- C11: pickling


# a user module-level global whose name also exists in histogrammar.util's own globals
absoluteTolerance = 2.5


def _q_user_global(d):
    return d["x"] * absoluteTolerance


def chk_pickle():
    import pickle

    import numpy as np
    from histogrammar.util import cached, named

    def q_def(d):
        return d["x"]

    quantities = {
        "lambda": lambda d: d["x"],
        "lambda-default": (lambda d, k="x": d[k]),
        "lambda-nan-default": (lambda d, missing=float("nan"): d.get("x", missing) if isinstance(d, dict) else d["x"]),
        "def": q_def,
        "def-user-global": _q_user_global,
        "string": "x",
        "named": named("nx", lambda d: d["x"]),
        "cached": cached(lambda d: d["x"]),
        "named-cached-string": cached(named("nx2", "x")),
    }
    rows = [{"x": 0.5, "y": 1.0}, {"x": 2.5, "y": -1.0}, {"x": NAN, "y": 0.0}, {"x": INF, "y": 2.0}]
    more = [{"x": 1.5, "y": 1.0}, {"x": -3.0, "y": 0.5}]
    # 0.5 and 1.75 are the boundaries between the CentrallyBin centres used below
    cols = {"x": np.array([0.5, 1.75, NAN, 2.0]), "y": np.array([1.0, 2.0, 3.0, 4.0])}

    def trees(q):
        yield "Sum", lambda: hg.Sum(q)
        yield "Average", lambda: hg.Average(q)
        yield "Minimize", lambda: hg.Minimize(q)
        yield "Bin", lambda: hg.Bin(3, 0.0, 3.0, q, hg.Sum(q))
        yield "SparselyBin", lambda: hg.SparselyBin(1.0, q, hg.Count())
        yield "CentrallyBin", lambda: hg.CentrallyBin([0.0, 1.0, 2.5], q)
        yield "IrregularlyBin", lambda: hg.IrregularlyBin([0.0, 1.0], q, hg.Deviate(q))
        yield "Stack", lambda: hg.Stack([0.0, 1.0], q)
        yield "Select", lambda: hg.Select(q, hg.Bin(2, 0, 2, q))
        yield "Fraction", lambda: hg.Fraction(q, hg.Count())
        yield "Label", lambda: hg.Label(a=hg.Sum(q), b=hg.Sum(q))
        yield "Branch", lambda: hg.Branch(hg.Count(), hg.Bin(2, 0, 2, q))
        yield "Branch-count-last", lambda: hg.Branch(hg.Sum(q), hg.Count())
        yield "Bag-N", lambda: hg.Bag(q, "N")
        yield "Bin-of-CentrallyBin", lambda: hg.Bin(2, 0.0, 3.0, q, hg.CentrallyBin([0.0, 1.0, 2.5], q))

    for qn, q in quantities.items():
        for tn, mk in trees(q):
            for state in ("empty", "filled", "merged"):
                h = mk()
                if state != "empty":
                    fill_all(h, rows)
                if state == "merged":
                    h = h + fill_all(mk(), more)
                before = js(h)
                try:
                    blob = pickle.dumps(h)
                    c = pickle.loads(blob)
                except Exception as e:
                    return f"{tn}[{qn}] {state}: pickle round trip raised {e!r}"
                if js(h) != before:
                    return f"{tn}[{qn}] {state}: pickling changed the original"
                if js(c) != before:
                    return f"{tn}[{qn}] {state}: clone content differs"
                if not (c == h and h == c):
                    return f"{tn}[{qn}] {state}: clone != original"
                # the original stays live after dumps (row-wise and vectorised), and so does the clone
                for who, obj in (("original", h), ("clone", c)):
                    try:
                        fill_all(obj, more)
                        obj.fill.numpy(cols)
                        obj.fill.numpy(cols, 0.5)
                        obj.fill.numpy(cols, np.array([1.0, 0.0, 2.0, 0.5]))
                    except Exception as e:
                        return f"{tn}[{qn}] {state}: filling the {who} after the round trip raised {e!r}"
                if not approx_eq(h.toJson(), c.toJson()):
                    return f"{tn}[{qn}] {state}: clone and original diverge under the same further fills: {js(h)[:200]} vs {js(c)[:200]}"
    # a vector-range Bag whose rows share one NaN object (math.nan): keys must keep matching after the round trip
    import math as _math

    for mk in (lambda: hg.Bag(lambda d: (d["x"], d["y"]), "N2"), lambda: hg.UntypedLabel(v=hg.Bag(lambda d: (d["x"], d["y"]), "N2"), c=hg.Count())):
        h = mk()
        vrows = [{"x": _math.nan, "y": 1.0}, {"x": 2.0, "y": _math.nan}, {"x": _math.nan, "y": 1.0}]
        fill_all(h, vrows)
        c = pickle.loads(pickle.dumps(h))
        if js(c) != js(h):
            return "vector Bag: clone content differs"
        fill_all(h, vrows)
        fill_all(c, vrows)
        if js(c) != js(h) or not (c == h):
            return f"vector Bag: clone and original diverge under the same further fills: {js(h)[:160]} vs {js(c)[:160]}"
    # reloaded-from-JSON containers pickle too
    h = fill_all(hg.Bin(3, 0.0, 3.0, lambda d: d["x"], hg.Sum(lambda d: d["y"])), rows)
    r = hg.Factory.fromJson(h.toJson())
    c = pickle.loads(pickle.dumps(r))
    if js(c) != js(r) or not (c == r):
        return "reloaded Bin: pickle clone differs"
    return None


# --------------------------------------------------------------------------- C03: vectorised fill


def strip_empty_bins(j):
    """content comparison up to sparse bins / categories that hold zero weight"""
    if isinstance(j, dict):
        out = {}
        for k, v in j.items():
            if k == "bins" and isinstance(v, dict):
                out[k] = {kk: strip_empty_bins(vv) for kk, vv in v.items() if not _is_empty(vv)}
            else:
                out[k] = strip_empty_bins(v)
        return out
    if isinstance(j, list):
        return [strip_empty_bins(x) for x in j]
    return j


def _is_empty(v):
    if isinstance(v, (int, float)):
        return v == 0
    if isinstance(v, dict) and "entries" in v:
        return v["entries"] == 0
    return False


def chk_numpy(K, skip=(), only_kids=None, exclude_kids=()):
    import numpy as np

    xs = [0.5, NAN, -INF, INF, -1.0, 0.0, 1.0, 2.5, 3.0, 2.9999999999999996, 1.75, 1e19, -1e300]
    cats = ["a", "b", "a", "c", "b", "a", "a", "c", "b", "a", "c", "b", "a"]

    def qxn(d):
        return d["x"]

    def qyn(d):
        return d["y"]

    def qsel_n(d):
        return d["x"] > 0.7

    def qcn(d):
        return d["c"]

    def wtr(w):
        return 2 * w

    def wsq(w):
        return w * w  # a non-linear weight transform (sum of squared weights)

    kids = {
        "Count": lambda: hg.Count(),
        "CountT": lambda: hg.Count(wtr),
        "CountTC": lambda: hg.Count(hg.util.cached(wtr)),
        "CountSq": lambda: hg.Count(wsq),
        "Sum": lambda: hg.Sum(qyn),
        "Average": lambda: hg.Average(qyn),
        "Deviate": lambda: hg.Deviate(qyn),
        "Minimize": lambda: hg.Minimize(qyn),
        "Maximize": lambda: hg.Maximize(qyn),
        "Bin2": lambda: hg.Bin(2, 0.0, 1.0, qyn, hg.Count()),
    }

    unsorted = False

    def mk(ck):
        c = kids[ck]
        return {
            "Count": lambda: hg.Count(),
            "Sum": lambda: hg.Sum(qxn),
            "Average": lambda: hg.Average(qxn),
            "Deviate": lambda: hg.Deviate(qxn),
            "Minimize": lambda: hg.Minimize(qxn),
            "Maximize": lambda: hg.Maximize(qxn),
            "Bag": lambda: hg.Bag(qxn, "N"),
            "Bin": lambda: hg.Bin(3, 0.0, 3.0, qxn, c(), c(), c(), c()),
            "SparselyBin": lambda: hg.SparselyBin(1.0, qxn, c(), c()),
            "CentrallyBin": lambda: hg.CentrallyBin([0.0, 1.0, 2.5], qxn, c(), c()),
            "IrregularlyBin": lambda: hg.IrregularlyBin([0.0, 1.0, 2.0], qxn, c(), c()),
            "Stack": lambda: hg.Stack([2.0, 0.0, 1.0] if unsorted else [0.0, 1.0, 2.0], qxn, c(), c()),
            "Fraction": lambda: hg.Fraction(qsel_n, c()),
            "Select": lambda: hg.Select(qsel_n, c()),
            "Categorize": lambda: hg.Categorize(qcn, c()),
            "Label": lambda: hg.Label(a=c(), b=c()),
            "UntypedLabel": lambda: hg.UntypedLabel(a=c(), b=hg.Sum(qxn)),
            "Index": lambda: hg.Index(c(), c()),
            "Branch": lambda: hg.Branch(c(), hg.Sum(qxn)),
        }[K]()

    batches = []
    for n in (0, 1, 2, 4, len(xs)):
        for off in (0, 3):
            sel = [(xs[(off + i) % len(xs)], cats[(off + i) % len(cats)]) for i in range(n)]
            batches.append(sel)
    weights_variants = ["one", "scalar", "array", "array-mean-one"]
    if K == "Count":
        return None  # a bare Count has no quantity: outside the property (no fill.numpy entry point)
    child_kinds_ = ["Count"] if K in LEAVES else ["Count", "CountT", "CountTC", "CountSq", "Sum", "Average", "Deviate", "Minimize", "Bin2"]
    if K in ("Label", "Index"):
        child_kinds_ = child_kinds_[4:]  # all-Count collections have no quantity-bearing node
    if only_kids is not None:
        child_kinds_ = [c for c in child_kinds_ if c in only_kids]
    child_kinds_ = [c for c in child_kinds_ if c not in exclude_kids]
    for ck, unsorted_ in [(ck, u) for ck in child_kinds_ for u in ((False, True) if K == "Stack" else (False,))]:
        unsorted = unsorted_  # thresholds in the order given (the constructor does not sort them)
        for rows in batches:
            if any((K, r[0]) in skip or (ck, r[0]) in skip for r in rows):
                continue
            x = np.array([r[0] for r in rows], dtype=float)
            y = np.array([r[0] if r[0] == r[0] and abs(r[0]) < 1e6 else 0.25 for r in rows], dtype=float)
            c = np.array([r[1] for r in rows])
            data = np.rec.fromarrays([x, y, c], names=["x", "y", "c"])
            for wv in weights_variants:
                if wv == "one":
                    wlist, warg = [1.0] * len(rows), None
                elif wv == "scalar":
                    wlist, warg = [0.5] * len(rows), 0.5
                elif wv == "array-mean-one":
                    # not all ones, but summing to the number of rows
                    wlist = [(2.0, 0.0, 0.5, 1.5)[i % 4] for i in range(len(rows))]
                    if len(rows) % 2:
                        wlist[-1] = 1.0
                    warg = np.array(wlist)
                else:
                    wlist = [(1.0, 0.0, 2.0, 0.5)[i % 4] for i in range(len(rows))]
                    warg = np.array(wlist)
                for split in ((None, 1, 2, len(rows) // 2) if len(rows) > 3 else (None, 1)) if len(rows) > 1 else (None,):
                    a, b = mk(ck), mk(ck)
                    xin, win = x.copy(), (warg.copy() if isinstance(warg, np.ndarray) else None)
                    try:
                        if split is None:
                            a.fill.numpy(data) if warg is None else a.fill.numpy(data, warg)
                        else:
                            for lo, hi in ((0, split), (split, len(rows))):
                                part = data[lo:hi]
                                if warg is None:
                                    a.fill.numpy(part)
                                elif isinstance(warg, np.ndarray):
                                    a.fill.numpy(part, warg[lo:hi])
                                else:
                                    a.fill.numpy(part, warg)
                    except Exception as e:
                        return f"{K}[{ck}] fill.numpy raised {e!r} on rows {rows} weights={wv}"
                    for (xx, cc), w_, yy in zip(rows, wlist, y):
                        b.fill({"x": xx, "y": float(yy), "c": str(cc)}, w_)
                    if not np.array_equal(x, xin, equal_nan=True) or (win is not None and not np.array_equal(warg, win)):
                        return f"{K}[{ck}] fill.numpy modified its input arrays (rows {rows})"
                    ja, jb = strip_empty_bins(a.toJson()["data"]), strip_empty_bins(b.toJson()["data"])
                    if not approx_eq(ja, jb, 1e-9):
                        return f"{K}[{ck}] fill.numpy != per-row fill for rows {rows} weights={wv} split={split}: {json.dumps(ja, sort_keys=True)[:260]} vs {json.dumps(jb, sort_keys=True)[:260]}"
    return None


# --------------------------------------------------------------------------- Bag with vector ranges (N2, N3)


def chk_bag_vector(what):
    """Bag(range "N2"/"N3"): the value -> weight map with NaN components canonicalised (every NaN is the same key),
    merge, equality (any key / weight difference makes unequal; clones equal) -- bounded: vectors over
    {0.5, -1.0, nan (distinct float objects), inf} of length 2 and 3, sequences of up to 3 fills"""
    import pickle

    def nan():
        return float("nan") * 1.0  # a fresh NaN object every time

    def mkvals():
        return [0.5, -1.0, nan(), INF]

    def qv(d):
        return d

    for dim in (2, 3):
        rng = f"N{dim}"
        vecs = [tuple(v) for v in itertools.product(range(4), repeat=dim)][:: (1 if dim == 2 else 5)]

        def vec(idx):
            vals = mkvals()
            return tuple(vals[i] if i != 2 else nan() for i in idx)

        seqs = [[a] for a in vecs] + [[a, b] for a in vecs for b in vecs][::3] + [[a, b, a] for a in vecs[:6] for b in vecs[:6]]
        for seq in seqs:
            h = hg.Bag(qv, rng)
            for k, idx in enumerate(seq):
                h.fill(vec(idx), 1.0 + k)
            if what in ("merge", "scale"):
                half = max(1, len(seq) // 2)
                a, b = hg.Bag(qv, rng), hg.Bag(qv, rng)
                for k, idx in enumerate(seq):
                    (a if k < half else b).fill(vec(idx), 1.0 + k)
                if what == "merge":
                    for r, nm in ((a + b, "a + b"), (b + a, "b + a"), (a + b.zero() + b, "a + zero + b")):
                        if not approx_eq(r.toJson(), h.toJson()) or len(r.values) != len(h.values):
                            return f"Bag {rng}: {nm} differs from filling everything into one Bag for {seq}: {js(r)} vs {js(h)}"
                    c = a.copy()
                    c += b
                    if not approx_eq(c.toJson(), h.toJson()) or len(c.values) != len(h.values):
                        return f"Bag {rng}: a += b differs from filling everything into one Bag for {seq}"
                else:
                    r = h * 2.0
                    w2 = hg.Bag(qv, rng)
                    for k, idx in enumerate(seq):
                        w2.fill(vec(idx), 2.0 * (1.0 + k))
                    if not approx_eq(r.toJson(), w2.toJson()) or len(r.values) != len(h.values):
                        return f"Bag {rng}: h * 2 differs from filling with doubled weights for {seq}: {js(r)} vs {js(w2)}"
                    if (h * 0.0).entries != 0.0 or len((h * 0.0).values) != 0:
                        return f"Bag {rng}: h * 0 is not empty for {seq}"
                continue
            if what == "fill":
                # the map has one key per distinct vector (NaN == NaN), weights add, entries is the total
                want = {}
                for k, idx in enumerate(seq):
                    want[idx] = want.get(idx, 0.0) + 1.0 + k
                if len(h.values) != len(want):
                    return f"Bag {rng} filled with index vectors {seq} (2 = NaN) holds {len(h.values)} keys, {len(want)} distinct vectors were filled: {h.values}"
                if abs(sum(h.values.values()) - h.entries) > 1e-12 or abs(h.entries - sum(want.values())) > 1e-12:
                    return f"Bag {rng} filled with {seq}: weights {h.values} do not add up to entries {h.entries}"
                if sorted(h.values.values()) != sorted(want.values()):
                    return f"Bag {rng} filled with {seq}: weights {sorted(h.values.values())}, expected {sorted(want.values())}"
                r = hg.Factory.fromJson(h.toJson())
                if abs(sum(r.values.values()) - h.entries) > 1e-12 or len(r.values) != len(want):
                    return f"Bag {rng} filled with {seq}: the JSON round trip loses weight or keys: {r.values}"
                rev = hg.Bag(qv, rng)
                for k, idx in reversed(list(enumerate(seq))):
                    rev.fill(vec(idx), 1.0 + k)
                if js(rev) != js(h):
                    return f"Bag {rng}: content depends on the fill order for {seq}"
            else:
                for name, c in (("copy", h.copy()), ("pickle clone", pickle.loads(pickle.dumps(h))), ("refill", None)):
                    if c is None:
                        c = hg.Bag(qv, rng)
                        for k, idx in enumerate(seq):
                            c.fill(vec(idx), 1.0 + k)
                    if not (h == c and c == h) or (h != c):
                        return f"Bag {rng} filled with {seq} is not equal to its {name}"
                # one component changed in one key: unequal
                for pos in range(dim):
                    for repl in range(4):
                        idx0 = seq[0]
                        if idx0[pos] == repl:
                            continue
                        idx1 = idx0[:pos] + (repl,) + idx0[pos + 1 :]
                        if idx1 in seq:
                            continue
                        o = hg.Bag(qv, rng)
                        for k, idx in enumerate(seq):
                            o.fill(vec(idx1 if (k == 0) else idx), 1.0 + k)
                        if len(o.values) == len(h.values) and (h == o or o == h or not (h != o)):
                            return f"Bag {rng}: key {idx0} vs {idx1} (index 2 = NaN, 3 = inf) compare equal (other fills {seq[1:]})"
    return None


def chk_stack_build():
    """Stack.build (thresholds unknown: NaN) and its clones are interchangeable: the pickle clone and the JSON reload can
    be merged with the original, with each other, scaled and re-serialised to the same document"""
    import pickle

    data = [datum(0.5), datum(1.5), datum(2.5), datum(NAN)]
    parts = [fill_all(hg.Bin(3, 0.0, 3.0, qx), data[:n]) for n in (1, 2, 4)]
    sb = hg.Stack.build(*parts)
    doc = sb.toJson()
    clones = {"pickle clone": pickle.loads(pickle.dumps(sb)), "JSON reload": hg.Factory.fromJson(doc), "copy": sb.copy()}
    for nm, c in clones.items():
        if c.toJson() != doc:
            return f"Stack.build: the {nm} serialises differently"
        for what, op in (("original + clone", lambda: sb + c), ("clone + original", lambda: c + sb), ("clone + clone", lambda: c + c), ("clone * 2", lambda: c * 2.0), ("clone.zero() + clone", lambda: c.zero() + c)):
            try:
                r = op()
            except Exception as e:
                return f"Stack.build, {nm}: {what} raised {e!r}"
            want = (sb * 2.0).toJson() if what != "clone.zero() + clone" else doc
            if not approx_eq(r.toJson(), want):
                return f"Stack.build, {nm}: {what} differs from the same operation on the original"
    return None



def chk_stack_unsorted():
    """Stack keeps its thresholds in the order given: level k holds the data with q >= t_k whatever the order
    (outside the wf `thresholds increasing` of the proved Stack contracts)"""
    for ths in ([5.0, 1.0, 3.0], [3.0, 1.0], [2.0, 2.0, 0.0], [0.0, 1.0, 2.0]):
        for ck in ("Count", "Sum"):
            h = hg.Stack(ths, qx, CHILDREN[ck]())
            data = [datum(x) for x in (0.5, 2.0, 4.0, 6.0, NAN, INF, -INF, 1.0, 3.0, 5.0)]
            ws = [1.0, 0.5, 2.0, 1.0, 1.0, 1.0, 1.0, 0.0, -1.0, 1.5]
            for d, w in zip(data, ws):
                h.fill(d, w)
            levels = [(-INF)] + list(ths)
            for (t, v), t0 in zip(h.bins, levels):
                want = sum(w for d, w in zip(data, ws) if w > 0 and d["x"] == d["x"] and d["x"] >= t0)
                if abs(v.entries - want) > 1e-12:
                    return f"Stack({ths})[{ck}]: level with threshold {t0} holds {v.entries}, the data with q >= {t0} weigh {want}"
            want_nan = sum(w for d, w in zip(data, ws) if w > 0 and d["x"] != d["x"])
            if abs(h.nanflow.entries - want_nan) > 1e-12:
                return f"Stack({ths})[{ck}]: nanflow holds {h.nanflow.entries}, expected {want_nan}"
    return None


def _sum_defect(h):
    """the C05 sum of a binning container (None if it holds)"""
    K = type(h).__name__
    if K == "Bin":
        tot = sum(v.entries for v in h.values) + h.underflow.entries + h.overflow.entries + h.nanflow.entries
    elif K == "SparselyBin":
        tot = sum(v.entries for v in h.bins.values()) + h.nanflow.entries
    elif K in ("CentrallyBin", "IrregularlyBin"):
        tot = sum(v.entries for _, v in h.bins) + h.nanflow.entries
    elif K == "Stack":
        tot = h.bins[0][1].entries + h.nanflow.entries
    else:
        return None
    if abs(tot - h.entries) > 1e-9 * max(1.0, abs(h.entries)):
        return f"bins and flows hold {tot}, entries is {h.entries}"
    return None


def chk_numpy_edges(K, sums=False):
    """fill.numpy equals row-wise fill for quantities exactly on (and one ulp around) the bin edges of non-dyadic
    binnings: the rounding level that the real-arithmetic routing proofs abstract (and where np.histogram-style
    fast paths place a value by other edges than fill does)."""
    import random

    import numpy as np

    rnd = random.Random(20261003)

    def qx(d):
        return d

    def qs(d):
        return np.ones(len(d)) if isinstance(d, np.ndarray) else 1.0

    kids = {"Count": lambda: hg.Count(), "Sum": lambda: hg.Sum(qs)}
    for trial in range(400):
        num = rnd.choice([1, 2, 3, 7, 10, 13, 100])
        low = rnd.choice([0.0, -1.5, 0.1, 1e-3, -7.0, 1000.0])
        high = low + rnd.choice([1.0, 0.7, 3.3, 10.0, 1e-2])
        width = (high - low) / num
        if K == "Bin":
            edges = [low + k * (high - low) / num for k in range(-1, num + 2)] + [low + k * width for k in range(num + 1)]
            mk = lambda c: hg.Bin(num, low, high, qx, c(), c(), c(), c())
        elif K == "SparselyBin":
            edges = [low + k * width for k in range(-3, 12)] + [k * width + low for k in (-100, 1000)]
            mk = lambda c: hg.SparselyBin(width, qx, c(), c(), origin=low)
        elif K == "CentrallyBin":
            cs = sorted({low + rnd.uniform(0, 1) * (high - low) for _ in range(min(num, 6) + 1)})
            edges = [(a + b) / 2 for a, b in zip(cs, cs[1:])] + [a + (b - a) / 2 for a, b in zip(cs, cs[1:])] + cs
            mk = lambda c: hg.CentrallyBin(cs, qx, c(), c())
        elif K == "IrregularlyBin":
            es = sorted({low + rnd.uniform(0, 1) * (high - low) for _ in range(min(num, 6) + 1)})
            edges = list(es)
            mk = lambda c: hg.IrregularlyBin(es, qx, c(), c())
        elif K == "Stack":
            es = sorted({low + rnd.uniform(0, 1) * (high - low) for _ in range(min(num, 6) + 1)})
            edges = list(es)
            mk = lambda c: hg.Stack(es, qx, c(), c())
        else:
            return None
        xs = []
        for e in edges:
            xs += [e, float(np.nextafter(e, -INF)), float(np.nextafter(e, INF))]
        xs += [NAN, low, high, float(np.nextafter(high, -INF))]
        rnd.shuffle(xs)
        ws = [rnd.choice([1.0, 0.5, 2.0, 3.25]) for _ in xs]
        for ck in ("Count", "Sum"):
            a, b = mk(kids[ck]), mk(kids[ck])
            for x, w in zip(xs, ws):
                a.fill(x, w)
            b.fill.numpy(np.array(xs), np.array(ws))
            if sums:
                for how, h in (("fill", a), ("fill.numpy", b)):
                    m = _sum_defect(h)
                    if m:
                        for x in xs:
                            h1 = mk(kids[ck])
                            if how == "fill":
                                h1.fill(x, 1.0)
                            else:
                                h1.fill.numpy(np.array([x]), np.array([1.0]))
                            if _sum_defect(h1):
                                return f"{K}[{ck}] {how} of the single quantity {x!r}: {_sum_defect(h1)} ({(num, low, high) if K in ('Bin', 'SparselyBin') else h1.toJson()['data']})"
                        return f"{K}[{ck}] ({num}, {low}, {high}) after {how} of the edge batch: {m}"
                continue
            if not approx_eq(a.toJson(), b.toJson(), 1e-12):
                for x in xs:
                    a1, b1 = mk(kids[ck]), mk(kids[ck])
                    a1.fill(x, 1.0)
                    b1.fill.numpy(np.array([x]), np.array([1.0]))
                    if js(a1) != js(b1):
                        return f"{K}[{ck}] {a1.toJson()['data'] if K in ('CentrallyBin', 'IrregularlyBin', 'Stack') else (num, low, high)}: the quantity {x!r} lands in different bins under fill and fill.numpy"
                return f"{K}[{ck}] ({num}, {low}, {high}): fill and fill.numpy differ on the edge batch"
    return None


def chk_stack_nan_thresholds():
    """C10 on Stacks with NaN thresholds (Stack.build; outside the wf of the proved Stack contracts): a NaN threshold
    matches only a NaN threshold at the same position: everything else is rejected by + and += in both operand orders."""
    c = lambda e: hg.Count.ed(e)
    nan = NAN

    def mk(ths):
        return hg.Stack.ed(3.0, [(t, c(3.0 - i)) for i, t in enumerate(ths)], c(0.0))

    data = [datum(0.5), datum(1.5), datum(2.5)]
    parts = [fill_all(hg.Bin(3, 0.0, 3.0, qx), data[:n]) for n in (1, 2, 3)]
    built = lambda: hg.Stack.build(*parts)
    ordinary = lambda: fill_all(hg.Stack([1.0, 2.0], qx, hg.Bin(3, 0.0, 3.0, qx)), data)
    pairs = [
        ("Stack.build(...)", built, "an ordinary Stack with as many levels", ordinary, False),
        ("thresholds (nan, 1.0)", lambda: mk([nan, 1.0]), "thresholds (nan, 2.0)", lambda: mk([nan, 2.0]), False),
        ("thresholds (nan, 1.0)", lambda: mk([nan, 1.0]), "thresholds (1.0, nan)", lambda: mk([1.0, nan]), False),
        ("thresholds (nan, 1.0)", lambda: mk([nan, 1.0]), "thresholds (-inf, 1.0)", lambda: mk([-INF, 1.0]), False),
        ("thresholds (nan, nan)", lambda: mk([nan, nan]), "thresholds (nan, nan, nan)", lambda: mk([nan, nan, nan]), False),
        ("thresholds (nan, 1.0)", lambda: mk([nan, 1.0]), "thresholds (nan, 1.0)", lambda: mk([nan, 1.0]), True),
        ("Stack.build(...)", built, "Stack.build(...)", built, True),
    ]
    for na, fa, nb, fb, compatible in pairs:
        for order in (0, 1):
            for inplace in (False, True):
                x, y = (fa(), fb()) if order == 0 else (fb(), fa())
                nx, ny = (na, nb) if order == 0 else (nb, na)
                try:
                    if inplace:
                        x += y
                    else:
                        x + y
                    raised = None
                except hg.defs.ContainerException as e:
                    raised = e
                except Exception as e:
                    return f"Stack with {nx} {'+=' if inplace else '+'} Stack with {ny}: raised {e!r} instead of ContainerException"
                if compatible and raised is not None:
                    return f"Stack with {nx} {'+=' if inplace else '+'} Stack with {ny}: rejected ({raised}) although the thresholds agree"
                if not compatible and raised is None:
                    return f"Stack with {nx} {'+=' if inplace else '+'} Stack with {ny}: merged silently although the thresholds differ"
    return None


def chk_eq_cross_class():
    """== across classes: aggregators of two different classes built from the same child kind and filled with the same data
    are never equal, in either operand order, and != is the negation (the proved `different-type-unequal` clause takes an
    abstract foreign operand and cannot follow code that goes on to read that operand's fields)"""
    data = [datum(0.5, c="a"), datum(1.5, c="b")]
    for n in (0, 2):
        insts = []
        for K in CLASSES:
            for ck in child_kinds(K)[:2]:
                try:
                    insts.append((K, ck, fill_all(make(K, ck), data[:n])))
                except Exception:
                    continue
        # structural twins: different classes made of the very same parts
        for cname, c in (("Count", lambda: hg.Count()), ("Sum", lambda: hg.Sum(qx))):
            twins = [
                ("Label", lambda: hg.Label(a=c(), b=c())),
                ("UntypedLabel", lambda: hg.UntypedLabel(a=c(), b=c())),
                ("Index", lambda: hg.Index(c(), c())),
                ("Branch", lambda: hg.Branch(c(), c())),
                ("IrregularlyBin", lambda: hg.IrregularlyBin([0.0, 1.0], qx, c())),
                ("Stack", lambda: hg.Stack([0.0, 1.0], qx, c())),
                ("CentrallyBin", lambda: hg.CentrallyBin([0.0, 1.0], qx, c())),
                ("Select", lambda: hg.Select(qx, c())),
                ("Fraction", lambda: hg.Fraction(qx, c())),
                ("Minimize", lambda: hg.Minimize(qx)),
                ("Maximize", lambda: hg.Maximize(qx)),
                ("Average", lambda: hg.Average(qx)),
                ("Deviate", lambda: hg.Deviate(qx)),
                ("Sum", lambda: hg.Sum(qx)),
            ]
            for K, mk in twins:
                insts.append((K, "twin parts " + cname, fill_all(mk(), data[:n])))
        for K1, c1, a in insts:
            for K2, c2, b in insts:
                if K1 == K2:
                    continue
                try:
                    eq, ne = (a == b), (a != b)
                except Exception as e:
                    return f"{K1}[{c1}] == {K2}[{c2}] raised {e!r}"
                if eq or not ne:
                    return f"{K1}[{c1}] == {K2}[{c2}] (both filled with {n} data) gives == {eq}, != {ne}: aggregators of different classes must be unequal"
    return None


def chk_json_duplicate_edges():
    """C04 / C15 on binnings with repeated cut values (outside the wf `strictly increasing` of the proved contracts): the
    constructors keep repeated thresholds, toJson writes them, and the reload must reproduce the document bin for bin -
    nothing is merged or dropped"""
    data = [datum(0.5), datum(1.0), datum(1.5), datum(3.0), datum(NAN)]
    for name, mk in (
        ("IrregularlyBin([1, 1, 3])", lambda: hg.IrregularlyBin([1.0, 1.0, 3.0], qx, hg.Count())),
        ("IrregularlyBin([1, 1, 3]) of Sum", lambda: hg.IrregularlyBin([1.0, 1.0, 3.0], qx, hg.Sum(qx))),
        ("Stack([1, 1, 3])", lambda: hg.Stack([1.0, 1.0, 3.0], qx, hg.Count())),
        ("Stack([3, 1, 1])", lambda: hg.Stack([3.0, 1.0, 1.0], qx, hg.Sum(qx))),
    ):
        h = fill_all(mk(), data)
        doc = h.toJson()
        try:
            text = json.dumps(doc, allow_nan=False)
            r = hg.Factory.fromJson(json.loads(text))
        except Exception as e:
            return f"{name}: its own document is not reloaded: {e!r}"
        if r.toJson() != doc:
            return f"{name}: the reload serialises differently: {json.dumps(doc['data'])[:200]} -> {json.dumps(r.toJson()['data'])[:200]}"
        if len(r.bins) != len(h.bins):
            return f"{name}: the reload has {len(r.bins)} bins, the original {len(h.bins)}"
        try:
            both = h + r
        except Exception as e:
            return f"{name}: original + reload raised {e!r}"
        if not approx_eq(both.toJson(), (h * 2.0).toJson()):
            return f"{name}: original + reload differs from original * 2"
    return None


def chk_json_string_and_file():
    """C04 "directly, via string, or via file": toJsonString / toJsonFile write strict JSON and Factory.fromJson(str),
    fromJsonString, fromJsonFile give back a container that serialises to the identical document (json.dump / json.load
    and the file system are external: this is a run-time check of the three thin wrappers)"""
    import os
    import tempfile

    def strict(text):
        def bad(c):
            raise ValueError(f"non-strict JSON constant {c}")

        return json.loads(text, parse_constant=bad)

    data = [datum(0.5, c="a"), datum(NAN, c="b"), datum(INF, c="a"), datum(-INF, c=None), datum(2.5, c="b")]
    with tempfile.TemporaryDirectory(prefix="hgv_json_") as tmp:
        for K in CLASSES:
            for ck in child_kinds(K)[:3]:
                for n in (0, len(data)):
                    h = fill_all(make(K, ck), data[:n])
                    doc = h.toJson()
                    try:
                        text = h.toJsonString()
                        if strict(text) != strict(json.dumps(doc, allow_nan=False)):
                            return f"{K}[{ck}]: toJsonString differs from the document of toJson"
                        path = os.path.join(tmp, "h.json")
                        h.toJsonFile(path)
                        with open(path) as f:
                            strict(f.read())
                        via = {
                            "fromJson(str)": hg.Factory.fromJson(text),
                            "fromJsonString": hg.Factory.fromJsonString(text),
                            "fromJsonFile": hg.Factory.fromJsonFile(path),
                        }
                    except Exception as e:
                        return f"{K}[{ck}] filled with {n} data: the string / file route raised {e!r}"
                    # the reference is the direct reload of the same document (that *it* re-serialises identically is the
                    # proved round-trip clause, with its known finding for empty sparse containers of named templates)
                    ref = hg.Factory.fromJson(doc).toJson()
                    for how, r in via.items():
                        if r.toJson() != ref:
                            return f"{K}[{ck}] filled with {n} data: the reload via {how} differs from the direct reload of the document"
                    if js(h) != json.dumps(doc, sort_keys=True):
                        return f"{K}[{ck}]: writing the string / file changed the aggregator"
    return None


def chk_numpy_count_after_quantity():
    """fill.numpy equals row-wise fill for Counts (plain, with a linear and with a non-linear weight transform) that come
    *after* a quantity-bearing sibling in a root collection: the sibling fixes the batch length, the Count then gets the scalar
    weight and the length (the path the count-first known findings do not reach)"""
    import numpy as np

    def qx_(d):
        return d["x"]

    def wtr(w):
        return 0.5 * w

    def wsq(w):
        return w * w

    xs = np.array([0.5, 1.5, NAN, 2.5, -1.0, 0.25, 3.0, 0.75])
    trees = {
        "Branch(Sum, Count, Count(0.5 w), Count(w^2))": lambda: hg.Branch(hg.Sum(qx_), hg.Count(), hg.Count(wtr), hg.Count(wsq)),
        "UntypedLabel(a=Sum, b=Count(w^2))": lambda: hg.UntypedLabel(a=hg.Sum(qx_), b=hg.Count(wsq)),
        "Branch(Bin(Count(w^2)), Count(w^2))": lambda: hg.Branch(hg.Bin(2, 0.0, 2.0, qx_, hg.Count(wsq)), hg.Count(wsq)),
    }
    for name, mk in trees.items():
        for wname, w in (("1", None), ("scalar 2.5", 2.5), ("scalar 0", 0.0), ("array", np.array([1.0, 0.0, 2.0, 0.5, 3.0, 1.0, 0.25, 2.0]))):
            for split in (None, 3):
                a, b = mk(), mk()
                for i, x in enumerate(xs):
                    wi = 1.0 if w is None else (float(w[i]) if isinstance(w, np.ndarray) else w)
                    a.fill({"x": float(x)}, wi)
                parts = [(0, len(xs))] if split is None else [(0, split), (split, len(xs))]
                for lo, hi in parts:
                    data = {"x": xs[lo:hi]}
                    if w is None:
                        b.fill.numpy(data)
                    else:
                        b.fill.numpy(data, w[lo:hi] if isinstance(w, np.ndarray) else w)
                if not approx_eq(a.toJson(), b.toJson(), 1e-12):
                    return f"{name}, weights {wname}, {'whole batch' if split is None else 'two batches'}: fill gives {js(a)}, fill.numpy gives {js(b)}"
    return None


def chk_stack_build_merge():
    """C01 on Stacks made by Stack.build (all thresholds NaN; outside the wf of the proved Stack contracts): independently
    built partial results merge in any order and grouping, and zero() is a two-sided identity - also for a reload"""
    data = [datum(0.5), datum(1.5), datum(2.5), datum(NAN), datum(0.25), datum(2.75)]

    def built(rows):
        parts = [fill_all(hg.Bin(3, 0.0, 3.0, qx), rows[:n]) for n in (1, 2, len(rows))]
        return hg.Stack.build(*parts)

    a, b, c = built(data[:2]), built(data[2:4]), built(data[4:])
    try:
        groupings = {
            "(a + b) + c": (a + b) + c,
            "a + (b + c)": a + (b + c),
            "c + (a + b)": c + (a + b),
            "(b + a) + c": (b + a) + c,
        }
        ra = hg.Factory.fromJson(a.toJson())
        ident = {"a + a.zero()": a + a.zero(), "a.zero() + a": a.zero() + a, "reload + reload.zero()": ra + ra.zero(), "reload.zero() + a": ra.zero() + a}
    except Exception as e:
        return f"Stack.build: merging independently built Stacks raised {e!r}"
    ref = js(groupings["(a + b) + c"])
    for name, r in groupings.items():
        if not approx_eq(json.loads(js(r)), json.loads(ref)):
            return f"Stack.build: {name} differs from (a + b) + c"
    for name, r in ident.items():
        if not approx_eq(r.toJson(), a.toJson()):
            return f"Stack.build: {name} differs from a"
    return None


def chk_numpy_dtypes():
    """C04 / C03 after vectorised fills from arrays that are not float64 (int64, int32, float32, bool): the state still
    serialises with json.dumps(allow_nan=False) (no numpy scalar left in a field), and equals the row-wise fill of the same
    values.  Two successive batches, the second one raising the maximum / lowering the minimum."""
    import numpy as np

    def qx_(d):
        return d["x"]

    batches = {
        "int64": [np.array([1, 2, 0], dtype=np.int64), np.array([5, -3, 2], dtype=np.int64)],
        "int32": [np.array([1, 2, 0], dtype=np.int32), np.array([5, -3, 2], dtype=np.int32)],
        "float32": [np.array([0.5, 1.5, 0.25], dtype=np.float32), np.array([2.5, -1.5, 0.75], dtype=np.float32)],
        "bool": [np.array([True, False, True]), np.array([False, True, True])],
    }
    trees = {
        "Sum": lambda: hg.Sum(qx_),
        "Average": lambda: hg.Average(qx_),
        "Deviate": lambda: hg.Deviate(qx_),
        "Minimize": lambda: hg.Minimize(qx_),
        "Maximize": lambda: hg.Maximize(qx_),
        "Bag": lambda: hg.Bag(qx_, "N"),
        "Bin": lambda: hg.Bin(4, -4.0, 6.0, qx_, hg.Maximize(qx_)),
        "SparselyBin": lambda: hg.SparselyBin(1.0, qx_, hg.Minimize(qx_)),
        "CentrallyBin": lambda: hg.CentrallyBin([-2.0, 0.0, 3.0], qx_, hg.Sum(qx_)),
        "IrregularlyBin": lambda: hg.IrregularlyBin([0.0, 2.0], qx_, hg.Maximize(qx_)),
        "Stack": lambda: hg.Stack([0.0, 2.0], qx_, hg.Minimize(qx_)),
        "Select": lambda: hg.Select(qx_, hg.Maximize(qx_)),
        "Fraction": lambda: hg.Fraction(qx_, hg.Sum(qx_)),
        "Branch": lambda: hg.Branch(hg.Sum(qx_), hg.Maximize(qx_), hg.Minimize(qx_)),
    }
    for dt, (b1, b2) in batches.items():
        for name, mk in trees.items():
            a, b = mk(), mk()
            try:
                for arr in (b1, b2):
                    b.fill.numpy({"x": arr})
                    for v in arr.tolist():
                        a.fill({"x": v})
            except Exception as e:
                return f"{name} filled from {dt} arrays: raised {e!r}"
            try:
                text = json.dumps(b.toJson(), allow_nan=False)
            except Exception as e:
                return f"{name} filled by fill.numpy from {dt} arrays: json.dumps of toJson() raised {e!r}"
            if not approx_eq(json.loads(text), json.loads(json.dumps(a.toJson(), allow_nan=False)), 1e-6):
                return f"{name} filled from {dt} arrays: fill.numpy gives {text[:300]}, row-wise fill gives {json.dumps(a.toJson())[:300]}"
    return None
