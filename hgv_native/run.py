"""python -m hgv_native.run <check name> : bounded native stand-in checks; prints one JSON line."""
import json
import sys
import time

from . import harness as H
from . import c13 as H13
from . import accessors as HACC

CHECKS = {
    **{f"C03:numpy-{K}": (lambda K=K: H.chk_numpy(K, exclude_kids=("Count", "CountT", "CountTC", "CountSq") if K in ("UntypedLabel", "Branch") else ())) for K in H.CLASSES},
    "C03:numpy-UntypedLabel-count-first": lambda: H.chk_numpy("UntypedLabel", only_kids=("Count", "CountT", "CountTC")),
    "C03:numpy-count-after-quantity": lambda: H.chk_numpy_count_after_quantity(),
    "C03:numpy-Branch-count-first": lambda: H.chk_numpy("Branch", only_kids=("Count", "CountT", "CountTC")),
    **{f"C03:edges-{K}": (lambda K=K: H.chk_numpy_edges(K)) for K in ("Bin", "SparselyBin", "CentrallyBin", "IrregularlyBin", "Stack")},
    **{f"C05:edges-{K}": (lambda K=K: H.chk_numpy_edges(K, sums=True)) for K in ("Bin", "SparselyBin", "CentrallyBin", "IrregularlyBin", "Stack")},
    "C10:Stack.nan-thresholds": lambda: H.chk_stack_nan_thresholds(),
    "C11:pickle": lambda: H.chk_pickle(),
    "C16:sharing": lambda: H.chk_sharing(),
    "C06:Bag.json": lambda: H.chk_tojson_frame("Bag"),
    "C15:SparselyBin.json": lambda: H.chk_c15("SparselyBin"),
    "C15:version": lambda: H.chk_version(),
    "C04:Bag.json": lambda: H.chk_json("Bag", "reserialises-identically") or H.chk_json("Bag", "usable"),
    "C15:Bag.json": lambda: H.chk_c15("Bag"),
    "C04:Stack.build": lambda: H.chk_stack_build(),
    "C04:numpy-dtypes": lambda: H.chk_numpy_dtypes(),
    "C04:string-and-file": lambda: H.chk_json_string_and_file(),
    "C04:duplicate-edges": lambda: H.chk_json_duplicate_edges(),
    "C15:duplicate-edges": lambda: H.chk_json_duplicate_edges(),
    "C09:Bag.__eq__": lambda: H.chk_eq("Bag", "sound") or H.chk_eq("Bag", "complete") or H.chk_eq("Bag", "no-raise") or H.chk_eq("Bag", "sound", True) or H.chk_eq("Bag", "complete", True) or H.chk_eq("Bag", "no-raise", True),
    "C06:Bag.__eq__": lambda: H.chk_frame("Bag", "__eq__") or H.chk_frame("Bag", "__ne__"),
    **H13.CHECKS,
    **HACC.CHECKS,
    "C02:Bag.vector": lambda: H.chk_bag_vector("fill"),
    "C02:Stack.unsorted": lambda: H.chk_stack_unsorted(),
    "C12:rollback": lambda: next((m for K in H.CLASSES for m in [H.chk_rollback(K)] if m), None),
    "C01:Stack.build": lambda: H.chk_stack_build_merge(),
    "C01:Bag.vector": lambda: H.chk_bag_vector("merge"),
    "C08:Bag.vector": lambda: H.chk_bag_vector("scale"),
    "C09:Bag.vector": lambda: H.chk_bag_vector("eq"),
    "C09:cross-class": lambda: H.chk_eq_cross_class(),
    "C09:clones": lambda: next((m for K in H.CLASSES for ne in (False, True) for m in [H.chk_eq(K, "complete", ne)] if m), None),
    "C17:string-expr": lambda: H.chk_c17("string-expr"),
    "C17:wrappers": lambda: H.chk_c17("orders") or H.chk_c17("second-name") or H.chk_c17("cached-call"),
}


def main():
    name = sys.argv[1]
    t0 = time.time()
    try:
        msg = CHECKS[name]()
        out = {"check": name, "ok": msg is None, "failing_input": msg, "seconds": round(time.time() - t0, 2)}
    except Exception as e:  # a crash of the harness is not a violation
        import traceback

        out = {"check": name, "ok": None, "error": traceback.format_exc()[-1500:], "seconds": round(time.time() - t0, 2)}
    print(json.dumps(out))


if __name__ == "__main__":
    main()
