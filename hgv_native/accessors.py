"""Bounded native stand-in for the read-accessor clause of C06: "... and all read accessors leave their operands'
observable state unchanged, and the objects they return share no mutable state with the operands".

Every public attribute of every primitive class that is not a mutator by design (fill*, +=, specialize, plotting and
file output) is exercised on filled instances: properties are read, methods are called with a small menu of probe
arguments (calls that raise are fine: they must still leave the operand unchanged).  After every call the operand's JSON
and the JSON of every aggregator handed in as an argument must be unchanged.  (Accessors such as `values`, `at`, `binsMap`
hand out the operand's own sub-aggregators by design: what they return is not checked for sharing.)
"""

import inspect
import itertools

from . import harness as H

hg = H.hg

SKIP_SUBSTR = ("plot", "bokeh", "matplotlib", "root", "sparksql", "File", "pandas", "spark", "print", "ascii")
MUTATORS = {"fill", "fillnumpy", "fillsparksql", "specialize", "register", "toJsonFile", "toJsonString"}


def probes():
    return [0.5, 1.5, "a", "zz", 0, 1, None, True]


def accessor_names(h):
    out = []
    for name in dir(type(h)):
        if name.startswith("_") or name in MUTATORS or any(s in name for s in SKIP_SUBSTR):
            continue
        out.append(name)
    return out


def unordered(K):
    """containers built by ed / fromJson from a document that lists the bins in another order than the constructor
    would (outside the wf `centres / thresholds increasing` of the proved contracts)"""
    c = lambda e: hg.Count.ed(e)
    if K == "CentrallyBin":
        return [hg.CentrallyBin.ed(6.0, [(2.5, c(1.0)), (0.0, c(2.0)), (1.0, c(3.0))], c(0.0))]
    if K == "IrregularlyBin":
        return [hg.IrregularlyBin.ed(6.0, [(H.NINF if hasattr(H, "NINF") else float("-inf"), c(1.0)), (2.5, c(2.0)), (1.0, c(3.0))], c(0.0))]
    if K == "Stack":
        return [hg.Stack.ed(6.0, [(float("-inf"), c(6.0)), (2.5, c(2.0)), (1.0, c(3.0))], c(0.0))]
    return []


def chk_accessors(K):
    data = [H.datum(0.5, c="a"), H.datum(1.5, c="b"), H.datum(H.NAN, c=None), H.datum(2.5, c="a")]
    insts = [(ck, H.fill_all(H.make(K, ck), data)) for ck in H.child_kinds(K)] + [("reloaded, bins not in increasing order", h) for h in unordered(K)]
    for ck, h in insts:
        before = H.js(h)
        for what, fn in (("hash", hash), ("repr", repr), ("str", str)):
            try:
                fn(h)
            except Exception:
                pass
            if H.js(h) != before:
                return f"{K}[{ck}]: {what}() changed the aggregator"
        for name in accessor_names(h):
            static = inspect.getattr_static(type(h), name)
            if isinstance(static, property):
                try:
                    v = getattr(h, name)
                except Exception:
                    v = None
                if H.js(h) != before:
                    return f"{K}[{ck}]: reading the property {name} changed the aggregator"
                continue
            if isinstance(static, (staticmethod, classmethod)):
                continue
            fn = getattr(h, name, None)
            if not callable(fn):
                continue
            try:
                sig = inspect.signature(fn)
            except (TypeError, ValueError):
                continue
            req = [p for p in sig.parameters.values() if p.default is inspect._empty and p.kind in (p.POSITIONAL_ONLY, p.POSITIONAL_OR_KEYWORD)]
            opt = [p for p in sig.parameters.values() if p.default is not inspect._empty and p.kind in (p.POSITIONAL_ONLY, p.POSITIONAL_OR_KEYWORD)]
            arities = sorted({len(req), min(len(req) + len(opt), 2)})
            for n in arities:
                if n > 2:
                    continue
                for args in itertools.product(probes(), repeat=n) if n < 2 else _pairs(K):
                    alts = [a for a in args if isinstance(a, hg.defs.Container)]
                    alts_before = [H.js(a) for a in alts]
                    try:
                        v = fn(*args)
                    except Exception:
                        v = None
                    if H.js(h) != before:
                        return f"{K}[{ck}]: {name}{tuple(_show(a) for a in args)} changed the aggregator it was called on"
                    if [H.js(a) for a in alts] != alts_before:
                        return f"{K}[{ck}]: {name}{tuple(_show(a) for a in args)} changed an aggregator passed as argument"
    return None


def _show(a):
    return type(a).__name__ if isinstance(a, hg.defs.Container) else a


def _pairs(K):
    alt = lambda: hg.Count()
    for p in probes():
        yield (p, alt())
        yield (p, None)
    yield (0.5, 1.5)
    yield (None, None)


def _leaks(h, before, what, v):
    """a returned list / dict must not be one of the operand's own collections (mutating it must not change h)"""
    if isinstance(v, dict):
        v["__probe__"] = None
        changed = H.js_safe(h) != before if hasattr(H, "js_safe") else _js_or_none(h) != before
        v.pop("__probe__", None)
        if changed:
            return f"{what} returns the aggregator's own dict (adding a key to the result changes the aggregator)"
    if isinstance(v, list):
        n = len(v)
        v.append(None)
        changed = _js_or_none(h) != before
        del v[n:]
        if changed:
            return f"{what} returns the aggregator's own list (appending to the result changes the aggregator)"
    return None


def _js_or_none(h):
    try:
        return H.js(h)
    except Exception:
        return None


CHECKS = {f"C06:accessors-{K}": (lambda K=K: chk_accessors(K)) for K in H.CLASSES}
