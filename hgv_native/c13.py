"""Bounded native stand-in for C13 (derived views agree with fill), run under /venv/bin/python on the real code.

Every check returns None (held on everything explored) or a string naming the first failing input.
The bound is stated in BOUND and repeated in the evidence.  Floating-point comparisons between an edge
computed by an accessor and a datum allow TOL_ULPS units in the last place of the larger magnitude
involved (the property's own "up to rounding" for values produced by different but equivalent formulas);
counts, lengths and bin contents are compared exactly.
"""

import itertools
import math

import numpy as np

from . import harness as H

hg = H.hg
NAN, INF = float("nan"), float("inf")
TOL_ULPS = 8

BOUND = (
    "Bin (num, low, high) in {(10,0,1), (3,0,1), (7,-2.5,4.5), (10,0.1,1.1), (1,0,1), (100,1000,1000.5), (6,-1e6,1e6)}; "
    "SparselyBin (width, origin) in {(1,0), (0.1,0), (1/3,0.5), (0.5,1000.25), (2,-7)} incl. negative indexes; "
    "CentrallyBin centres {(0,1,2.5), (-3,-1,0.5,10), (1000,1000.5,1001.5), (0.1,0.7,1.7,4.9), (1/3,0.7,1e6)}; IrregularlyBin edges {(0,1,2), (-1.5,0.1,0.3,7), (1000,1000.5), (0.1,0.7,1.7,4.9)} (these two classes: exact comparison, no ulp allowance); "
    "probe data = every edge / midpoint, each +-1 ulp, and values outside the domain; sub-ranges = all ordered pairs of those probes "
    "(capped at 400 per configuration); 2-D: Bin x Bin, SparselyBin x SparselyBin, Categorize x Bin, Bin x Categorize on 12 points"
)


def ulp(x):
    return math.ulp(x) if math.isfinite(x) else 0.0


SCALE = [1.0]  # magnitude of the partition under test (largest finite edge): rounding of edge formulas is relative to it


EXACT = [False]  # CentrallyBin / IrregularlyBin compute edges and routing from the same expressions: no tolerance


def tol(*xs):
    if EXACT[0]:
        return 0.0
    m = max([abs(x) for x in xs if math.isfinite(x)] + [SCALE[0]])
    return TOL_ULPS * math.ulp(m)


def near(x):
    return [x, math.nextafter(x, -INF), math.nextafter(x, INF)]


def qx(d):
    return d


def landed(h0, x):
    """index/key of the bin that a single fill of x changes (None: a flow), found by filling a zeroed copy"""
    h = h0.zero()
    h.fill(x)
    K = h.name
    if K == "Bin":
        hit = [i for i, v in enumerate(h.values) if v.entries > 0]
    elif K in ("SparselyBin",):
        hit = [i for i, v in h.bins.items() if v.entries > 0]
    else:
        hit = [i for i, (c, v) in enumerate(h.bins) if v.entries > 0]
    if len(hit) > 1:
        return "MULTI", hit
    return (hit[0] if hit else None), hit


def consistent(tag, nb, ent, edg, cen):
    if not (len(edg) == nb + 1):
        return f"{tag}: {len(edg)} edges for num_bins={nb}"
    if not (len(cen) == nb and len(ent) == nb):
        return f"{tag}: num_bins={nb} but {len(cen)} centres and {len(ent)} entries"
    for i in range(nb):
        lo, hi, c = float(edg[i]), float(edg[i + 1]), float(cen[i])
        if not (lo <= hi):
            return f"{tag}: edges not increasing at {i}: {lo} > {hi}"
        if math.isfinite(lo) and math.isfinite(hi):
            if not (lo - tol(lo, hi) <= c <= hi + tol(lo, hi)):
                return f"{tag}: centre {c} not between its edges [{lo}, {hi}]"
            if hi - lo > 8 * tol(lo, hi) and not (lo < c < hi):
                return f"{tag}: centre {c} is not strictly inside its bin [{lo}, {hi}]"
        elif math.isfinite(lo) and not (c >= lo):
            return f"{tag}: centre {c} below its lower edge {lo}"
        elif math.isfinite(hi) and not (c <= hi):
            return f"{tag}: centre {c} above its upper edge {hi}"
    return None


def _config(K, cfg):
    if K == "Bin":
        num, lo, hi = cfg
        mk = lambda: hg.Bin(num, lo, hi, qx)
        grid = [lo + (hi - lo) * i / num for i in range(num + 1)]
        grid = grid if num <= 12 else grid[:4] + grid[num // 2 - 1 : num // 2 + 2] + grid[-4:]
        outside = [lo - 1.0, hi + 1.0]
    elif K == "SparselyBin":
        w, o = cfg
        mk = lambda: hg.SparselyBin(w, qx, origin=o)
        grid = [o + w * i for i in (-3, -2, -1, 0, 1, 2, 5)]
        outside = []
    elif K == "CentrallyBin":
        mk = lambda: hg.CentrallyBin(list(cfg), qx)
        grid = list(cfg) + [(a + b) / 2.0 for a, b in zip(cfg, cfg[1:])]
        outside = [cfg[0] - 5.0, cfg[-1] + 5.0]
    else:
        mk = lambda: hg.IrregularlyBin(list(cfg), qx)
        grid = list(cfg)
        outside = [cfg[0] - 5.0, cfg[-1] + 5.0]
    mids = [(a + b) / 2.0 for a, b in zip(sorted(grid), sorted(grid)[1:])]
    probes = sorted(set(itertools.chain.from_iterable(near(g) for g in grid)) | set(mids) | set(outside))
    return mk, grid, probes


CONFIGS = {
    "Bin": [(10, 0.0, 1.0), (3, 0.0, 1.0), (7, -2.5, 4.5), (10, 0.1, 1.1), (1, 0.0, 1.0), (100, 1000.0, 1000.5), (6, -1e6, 1e6)],
    "SparselyBin": [(1.0, 0.0), (0.1, 0.0), (1.0 / 3.0, 0.5), (0.5, 1000.25), (2.0, -7.0)],
    "CentrallyBin": [(0.0, 1.0, 2.5), (-3.0, -1.0, 0.5, 10.0), (1000.0, 1000.5, 1001.5), (0.1, 0.7, 1.7, 4.9), (1.0 / 3.0, 0.7, 1e6)],
    "IrregularlyBin": [(0.0, 1.0, 2.0), (-1.5, 0.1, 0.3, 7.0), (1000.0, 1000.5), (0.1, 0.7, 1.7, 4.9)],
}


def chk_numeric(K, collect=None):
    """collect: a list that receives every failure instead of stopping at the first (exploration only)"""
    for cfg in CONFIGS[K]:
        for m in _numeric_config(K, cfg):
            if collect is None:
                return m
            collect.append(m)
    return None


def _numeric_config(K, cfg):
    """generator of failure messages for one configuration"""
    mk, grid, probes = _config(K, cfg)
    EXACT[0] = K in ("CentrallyBin", "IrregularlyBin")
    h = mk()
    # a deterministic fill set: every probe once with weight 1, grid points twice
    for x in probes:
        h.fill(x)
    for x in grid:
        h.fill(x, 2.0)
    tagc = f"{K}{cfg}"
    # ---- full range
    try:
        nb, ent, edg, cen = h.num_bins(), h.bin_entries(), h.bin_edges(), h.bin_centers()
    except Exception as e:
        yield f"{tagc}: full-range accessor raised {e!r}"
        return
    SCALE[0] = max([abs(float(e)) for e in edg if math.isfinite(float(e))] or [1.0])
    msg = consistent(tagc + " full range", nb, ent, edg, cen)
    if msg:
        yield msg
        return
    if K == "SparselyBin":
        base = h.minBin
        content = lambda i: h.bins[i].entries if i in h.bins else 0.0
    elif K == "Bin":
        base = 0
        content = lambda i: h.values[i].entries
    else:
        base = 0
        content = lambda i: h.bins[i][1].entries
    for i in range(nb):
        if float(ent[i]) != content(base + i):
            yield f"{tagc}: full-range bin_entries[{i}]={ent[i]} but the bin holds {content(base + i)}"
    # ---- the partition fill uses
    for x in probes:
        m = _probe(K, h, tagc, x, base, nb, edg, content)
        if m:
            yield m
    # ---- sub-ranges
    pairs = [(a, b) for a in probes for b in probes if a < b]
    if len(pairs) > 400:
        pairs = pairs[:: max(1, len(pairs) // 400)]
    if K == "Bin":
        dom_lo, dom_hi = cfg[1], cfg[2]
    elif K == "SparselyBin":
        dom_lo, dom_hi = h.low, h.high
    else:
        dom_lo, dom_hi = -INF, INF
    for a, b in pairs:
        if not (a < dom_hi and b > dom_lo):
            continue  # the claim is about sub-ranges overlapping the binned domain
        if K in ("Bin", "SparselyBin") and not (a >= dom_lo and b <= dom_hi):
            continue  # "(low, high) sub-range queries with low < high inside the binned domain"
        m = _subrange(K, h, tagc, a, b, base, nb, ent, edg)
        if m:
            yield m


def _probe(K, h, tagc, x, base, nb, edg, content):
    k, hit = landed(h, x)
    if k == "MULTI":
        return f"{tagc}: one fill of {x!r} changed bins {hit}"
    got = h.bin_entries(xvalues=[x])
    if len(got) != 1:
        return f"{tagc}: bin_entries(xvalues=[{x!r}]) has length {len(got)}"
    if k is None:
        if K in ("Bin", "SparselyBin") and float(got[0]) != 0.0:
            return f"{tagc}: x={x!r} lands in a flow but bin_entries(xvalues) reports {got[0]}"
        return None
    if float(got[0]) != content(k):
        return f"{tagc}: x={x!r} lands in bin {k} holding {content(k)} but bin_entries(xvalues=[x]) = {got[0]}"
    i = k - base
    if not (0 <= i < nb):
        return f"{tagc}: x={x!r} lands in bin {k}, outside the reported range [{base}, {base + nb})"
    lo_e, hi_e = float(edg[i]), float(edg[i + 1])
    t = tol(lo_e, hi_e, x)
    if not (lo_e - t <= x <= hi_e + t):
        return f"{tagc}: x={x!r} lands in bin {k} whose reported edges are [{lo_e!r}, {hi_e!r}]"
    return None


def _subrange(K, h, tagc, a, b, base, nb, ent, edg):
    tag = f"{tagc} range ({a!r}, {b!r})"
    try:
        nb2, ent2, edg2, cen2 = h.num_bins(a, b), h.bin_entries(a, b), h.bin_edges(a, b), h.bin_centers(a, b)
    except Exception as e:
        return f"{tag}: accessor raised {e!r}"
    msg = consistent(tag, nb2, ent2, edg2, cen2)
    if msg:
        return msg
    if nb2 == 0:
        return None
    # the reported bins are a contiguous run of the full partition, with the same contents
    first = [i for i in range(nb + 1) if float(edg[i]) == float(edg2[0]) or abs(float(edg[i]) - float(edg2[0])) <= tol(float(edg[i]), float(edg2[0]))]
    if not first:
        return f"{tag}: first edge {edg2[0]!r} is not an edge of the full partition"
    off = first[0]
    if off + nb2 > nb:
        return f"{tag}: {nb2} bins from full-range bin {off} exceed the {nb} bins of the histogram"
    for i in range(nb2 + 1):
        e1, e2 = float(edg[off + i]), float(edg2[i])
        if not (e1 == e2 or abs(e1 - e2) <= tol(e1, e2)):
            return f"{tag}: edge {i} is {e2!r}, the full partition has {e1!r}"
    for i in range(nb2):
        if float(ent2[i]) != float(ent[off + i]):
            return f"{tag}: entry {i} is {ent2[i]}, bin {off + i} of the full range holds {ent[off + i]}"
    # the bin holding `low` is the first one reported
    ka, _ = landed(h, a)
    if ka is not None and ka != "MULTI" and (ka - base) != off:
        return f"{tag}: low lands in bin {ka} but the first reported bin is {base + off}"
    # the last reported bin reaches `high`: it is the bin holding high, or the one before when high sits on
    # (Bin / SparselyBin: within the isclose tolerance of) that bin's lower edge
    kb, _ = landed(h, b)
    if kb is not None and kb != "MULTI":
        last = off + nb2 - 1
        ib = kb - base
        lower_edge = float(edg[ib]) if 0 <= ib <= nb else None
        if K in ("CentrallyBin", "IrregularlyBin"):
            on_edge = lower_edge is not None and b == lower_edge
        else:
            on_edge = lower_edge is not None and bool(np.isclose(b, lower_edge))
            if lower_edge is not None and not on_edge and abs(b - lower_edge) <= 2 * (1e-8 + 1e-5 * abs(lower_edge)):
                return None  # too close to the tolerance boundary to call
        want_last = ib - 1 if on_edge else ib
        if last != want_last:
            return f"{tag}: high lands in bin {kb}{' on its lower edge' if on_edge else ''} but the last reported bin is {base + last}"
    return None


def chk_categorize():
    for keys in (["a", "b", "c"], ["x"], ["b", "a", "b", "zz", "a", "b"], []):
        h = hg.Categorize(lambda d: d)
        for k in keys:
            h.fill(k)
        labels, ent = list(h.bin_labels()), list(h.bin_entries())
        if len(labels) != len(ent) or len(labels) != h.n_bins or set(labels) != set(h.bins):
            return f"Categorize{keys}: labels {labels} / entries {ent} do not match the bins {sorted(h.bins)}"
        for lab, e in zip(labels, ent):
            if h.bins[lab].entries != float(e):
                return f"Categorize{keys}: label {lab!r} reported {e}, bin holds {h.bins[lab].entries}"
        sel = list(h.bin_entries(labels=["a", "nosuch"]))
        if sel != [h.bins["a"].entries if "a" in h.bins else 0.0, 0.0]:
            return f"Categorize{keys}: bin_entries(labels=['a','nosuch']) = {sel}"
        if keys:
            best = max(h.bins.values(), key=lambda v: v.entries).entries
            if h.bins[h.mpv].entries != best:
                return f"Categorize{keys}: mpv {h.mpv!r} holds {h.bins[h.mpv].entries}, the fullest bin holds {best}"
    return None


def chk_mpv():
    for mk, data in (
        (lambda: hg.Bin(5, 0.0, 5.0, qx), [0.5, 1.5, 1.6, 3.2, 3.3, 3.4]),
        (lambda: hg.SparselyBin(1.0, qx), [-2.5, 0.5, 0.6, 7.0]),
        (lambda: hg.CentrallyBin([0.0, 1.0, 2.5], qx), [0.1, 2.4, 2.6, 9.0]),
        (lambda: hg.IrregularlyBin([0.0, 1.0, 2.0], qx), [0.5, 1.5, 1.6]),
    ):
        h = mk()
        for x in data:
            h.fill(x)
        ent, cen = list(h.bin_entries()), list(h.bin_centers())
        best = max(ent)
        i = ent.index(best)
        m = h.mpv
        if not (m == cen[i] or (math.isnan(m) and math.isnan(cen[i]))):
            return f"{h.name}: mpv {m!r} but the fullest bin {i} has centre {cen[i]!r}"
    return None


def chk_grid():
    from histogrammar.plot.hist_numpy import get_2dgrid

    pts = [(0.5, 0.5), (0.5, 1.5), (1.5, 0.5), (2.5, 2.5), (2.5, 2.6), (-1.0, 0.5), (0.5, 7.0), (NAN, 1.0), (1.0, NAN), (2.999, 0.0), (0.0, 2.999), (1.5, 1.5)]
    ws = [1.0, 2.0, 0.5, 1.0, 1.0, 3.0, 3.0, 1.0, 1.0, 1.0, 1.0, 4.0]

    def fx(d):
        return d[0]

    def fy(d):
        return d[1]

    trees = {
        "Bin x Bin": lambda: hg.Bin(3, 0.0, 3.0, fx, hg.Bin(3, 0.0, 3.0, fy)),
        "SparselyBin x SparselyBin": lambda: hg.SparselyBin(1.0, fx, hg.SparselyBin(1.0, fy)),
        "Bin x SparselyBin": lambda: hg.Bin(3, 0.0, 3.0, fx, hg.SparselyBin(1.0, fy)),
        "IrregularlyBin x IrregularlyBin": lambda: hg.IrregularlyBin([0.0, 1.0, 2.0, 3.0], fx, hg.IrregularlyBin([0.0, 1.0, 2.0, 3.0], fy)),
    }
    for name, mk in trees.items():
        h = mk()
        for p, w in zip(pts, ws):
            h.fill(p, w)
        try:
            xl, yl, grid = get_2dgrid(h)
        except Exception as e:
            return f"{name}: get_2dgrid raised {e!r}"
        if grid.shape != (len(yl), len(xl)):
            return f"{name}: grid shape {grid.shape} for {len(xl)} x labels and {len(yl)} y labels"
        # the in-range weight: both coordinates land in a real bin
        want = 0.0
        for p, w in zip(pts, ws):
            if any(math.isnan(c) for c in p):
                continue
            inx = name.startswith(("Sparsely", "Irregularly")) or 0.0 <= p[0] < 3.0
            iny = name.endswith(("SparselyBin", "IrregularlyBin")) or 0.0 <= p[1] < 3.0
            if inx and iny:
                want += w
        if abs(float(grid.sum()) - want) > 1e-9:
            return f"{name}: grid holds {float(grid.sum())}, the in-range weight is {want}"
        # the x / y projections of the two-dimensional histogram methods hold exactly the in-range weights, bin by bin
        if hasattr(h, "project_on_x") and hasattr(h, "project_on_y") and hasattr(h, "xy_ranges_grid"):
            try:
                _, _, g2 = h.xy_ranges_grid()
                hx, hy = h.project_on_x(), h.project_on_y()
            except Exception as e:
                return f"{name}: projections raised {e!r}"

            def contents(p):
                if isinstance(getattr(p, "bins", None), dict):
                    lo, hi = min(p.bins), max(p.bins)
                    return [p.bins[k].entries if k in p.bins else 0.0 for k in range(lo, hi + 1)]
                if hasattr(p, "values"):
                    return [v.entries for v in p.values]
                return [v.entries for _, v in p.bins]

            cx, cy = contents(hx), contents(hy)
            for what, got, ref in (("x", cx, g2.sum(axis=0)), ("y", cy, g2.sum(axis=1))):
                if abs(sum(got) - want) > 1e-9:
                    return f"{name}: the {what} projection holds {sum(got)}, the in-range weight is {want}"
                if len(got) == len(ref) and any(abs(a - float(b)) > 1e-9 for a, b in zip(got, ref)):
                    return f"{name}: the {what} projection {got} differs from the grid's sums {[float(b) for b in ref]}"
        # projections: column sums = per-x-bin in-range entries of the inner histograms
        if name == "Bin x Bin":
            for i, v in enumerate(h.values):
                if abs(float(grid[:, i].sum()) - sum(b.entries for b in v.values)) > 1e-9:
                    return f"{name}: column {i} sums to {float(grid[:, i].sum())}, the inner bins hold {sum(b.entries for b in v.values)}"
            for j in range(3):
                if abs(float(grid[j, :].sum()) - sum(v.values[j].entries for v in h.values)) > 1e-9:
                    return f"{name}: row {j} does not equal the y projection"
    return None


CHECKS = {
    "C13:Bin": lambda: chk_numeric("Bin"),
    "C13:SparselyBin": lambda: chk_numeric("SparselyBin"),
    "C13:CentrallyBin": lambda: chk_numeric("CentrallyBin"),
    "C13:IrregularlyBin": lambda: chk_numeric("IrregularlyBin"),
    "C13:Categorize": chk_categorize,
    "C13:mpv": chk_mpv,
    "C13:grid": chk_grid,
}


# --------------------------------------------------------------------------- replay of a verifier counter-model


def _num(v):
    """z3 model value (string) -> float"""
    from fractions import Fraction

    v = str(v).strip().replace("?", "")
    try:
        return float(Fraction(v))
    except Exception:
        return float(v)


def _increasing(xs):
    """the strictly increasing prefix (a counter-model of the ground VC leaves far-away elements unconstrained)"""
    out = []
    for x in xs:
        if out and not x > out[-1]:
            break
        out.append(x)
    return tuple(out)


def replay_model(m):
    """rebuild the configuration and query of a counter-model and run the same oracle as the bounded check on it"""
    K = str(m.get("class", "")).strip('"')
    lo = _num(m["q.low"]) if "q.low" in m else None
    hi = _num(m["q.high"]) if "q.high" in m else None
    if K == "Bin":
        num = int(_num(m["num"]))
        if num > 100000:
            return None
        cfg = (num, _num(m["low"]), _num(m["high"]))
    elif K == "SparselyBin":
        cfg = (_num(m["binWidth"]), _num(m["origin"]))
    elif K in ("CentrallyBin", "IrregularlyBin") and "w.k" in m:
        # a window of centres / thresholds around the bin the query falls in
        n, k = int(_num(m["n"])), int(_num(m["w.k"]))
        pre = "w.c" if K == "CentrallyBin" else "w.e"
        lo_i = 0 if K == "CentrallyBin" else 1
        vals = [_num(m[f"{pre}{d:+d}"]) for d in (-1, 0, 1, 2) if lo_i <= k + d < n and f"{pre}{d:+d}" in m]
        cfg = _increasing(tuple(vals))
        if len(cfg) < (2 if K == "CentrallyBin" else 1):
            return None
    elif K == "CentrallyBin":
        n = min(int(_num(m["n"])), 6)
        cfg = _increasing(tuple(_num(m[f"c{i}"]) for i in range(n)))
        if len(cfg) < 2:
            return None
    elif K == "IrregularlyBin":
        n = min(int(_num(m["n"])), 6)
        cfg = _increasing(tuple(_num(m[f"e{i}"]) for i in range(1, n) if f"e{i}" in m))
    else:
        return None
    try:
        mk, grid, probes = _config(K, cfg)
        EXACT[0] = K in ("CentrallyBin", "IrregularlyBin")
        h = mk()
    except Exception as e:
        return None  # the rounded configuration is not constructible: nothing to replay
    extra = [v for v in (lo, hi, _num(m["q.x"]) if "q.x" in m else None) if v is not None and math.isfinite(v)]
    if K == "SparselyBin" and int(_num(m.get("filled", 1))) > 0:
        w, o = cfg
        for k in (int(_num(m["minBin"])), int(_num(m["maxBin"]))):
            if abs(k) < 10**9:
                h.fill(o + w * (k + 0.5))
    for x in list(probes) + extra:
        if K != "SparselyBin" or not extra or min(extra) - 5 * cfg[0] <= x <= max(extra) + 5 * cfg[0]:
            h.fill(x)
    tagc = f"{K}{cfg}"
    try:
        nb, ent, edg, cen = h.num_bins(), h.bin_entries(), h.bin_edges(), h.bin_centers()
    except Exception as e:
        return f"{tagc}: full-range accessor raised {e!r}"
    SCALE[0] = max([abs(float(e)) for e in edg if math.isfinite(float(e))] or [1.0])
    msg = consistent(tagc + " full range", nb, ent, edg, cen)
    if msg:
        return msg
    if K == "SparselyBin":
        base, content = h.minBin, (lambda i: h.bins[i].entries if i in h.bins else 0.0)
    elif K == "Bin":
        base, content = 0, (lambda i: h.values[i].entries)
    else:
        base, content = 0, (lambda i: h.bins[i][1].entries)
    for x in extra:
        msg = _probe(K, h, tagc, x, base, nb, edg, content)
        if msg:
            return msg
    if lo is not None or hi is not None:
        # a one-sided query is replayed with the open side at the end of the binned domain
        if K == "SparselyBin":
            if h.low is None:
                return None
            a = lo if lo is not None else h.low
            b = hi if hi is not None else h.high
        else:
            a = lo if lo is not None else -1e300
            b = hi if hi is not None else 1e300
        if not a < b:
            return None
        return _subrange(K, h, tagc, a, b, base, nb, ent, edg)
    return None
