"""Bookkeeping invariants of property C05 as predicates over structured views."""

import z3

from hgv import core
from spec import specs


def bk(st, K, a):
    E = a["entries"].fl.r
    gs = [a["entries"].fl.isfin(), E >= 0]
    if K == "Fraction":
        gs.append(core.E(a["denominator"].view) == E)
        gs.append(core.bkv(a["denominator"].view))
        gs.append(core.bkv(a["numerator"].view))
    elif K == "Select":
        gs.append(core.bkv(a["cut"].view))
    elif K in specs.CHILDREN:
        from spec import binspec

        gs.append(binspec.bk(st, K, a))
    return z3.And(gs)
