"""Bookkeeping invariants of property C05 as predicates over structured views."""

import z3

from hgv import core
from spec import specs


def bk(st, K, a):
    E = a["entries"].fl.r
    gs = [a["entries"].fl.isfin(), E >= 0]
    if K == "Fraction":
        gs.append(core.E(a["denominator"].view) == E)
        gs.append(core.bkv(a["denominator"].view))
        gs.append(core.bkv(a["numerator"].view))
    elif K == "Select":
        gs.append(core.bkv(a["cut"].view))
    elif K in specs.CHILDREN:
        from spec import binspec

        gs.append(binspec.bk(st, K, a))
        if K == "Stack":
            gs.append(stack_levels(st, a, E))
    return z3.And(gs)


def view_E(comp):
    """entries of a child component (through conditional components)"""
    from hgv.sv import CChild, CIte

    if isinstance(comp, CIte):
        return z3.If(comp.c, view_E(comp.a), view_E(comp.b))
    if isinstance(comp, CChild):
        return core.E(comp.view)
    return z3.RealVal(-1)


def stack_levels(st, a, E):
    """Stack: level k holds the weight of the data with q >= t_k, so (thresholds increasing, t_0 = -inf) the
    levels are non-increasing and level 0 together with nanflow holds everything"""
    bins = a["bins"]
    k = z3.Const(f"stk!{core.uid()}", bins.ksort)
    lvl = lambda i: view_E(bins.val(i).items[1])
    mono = st.forall(k, z3.And(bins.dom(k), bins.dom(k + 1)), lvl(k + 1) <= lvl(k), equiv=True, name="bk.stack-levels-nonincreasing")
    return z3.And(mono, lvl(z3.IntVal(0)) + view_E(a["nanflow"]) == E)
