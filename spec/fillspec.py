"""Specification of fill(datum, weight) per primitive, written from property C02:
the post-state is the pre-state plus one weighted datum routed by the Histogrammar rules
(half-open intervals, nearest centre with ties to the upper bin, thresholds, categories;
NaN to the nanflow; weight gate handled by the caller)."""

import z3

from hgv import core
from hgv.builtins_model import UF_BOOL, UF_NUM, UF_STR, UF_NONE, uf_b, uf_kind, uf_nan, uf_ninf, uf_pinf, uf_r, uf_s
from hgv.fl import Fl
from hgv.sv import CChild, CFam, CFl, CIte, CNONE, CTuple, content_eq
from spec import specs


def quantity_expr(pre, selfv):
    o = pre.obj(selfv)
    q = o.fields.get("quantity")
    if q is None:
        return None
    e = pre.obj(q).fields.get("expr")
    return getattr(e, "t", None)


def q_value(pre, selfv, d):
    """(is_number, Fl) of the quantity of the datum, from the A-USERFN result functions."""
    e = quantity_expr(pre, selfv)
    kind = uf_kind(e, d)
    qnum = Fl(uf_nan(e, d), uf_pinf(e, d), uf_ninf(e, d), uf_r(e, d))
    qbool = Fl.fin(z3.If(uf_b(e, d), z3.RealVal(1), z3.RealVal(0)))
    return z3.Or(kind == UF_NUM, kind == UF_BOOL), Fl.ite(kind == UF_BOOL, qbool, qnum), kind, e


def child_fill(x, d, w, cond=None):
    def one(c):
        v = CChild(core.vfill(c.view, d, w))
        return v if cond is None else CIte(cond, v, c)

    return specs.lift(one)(x)


def may_raise(st, K, pre, selfv, d, w):
    """fill may raise only if the user function raised / returned a wrong type, or a child raised.
    (goal: on this raising path, one of those happened -- read from the executor's event log)."""
    evs = st.events
    ok = any(
        (e[0] == "userfn" and e[1] in ("raise", "str", "none", "other"))
        or e[0] == "child-fill-raised"
        or (e[0] == "in-loop" and len(e) > 1 and e[1] == "child-fill-raised")
        for e in evs
    )
    if K == "Bag":
        ok = any(e[0] == "userfn" for e in evs)  # Bag accepts strings ("S") or numbers ("N") only
    if K == "Categorize":
        ok = any(
            (e[0] == "userfn" and e[1] in ("raise", "other", "num")) or e[0] == "child-fill-raised" for e in evs
        )
    # a reloaded (immutable) container legitimately refuses to fill
    e = quantity_expr(pre, selfv) if K != "Count" else 1
    if e is None:
        ok = True
    return z3.BoolVal(ok)


def fill_post(st, K, pre, selfv, a, r, d, w):
    """Bool: view r is view a plus the datum d with finite weight w > 0."""
    wr = w.r
    gs = [content_eq(st, r["entries"], CFl(a["entries"].fl.add(w)), "fill.entries")]
    for p in specs.PARAMS[K]:
        gs.append(content_eq(st, r[p], a[p], "fill.param"))
    if K == "Count":
        return z3.And(gs)
    if K in ("Label", "UntypedLabel", "Index", "Branch"):
        f = "pairs" if K in ("Label", "UntypedLabel") else "values"
        gs.append(content_eq(st, r[f], specs.map_child(specs.CHILDREN[K][f], a[f], lambda x: child_fill(x, d, wr)), "fill." + f))
        return z3.And(gs)
    isnum, q, kind, e = q_value(pre, selfv, d)
    if K == "Sum":
        gs.append(r["sum"].fl.same(a["sum"].fl.add(q.mul(w))))
    elif K in ("Average", "Deviate"):
        E = a["entries"].fl.r
        m0, m1 = a["mean"].fl, r["mean"].fl
        empty = E == 0
        # nan quantity (or nan mean so far) poisons the moments; finite data add to the statistics
        gs.append(z3.Implies(z3.Or(q.nan, z3.And(z3.Not(empty), m0.nan)), m1.nan))
        fin_case = z3.And(q.isfin(), z3.Or(empty, m0.isfin()))
        S1_0 = z3.If(empty, z3.RealVal(0), E * m0.r)
        body = [m1.isfin(), (E + wr) * m1.r == S1_0 + wr * q.r]
        if K == "Deviate":
            v0, v1 = a["varianceTimesEntries"].fl, r["varianceTimesEntries"].fl
            fin_case = z3.And(fin_case, z3.Or(empty, v0.isfin()))
            S2_0 = z3.If(empty, z3.RealVal(0), v0.r + E * m0.r * m0.r)
            body += [v1.isfin(), v1.r + (E + wr) * m1.r * m1.r == S2_0 + wr * q.r * q.r]
            gs.append(z3.Implies(z3.Or(q.nan, z3.And(z3.Not(empty), m0.nan)), v1.nan))
        gs.append(z3.Implies(fin_case, z3.And(body)))
        # infinite data (the extended-real weighted mean, as the merge computes it): opposite infinities give nan, an
        # infinite datum gives the mean its sign, a finite datum leaves an infinite mean alone
        prev = Fl.ite(empty, q, m0)
        no_nan = z3.And(z3.Not(q.nan), z3.Not(prev.nan))
        inf_case = z3.And(no_nan, z3.Or(prev.isinf(), q.isinf()))
        opposite = z3.Or(z3.And(prev.pinf, q.ninf), z3.And(prev.ninf, q.pinf))
        gs.append(z3.Implies(inf_case, m1.same(Fl.ite(opposite, Fl.const(float("nan")), Fl.ite(q.isinf(), q, prev)))))
        if K == "Deviate":
            gs.append(z3.Implies(inf_case, v1.nan))
    elif K == "Bag":
        m = a["values"]
        rng = a["range"].t
        key = z3.If(
            rng == core.strlit("S"),
            core.KStr(uf_s(e, d)),
            z3.If(q.nan, core.KStr(core.strlit("nan")), z3.If(q.pinf, core.Key.KPInf, z3.If(q.ninf, core.Key.KNInf, core.Key.KReal(q.r)))),
        )
        want = CFam(
            m.ksort,
            lambda k: z3.Or(m.dom(k), k == key),
            lambda k: CFl(Fl.ite(k == key, Fl.ite(m.dom(k), m.val(k).fl.add(w), w), m.val(k).fl)),
            None,
            m.pytype,
        )
        # range "S" takes strings, range "N" numbers/bools; a numeric *string* under "N" is parsed by
        # float() -- outside the specification, not constrained here
        proper = z3.If(rng == core.strlit("S"), kind == UF_STR, isnum)
        gs.append(z3.Implies(proper, content_eq(st, r["values"], want, "fill.values")))
    elif K == "Minimize":
        gs.append(r["min"].fl.same(specs.minplus_spec(a["min"].fl, q)))
    elif K == "Maximize":
        gs.append(r["max"].fl.same(specs.maxplus_spec(a["max"].fl, q)))
    elif K == "Select":
        sel = q.mul(w)
        gs.append(content_eq(st, r["cut"], child_fill(a["cut"], d, sel.r, sel.ispos()), "fill.cut"))
    elif K == "Fraction":
        sel = q.mul(w)
        gs.append(content_eq(st, r["denominator"], child_fill(a["denominator"], d, wr), "fill.denominator"))
        gs.append(content_eq(st, r["numerator"], child_fill(a["numerator"], d, sel.r, sel.ispos()), "fill.numerator"))
    elif K in ("Label", "UntypedLabel", "Index", "Branch"):
        f = "pairs" if K in ("Label", "UntypedLabel") else "values"
        gs.append(content_eq(st, r[f], specs.map_child(specs.CHILDREN[K][f], a[f], lambda x: child_fill(x, d, wr)), "fill." + f))
    else:
        from spec import binspec

        a = dict(a)
        tv = pre.obj(selfv).fields.get("value")
        a["__template__"] = pre.view(tv.ref) if hasattr(tv, "ref") else None
        a["__q_expr__"], a["__q_kind__"] = e, kind
        gs.append(binspec.fill_post(st, K, a, r, d, w, q))
    return z3.And(gs)
