"""Specification of a valid JSON fragment per primitive (property C15), written from the
Histogrammar JSON format: exact key set (required + optional), field types (a number is a JSON
number or one of the strings "nan" / "inf" / "-inf"; a JSON boolean is not a number), entries >= 0,
registered child types, well-formed list / map elements."""

import z3

from hgv import core
from hgv import jsonmodel as JM
from hgv.fl import Fl
from hgv.frontend import PRIMITIVES
from hgv.sv import CChild, CFl, content_eq

T = core.strlit

# field kinds: num | str | optstr | typename | child(<typefield>) | childlist(<typefield>) | childmap(<typefield>)
#              | pairs(<key>, <typefield>) | typedlist | typedmap | bagvalues
FORMAT = {
    "Sum": ({"entries": "num", "sum": "num"}, {"name": "optstr"}),
    "Average": ({"entries": "num", "mean": "num"}, {"name": "optstr"}),
    "Deviate": ({"entries": "num", "mean": "num", "variance": "num"}, {"name": "optstr"}),
    "Minimize": ({"entries": "num", "min": "num"}, {"name": "optstr"}),
    "Maximize": ({"entries": "num", "max": "num"}, {"name": "optstr"}),
    "Bag": ({"entries": "num", "values": "bagvalues", "range": "str"}, {"name": "optstr"}),
    "Bin": (
        {
            "low": "num", "high": "num", "entries": "num", "values:type": "typename", "values": "childlist:values:type",
            "underflow:type": "typename", "underflow": "child:underflow:type", "overflow:type": "typename",
            "overflow": "child:overflow:type", "nanflow:type": "typename", "nanflow": "child:nanflow:type",
        },
        {"name": "optstr", "values:name": "optstr"},
    ),
    "SparselyBin": (
        {"binWidth": "num", "entries": "num", "bins:type": "typename", "bins": "childmap:bins:type", "nanflow:type": "typename",
         "nanflow": "child:nanflow:type", "origin": "num"},
        {"name": "optstr", "bins:name": "optstr"},
    ),
    "CentrallyBin": (
        {"entries": "num", "bins:type": "typename", "bins": "pairs:center:bins:type", "nanflow:type": "typename", "nanflow": "child:nanflow:type"},
        {"name": "optstr", "bins:name": "optstr"},
    ),
    "IrregularlyBin": (
        {"entries": "num", "bins:type": "typename", "bins": "pairs:atleast:bins:type", "nanflow:type": "typename", "nanflow": "child:nanflow:type"},
        {"name": "optstr", "bins:name": "optstr"},
    ),
    "Stack": (
        {"entries": "num", "bins:type": "typename", "bins": "pairs:atleast:bins:type", "nanflow:type": "typename", "nanflow": "child:nanflow:type"},
        {"name": "optstr", "bins:name": "optstr"},
    ),
    "Fraction": (
        {"entries": "num", "sub:type": "typename", "numerator": "child:sub:type", "denominator": "child:sub:type"},
        {"name": "optstr", "sub:name": "optstr"},
    ),
    "Select": ({"entries": "num", "sub:type": "typename", "data": "child:sub:type"}, {"name": "optstr"}),
    "Categorize": ({"entries": "num", "bins:type": "typename", "bins": "childmap:bins:type"}, {"name": "optstr", "bins:name": "optstr"}),
    "Label": ({"entries": "num", "sub:type": "typename", "data": "childmap:sub:type"}, {}),
    "UntypedLabel": ({"entries": "num", "data": "typedmap"}, {}),
    "Index": ({"entries": "num", "sub:type": "typename", "data": "childlist:sub:type"}, {}),
    "Branch": ({"entries": "num", "data": "typedlist"}, {}),
}


def is_number(t, allow_bool):
    special = z3.And(JM.jtag(t) == JM.STR, z3.Or([JM.jstr(t) == T(s) for s in ("nan", "inf", "-inf")]))
    num = JM.jtag(t) == JM.NUM
    if allow_bool:
        num = z3.Or(num, JM.jtag(t) == JM.BOOL)
    return z3.Or(num, special)


def typed_elements_exact(st, v, is_map, keys=("type", "data")):
    """every {"type", "data"} element of a typed list / map has no other key (an extra key is content that the reload
    would drop silently).  Only ever used as a goal: the two universals (element, key) are Skolemised."""
    if is_map:
        w = st.fresh("sk.element-key", core.StrS)
        e, dom = JM.jget(v, w), JM.jhas(v, w)
    else:
        w = st.fresh("sk.element", z3.IntSort())
        e, dom = JM.jelem(v, w), z3.And(w >= 0, w < JM.jlen(v))
    k2 = st.fresh("sk.extra-key", core.StrS)
    st.add_index(w)
    st.add_index(k2)
    return z3.Implies(z3.And(dom, JM.jtag(e) == JM.OBJ, JM.jhas(e, k2)), z3.Or([k2 == T(x) for x in keys]))


def registered(s):
    return z3.Or([s == T(c) for c in PRIMITIVES])


def valid_clauses(K, j):
    """-> list of (clause name, state -> goal)"""
    out = []
    if K == "Count":
        out.append(("number", lambda st: is_number(j, True)))
        out.append(("number-not-bool", lambda st: JM.jtag(j) != JM.BOOL))
        out.append(("entries-nonneg", lambda st: z3.Implies(JM.jtag(j) == JM.NUM, JM.jnum(j) >= 0)))
        return out
    req, opt = FORMAT[K]
    allkeys = list(req) + list(opt)
    out.append(("is-object", lambda st: JM.jtag(j) == JM.OBJ))
    out.append(("required-keys", lambda st: z3.And([JM.jhas(j, T(k)) for k in req])))

    def no_extra(st):
        k = z3.Const(f"xk!{core.uid()}", core.StrS)
        return st.forall(k, JM.jhas(j, k), z3.Or([k == T(x) for x in allkeys]), equiv=True, name="no-extra-keys")

    out.append(("no-extra-keys", no_extra))
    for f, kind in {**req, **opt}.items():
        v = JM.jget(j, T(f))
        present = JM.jhas(j, T(f))
        if kind == "num":
            out.append((f"number:{f}", lambda st, v=v, present=present: z3.Implies(present, is_number(v, True))))
            out.append((f"number-not-bool:{f}", lambda st, v=v, present=present: z3.Implies(present, JM.jtag(v) != JM.BOOL)))
            if f == "entries":
                out.append(("entries-nonneg", lambda st, v=v: z3.Implies(JM.jtag(v) == JM.NUM, JM.jnum(v) >= 0)))
        elif kind == "str":
            out.append((f"string:{f}", lambda st, v=v: JM.jtag(v) == JM.STR))
        elif kind == "optstr":
            out.append((f"optional-string:{f}", lambda st, v=v, present=present: z3.Implies(present, z3.Or(JM.jtag(v) == JM.STR, JM.jtag(v) == JM.NULL))))
        elif kind == "typename":
            out.append((f"registered-type:{f}", lambda st, v=v: z3.And(JM.jtag(v) == JM.STR, registered(JM.jstr(v)))))
        elif kind.startswith("child:"):
            tf = kind.split(":", 1)[1]
            out.append((f"child:{f}", lambda st, v=v, tf=tf: JM.validJ(JM.jstr(JM.jget(j, T(tf))), v)))
        elif kind.startswith("childlist:"):
            tf = kind.split(":", 1)[1]

            def g(st, v=v, tf=tf):
                i = z3.Int(f"xi!{core.uid()}")
                ok = st.forall(i, z3.And(i >= 0, i < JM.jlen(v)), JM.validJ(JM.jstr(JM.jget(j, T(tf))), JM.jelem(v, i)), equiv=True, name="elements")
                return z3.And(JM.jtag(v) == JM.ARR, ok)

            out.append((f"elements:{f}", g))
        elif kind.startswith("childmap:"):
            tf = kind.split(":", 1)[1]

            def g(st, v=v, tf=tf):
                k = z3.Const(f"xk!{core.uid()}", core.StrS)
                ok = st.forall(k, JM.jhas(v, k), JM.validJ(JM.jstr(JM.jget(j, T(tf))), JM.jget(v, k)), equiv=True, name="elements")
                return z3.And(JM.jtag(v) == JM.OBJ, ok)

            out.append((f"elements:{f}", g))
        elif kind.startswith("pairs:"):
            _, key, tf = kind.split(":", 2)

            def g(st, v=v, tf=tf, key=key, strict=True):
                i = z3.Int(f"xi!{core.uid()}")
                e = JM.jelem(v, i)
                body = z3.And(
                    JM.jtag(e) == JM.OBJ,
                    JM.jhas(e, T(key)),
                    JM.jhas(e, T("data")),
                    is_number(JM.jget(e, T(key)), True),
                    JM.validJ(JM.jstr(JM.jget(j, T(tf))), JM.jget(e, T("data"))),
                )
                ok = st.forall(i, z3.And(i >= 0, i < JM.jlen(v)), body, equiv=True, name="elements")
                return z3.And(JM.jtag(v) == JM.ARR, ok)

            out.append((f"elements:{f}", g))
            out.append((f"elements-no-extra-keys:{f}", lambda st, v=v, key=key: typed_elements_exact(st, v, False, (key, "data"))))
        elif kind == "typedlist":

            def g(st, v=v):
                i = z3.Int(f"xi!{core.uid()}")
                e = JM.jelem(v, i)
                body = z3.And(
                    JM.jtag(e) == JM.OBJ,
                    JM.jhas(e, T("type")),
                    JM.jhas(e, T("data")),
                    JM.jtag(JM.jget(e, T("type"))) == JM.STR,
                    JM.validJ(JM.jstr(JM.jget(e, T("type"))), JM.jget(e, T("data"))),
                )
                ok = st.forall(i, z3.And(i >= 0, i < JM.jlen(v)), body, equiv=True, name="elements")
                return z3.And(JM.jtag(v) == JM.ARR, ok)

            out.append((f"elements:{f}", g))
            out.append((f"elements-no-extra-keys:{f}", lambda st, v=v: typed_elements_exact(st, v, False)))
        elif kind == "typedmap":

            def g(st, v=v):
                k = z3.Const(f"xk!{core.uid()}", core.StrS)
                e = JM.jget(v, k)
                body = z3.And(
                    JM.jtag(e) == JM.OBJ,
                    JM.jhas(e, T("type")),
                    JM.jhas(e, T("data")),
                    JM.validJ(JM.jstr(JM.jget(e, T("type"))), JM.jget(e, T("data"))),
                )
                ok = st.forall(k, JM.jhas(v, k), body, equiv=True, name="elements")
                return z3.And(JM.jtag(v) == JM.OBJ, ok)

            out.append((f"elements:{f}", g))
            out.append((f"elements-no-extra-keys:{f}", lambda st, v=v: typed_elements_exact(st, v, True)))
        elif kind == "bagvalues":
            out.append((f"list:{f}", lambda st, v=v: z3.Or(JM.jtag(v) == JM.ARR, JM.jtag(v) == JM.NULL)))
    return out


def json_number(t):
    """Fl value of a JSON numeric field (number, bool, or special string)"""
    isstr = JM.jtag(t) == JM.STR
    s = JM.jstr(t)
    return Fl(
        z3.And(isstr, s == T("nan")),
        z3.And(isstr, s == T("inf")),
        z3.And(isstr, s == T("-inf")),
        JM.num_of(t).r,
    )


def faithful(st, K, j, res, view):
    """the result carries exactly the document's numbers (nothing dropped, duplicated or defaulted)"""
    if view is None:
        return z3.BoolVal(False)
    gs = []
    if K == "Count":
        return view["entries"].fl.same(json_number(j))
    ent = JM.jget(j, T("entries"))
    gs.append(view["entries"].fl.same(json_number(ent)))
    scalar = {"Sum": ["sum"], "Average": ["mean"], "Minimize": ["min"], "Maximize": ["max"], "Bin": ["low", "high"], "SparselyBin": ["binWidth", "origin"]}
    for f in scalar.get(K, []):
        if f in view:
            gs.append(view[f].fl.same(json_number(JM.jget(j, T(f)))))
    if K == "Deviate":
        gs.append(view["mean"].fl.same(json_number(JM.jget(j, T("mean")))))
        # varianceTimesEntries = variance * entries
        var = json_number(JM.jget(j, T("variance")))
        gs.append(view["varianceTimesEntries"].fl.same(var.mul(json_number(ent))))
    req, _ = FORMAT[K]
    for f, kind in req.items():
        v = JM.jget(j, T(f))
        if kind.startswith("childlist:") or kind.startswith("pairs:") or kind == "typedlist":
            fld = {"values": "values", "bins": "bins", "data": "values"}[f]
            if fld in view:
                gs.append(view[fld].length == JM.jlen(v))
        if kind.startswith("pairs:"):
            key = kind.split(":")[1]
            fam = view["bins"]
            i = z3.Int(f"fi!{core.uid()}")
            gs.append(
                st.forall(
                    i,
                    fam.dom(i),
                    fam.val(i).items[0].fl.same(json_number(JM.jget(JM.jelem(v, i), T(key)))),
                    equiv=True,
                    name="faithful-thresholds",
                )
            )
    return z3.And(gs)
