"""Routing specifications of the binning primitives (property C02) and the pointwise part of the
bookkeeping invariants (C05).

Each datum goes to exactly one of: nanflow (NaN), and otherwise
  Bin            underflow (q < low), overflow (q >= high), or the bin i with low+i*d <= q < low+(i+1)*d
  SparselyBin    the integer i with origin+i*w <= q < origin+(i+1)*w, saturating at +-(2^63-1)
  CentrallyBin   the nearest centre, ties to the upper bin (centres strictly increasing)
  IrregularlyBin the i with t_i <= q < t_(i+1), t_0 = -inf, t_n = +inf
  Stack          every level k with q >= t_k
  Categorize     the key q for str/bool, "NaN" for None / nan
"""

import z3

from hgv import core
from hgv.builtins_model import UF_BOOL, UF_NONE, UF_NUM, UF_STR, uf_b, uf_kind, uf_s
from hgv.fl import Fl
from hgv.sv import CChild, CFam, CFl, CIte, CTuple, content_eq
from spec import specs

LONG_MAX = 2**63 - 1


def vf(view, d, w, cond):
    if z3.is_app(view) and view.decl().kind() == z3.Z3_OP_ITE:
        c, x, y = view.children()
        return CIte(c, vf(x, d, w, cond), vf(y, d, w, cond))
    return CIte(cond, CChild(core.vfill(view, d, w)), CChild(view))


def fill_post(st, K, a, r, d, w, q):
    want = fill_want(st, K, a, d, w, q)
    return z3.And([content_eq(st, r[f], c, "fill." + f) for f, c in want.items()] or [z3.BoolVal(True)])


def fill_want(st, K, a, d, w, q):
    """expected child-holding fields of the view after one datum of finite weight w > 0 (a function of
    the pre-view: used both as postcondition of fill and in the homomorphism law L-hom)"""
    wr = w.r
    out = {}
    notnan = z3.Not(q.nan)
    if "nanflow" in a:
        out["nanflow"] = vf(a["nanflow"].view, d, wr, q.nan)
    if K == "Bin":
        low, high = a["low"].fl, a["high"].fl
        vals = a["values"]
        n = vals.length
        out["underflow"] = vf(a["underflow"].view, d, wr, z3.And(notnan, q.lt(low)))
        out["overflow"] = vf(a["overflow"].view, d, wr, z3.And(notnan, q.ge(high)))
        inrange = z3.And(q.isfin(), q.r >= low.r, q.r < high.r)
        delta = st.fresh("binwidth", z3.RealSort())
        st.add(delta * z3.ToReal(n) == high.r - low.r, delta > 0)

        def sel(i):
            return z3.And(inrange, low.r + z3.ToReal(i) * delta <= q.r, q.r < low.r + (z3.ToReal(i) + 1) * delta)

        out["values"] = CFam(vals.ksort, vals.dom, lambda i: vf(vals.val(i).view, d, wr, sel(i)), n, vals.pytype)
    elif K in ("CentrallyBin", "IrregularlyBin", "Stack"):
        bins = a["bins"]
        n = bins.length

        def c(i):
            return bins.val(i).items[0].fl

        if K == "CentrallyBin":

            def mid(i):  # midpoint between centre i and i+1 (centres finite)
                return Fl.fin((c(i).r + c(i + 1).r) / 2)

            def sel(i):
                return z3.And(notnan, z3.Or(i == 0, q.ge(mid(i - 1))), z3.Or(i == n - 1, q.lt(mid(i))))

        elif K == "IrregularlyBin":

            def sel(i):
                return z3.And(notnan, q.ge(c(i)), z3.Or(i == n - 1, q.lt(c(i + 1))))

        else:

            def sel(i):
                return z3.And(notnan, q.ge(c(i)))

        out["bins"] = CFam(
            bins.ksort,
            bins.dom,
            lambda i: CTuple([bins.val(i).items[0], vf(bins.val(i).items[1].view, d, wr, sel(i))]),
            n,
            bins.pytype,
        )
    elif K == "SparselyBin":
        bins = a["bins"]
        bw, org = a["binWidth"].fl.r, a["origin"].fl.r
        M = z3.IntVal(LONG_MAX)
        tmpl = a.get("__template__")

        def sel(k):
            i = core.Key.ki(k)
            ir = z3.ToReal(i)
            mid = z3.And(q.isfin(), i > -M, i < M, org + ir * bw <= q.r, q.r < org + (ir + 1) * bw)
            hi = z3.And(i == M, z3.Or(q.pinf, z3.And(q.isfin(), q.r >= org + ir * bw)))
            lo = z3.And(i == -M, z3.Or(q.ninf, z3.And(q.isfin(), q.r < org + (ir + 1) * bw)))
            return z3.And(core.Key.is_KInt(k), notnan, z3.Or(mid, hi, lo))

        out["bins"] = sparse_want(st, a, d, wr, sel, tmpl)
    elif K == "Categorize":
        bins = a["bins"]
        tmpl = a.get("__template__")
        e, kind = a["__q_expr__"], a["__q_kind__"]
        key = z3.If(
            kind == UF_STR,
            core.KStr(uf_s(e, d)),
            z3.If(kind == UF_BOOL, core.Key.KBool(uf_b(e, d)), core.KStr(core.strlit("NaN"))),
        )
        ok = z3.Or(kind == UF_STR, kind == UF_BOOL, kind == UF_NONE, z3.And(kind == UF_NUM, q.nan))
        st.add(ok)  # other results raise TypeError (checked by raises:only-user-failure)

        def sel(k):
            return k == key

        out["bins"] = sparse_want(st, a, d, wr, sel, tmpl)
    else:
        raise core.Unsupported(f"fill spec for {K}")
    return out


def sparse_want(st, a, d, wr, sel, tmpl):
    """bins' = bins with the selected key present and filled; a new bin starts as the empty template."""
    bins = a["bins"]
    empty = core.vzero(tmpl) if tmpl is not None else None

    def val(k):
        base = bins.val(k)
        if empty is not None:
            comp = CIte(bins.dom(k), base, CChild(empty))
        else:
            comp = base
        return specs.lift(lambda c: CIte(sel(k), CChild(core.vfill(c.view, d, wr)), c))(comp)

    return CFam(bins.ksort, lambda k: z3.Or(bins.dom(k), sel(k)), val, None, bins.pytype)


def view_of_comp(c):
    if isinstance(c, CIte):
        return z3.If(c.c, view_of_comp(c.a), view_of_comp(c.b))
    if isinstance(c, CChild):
        return c.view
    return z3.Const("noview", core.View)


def bk(st, K, a):
    """Pointwise part of the bookkeeping invariant: every child satisfies its own invariant, and for
    the collections every child has the parent's entries.  (Sums over bins: spec/sums.py.)"""
    E = a["entries"].fl.r
    gs = []
    for f, kind in specs.CHILDREN[K].items():
        if K in ("Label", "UntypedLabel", "Index", "Branch"):
            gs.append(specs.all_children(st, kind, a[f], lambda x: z3.And(core.bkv(x.view), core.E(x.view) == E), "bk." + f))
        else:
            gs.append(specs.all_children(st, kind, a[f], lambda x: core.bkv(x.view), "bk." + f))
    return z3.And(gs) if gs else z3.BoolVal(True)


def selectors(st, K, a, q):
    """which child receives a datum with quantity q (the routing rules of the module docstring), as
    predicates: {field: Bool} for single slots, {field: key -> Bool} for families.  Shared by the
    row-wise fill specification and by the vectorised-fill obligations (C03)."""
    notnan = z3.Not(q.nan)
    out = {}
    if "nanflow" in a:
        out["nanflow"] = q.nan
    if K == "Bin":
        low, high = a["low"].fl, a["high"].fl
        n = a["values"].length
        out["underflow"] = z3.And(notnan, q.lt(low))
        out["overflow"] = z3.And(notnan, q.ge(high))
        inrange = z3.And(q.isfin(), q.r >= low.r, q.r < high.r)
        delta = st.fresh("binwidth", z3.RealSort())
        st.add(delta * z3.ToReal(n) == high.r - low.r, delta > 0)
        out["values"] = lambda i: z3.And(inrange, low.r + z3.ToReal(i) * delta <= q.r, q.r < low.r + (z3.ToReal(i) + 1) * delta)
    elif K in ("CentrallyBin", "IrregularlyBin", "Stack"):
        bins = a["bins"]
        n = bins.length
        c = lambda i: bins.val(i).items[0].fl
        if K == "CentrallyBin":
            mid = lambda i: Fl.fin((c(i).r + c(i + 1).r) / 2)
            out["bins"] = lambda i: z3.And(notnan, z3.Or(i == 0, q.ge(mid(i - 1))), z3.Or(i == n - 1, q.lt(mid(i))))
        elif K == "IrregularlyBin":
            out["bins"] = lambda i: z3.And(notnan, q.ge(c(i)), z3.Or(i == n - 1, q.lt(c(i + 1))))
        else:
            out["bins"] = lambda i: z3.And(notnan, q.ge(c(i)))
    elif K in ("Label", "UntypedLabel"):
        out["pairs"] = lambda k: z3.BoolVal(True)
    elif K in ("Index", "Branch"):
        out["values"] = lambda k: z3.BoolVal(True)
    return out
