"""Specifications for C13: derived views (num_bins, bin_entries, bin_edges, bin_centers, bin_width).

Two layers.

* Property level (taken from the statement of C13): for one query (low, high) the four arrays are mutually
  consistent -- one more edge than bins, one centre and one entry per bin, centres between their edges -- and
  they describe the partition `fill` uses: edge i of the answer is the boundary of bin base+i of the routing
  specification of C02 (spec/binspec.py) and entry i is the content of that bin.  These are the lemmas of
  hgv/c13.py (`lemma:*`), proved from the accessor contracts alone.

* Contract level (derived from the code and its call sites): which run of bins [m, M] a query selects.  The
  selection is the code's own: the bin holding `low` first, the bin holding `high` last, except that a `high`
  that numpy.isclose puts on the lower edge of its bin selects the bin before.  The lemma `selection` ties that
  choice back to the property: the run starts with the bin holding low and reaches high up to that tolerance.

All arithmetic is over the reals (A-REAL).  Index functions are specified with a canonical position function:
    Bin            pos(x) = (x - low) / delta,      delta * num = high - low
    SparselyBin    pos(x) = (x - origin) / binWidth
so that bin(x) = floor(pos(x)) and edge k = low + k * delta.
"""

import z3

from hgv.fl import Fl

TWO63 = 2**63


class BinTerms:
    """canonical terms of one symbolic Bin instance"""

    def __init__(self, tag, low, high, n):
        self.tag = tag
        self.L, self.H, self.n = low, high, n
        self.delta = z3.Real(f"{tag}.delta")
        self.pos = z3.Function(f"{tag}.pos", z3.RealSort(), z3.RealSort())

    def facts(self):
        return [self.delta * z3.ToReal(self.n) == self.H - self.L, self.delta > 0]

    def pos_facts(self, x):
        """defining equation of pos at x, and its order-theoretic consequences against the domain"""
        p = self.pos(x)
        return [
            self.delta * p == x - self.L,
            (x >= self.L) == (p >= 0),
            (x < self.H) == (p < z3.ToReal(self.n)),
        ]

    def edge(self, k):
        return self.L + self.delta * z3.ToReal(k)

    def inrange(self, x):
        return z3.And(x.isfin(), x.r >= self.L, x.r < self.H)

    def bin(self, x):
        """Bin.bin(x): -1 outside [low, high) and for NaN, floor(pos(x)) inside"""
        return z3.If(self.inrange(x), z3.ToInt(self.pos(x.r)), z3.IntVal(-1))

    def cmp_facts(self, x, k):
        """edge k <= x  <=>  k <= pos(x)   (delta > 0): the instances the solver is given explicitly"""
        kr = z3.ToReal(k)
        return [(self.edge(k) <= x) == (kr <= self.pos(x)), (x < self.edge(k)) == (self.pos(x) < kr)]

    def select(self, low, high):
        """(m, M, kind) for a query; low / high are Fl or None.  kind: 'under' / 'over' = the two empty cases"""
        n = self.n
        both = low is not None and high is not None
        under = z3.And(low.r < self.L, high.r < self.L) if both else z3.BoolVal(False)
        over = z3.And(low.r >= self.H, high.r >= self.H) if both else z3.BoolVal(False)
        if low is None:
            m = z3.IntVal(0)
        else:
            m = z3.If(low.r < self.L, z3.IntVal(0), z3.ToInt(self.pos(low.r)))
        if high is None:
            M = n - 1
        else:
            bh = z3.ToInt(self.pos(high.r))
            from hgv.npmodel import fl_isclose

            close = fl_isclose(high, Fl.fin(self.edge(bh)))
            M = z3.If(high.r >= self.H, n - 1, z3.If(close, bh - 1, bh))
        m = z3.If(under, z3.IntVal(0), z3.If(over, n, m))
        M = z3.If(under, z3.IntVal(-1), z3.If(over, n - 1, M))
        return m, M, under, over


class SparseTerms:
    def __init__(self, tag, origin, width):
        self.tag = tag
        self.O, self.W = origin, width
        self.pos = z3.Function(f"{tag}.pos", z3.RealSort(), z3.RealSort())

    def facts(self):
        return [self.W > 0]

    def pos_facts(self, x):
        return [self.W * self.pos(x) == x - self.O]

    def edge(self, k):
        return self.O + self.W * z3.ToReal(k)

    def cmp_facts(self, x, k):
        kr = z3.ToReal(k)
        return [(self.edge(k) <= x) == (kr <= self.pos(x)), (x < self.edge(k)) == (self.pos(x) < kr)]

    def bin(self, x):
        """SparselyBin.bin for a finite x whose position is inside the int64 range (precondition of the
        accessor contracts); NaN and the saturated ends are C02's business"""
        return z3.ToInt(self.pos(x.r))

    def inreach(self, x):
        p = self.pos(x.r)
        return z3.And(x.isfin(), p > -(TWO63 - 1), p < TWO63 - 1)
