"""Specification functions of the 19 primitives, written from the property statements
(C01, C02, C05, C07-C10), independently of the code.

A structured view is {field: component} (hgv.sv).  For each class K:
  PARAMS[K]    structural parameters: equal in compatible operands, unchanged by every operation
  CONTENT[K]   fields holding aggregated content
  compat(K, st, a, b)             Bool: same structure (class is checked by the caller)
  plus(K, st, a, b) / zero(K, st, a) / scale(K, st, a, f)      expected structured views
  fill_post(K, ...)               relation between pre and post views for one weighted datum
  bk(K, st, a)                    bookkeeping invariant of C05
Leaf moments are specified through sufficient statistics (sum w, sum w*q, sum w*q^2): the state
is the image of the weighted multiset, so +, *, fill are additions on the statistics.
"""

import z3

from hgv import core
from hgv.fl import Fl
from hgv.sv import CNONE, CChild, CFam, CFl, CIte, CNone_, CStr, CTuple, Comp, content_eq

LEAVES = ["Count", "Sum", "Average", "Deviate", "Minimize", "Maximize", "Bag"]

# field roles ----------------------------------------------------------------------------------
PARAMS = {
    "Count": [],
    "Sum": [],
    "Average": [],
    "Deviate": [],
    "Minimize": [],
    "Maximize": [],
    "Bag": ["range"],
    "Bin": ["low", "high"],
    "SparselyBin": ["binWidth", "origin"],
    "CentrallyBin": [],
    "IrregularlyBin": [],
    "Stack": [],
    "Fraction": [],
    "Select": [],
    "Categorize": [],
    "Label": [],
    "UntypedLabel": [],
    "Index": [],
    "Branch": [],
}

# children: field -> kind
#   one: single child; list: list of children; pairs: list of (float param, child);
#   fixedmap: dict with a key set that is structure; sparsemap: dict whose key set is content
CHILDREN = {
    "Bin": {"values": "list", "underflow": "one", "overflow": "one", "nanflow": "one"},
    "SparselyBin": {"bins": "sparsemap", "nanflow": "one"},
    "CentrallyBin": {"bins": "pairs", "nanflow": "one"},
    "IrregularlyBin": {"bins": "pairs", "nanflow": "one"},
    "Stack": {"bins": "pairs", "nanflow": "one"},
    "Fraction": {"numerator": "one", "denominator": "one"},
    "Select": {"cut": "one"},
    "Categorize": {"bins": "sparsemap"},
    "Label": {"pairs": "fixedmap"},
    "UntypedLabel": {"pairs": "fixedmap"},
    "Index": {"values": "list"},
    "Branch": {"values": "list"},
}

WEIGHTMAP = {"Bag": "values"}  # value -> weight map (key union, weights add)

LEAF_FIELDS = {
    "Bag": [],
    "Count": [],
    "Sum": ["sum"],
    "Average": ["mean"],
    "Deviate": ["mean", "varianceTimesEntries"],
    "Minimize": ["min"],
    "Maximize": ["max"],
}

# expected python container type of child collections (part of wf: C08 "first-class aggregator")
PYTYPE = {
    ("Bin", "values"): "list",
    ("CentrallyBin", "bins"): "list",
    ("IrregularlyBin", "bins"): "tuple",
    ("Stack", "bins"): "tuple",
    ("Index", "values"): "tuple",
    ("Branch", "values"): "tuple",
    ("SparselyBin", "bins"): "dict",
    ("Categorize", "bins"): "dict",
    ("Label", "pairs"): "dict",
    ("UntypedLabel", "pairs"): "dict",
}


def content_fields(K):
    return ["entries"] + LEAF_FIELDS.get(K, []) + list(CHILDREN.get(K, {})) + ([WEIGHTMAP[K]] if K in WEIGHTMAP else [])


def wmap_plus(a, b):
    def val(k):
        return CIte(z3.And(a.dom(k), b.dom(k)), CFl(a.val(k).fl.add(b.val(k).fl)), CIte(a.dom(k), a.val(k), b.val(k)))

    return CFam(a.ksort, lambda k: z3.Or(a.dom(k), b.dom(k)), val, None, a.pytype)


def all_fields(K):
    return PARAMS[K] + content_fields(K)


# ---- helpers on components ----------------------------------------------------------------------


def ch2(op):
    return lambda x, y: CChild(op(x.view, y.view))


def lift(fn):
    """apply a function of child components through conditional components (keeps the interface
    functions applied to plain views, so that the induction-hypothesis instances match)"""

    def g(*args):
        for i, x in enumerate(args):
            if isinstance(x, CIte):
                return CIte(x.c, g(*args[:i], x.a, *args[i + 1 :]), g(*args[:i], x.b, *args[i + 1 :]))
        return fn(*args)

    return g


@lift
def child_plus(x, y):
    return CChild(core.vplus(x.view, y.view))


@lift
def child_zero(x):
    return CChild(core.vzero(x.view))


def child_scale(x, f):
    return lift(lambda c: CChild(core.vscale(c.view, f)))(x)


def child_compat(x, y):
    return core.SH(x.view) == core.SH(y.view)


def map_child(kind, comp, fn):
    """Apply fn to every child of a child-holding component."""
    if not _shape_ok(kind, comp):
        return CNONE
    if kind == "one":
        return fn(comp)
    if kind == "list" or kind == "fixedmap" or kind == "sparsemap":
        return CFam(comp.ksort, comp.dom, lambda k: fn(comp.val(k)), comp.length, comp.pytype)
    if kind == "pairs":
        return CFam(
            comp.ksort,
            comp.dom,
            lambda k: CTuple([comp.val(k).items[0], fn(comp.val(k).items[1])]),
            comp.length,
            comp.pytype,
        )
    raise ValueError(kind)


def zip_child(kind, a, b, fn):
    if not (_shape_ok(kind, a) and _shape_ok(kind, b)):
        return CNONE
    if kind == "one":
        return fn(a, b)
    if kind in ("list", "fixedmap"):
        return CFam(a.ksort, a.dom, lambda k: fn(a.val(k), b.val(k)), a.length, a.pytype)
    if kind == "pairs":
        return CFam(
            a.ksort,
            a.dom,
            lambda k: CTuple([a.val(k).items[0], fn(a.val(k).items[1], b.val(k).items[1])]),
            a.length,
            a.pytype,
        )
    if kind == "sparsemap":
        # key union; pointwise on common keys, the present side elsewhere
        def val(k):
            return CIte(
                z3.And(a.dom(k), b.dom(k)),
                fn(a.val(k), b.val(k)),
                CIte(a.dom(k), a.val(k), b.val(k)),
            )

        return CFam(a.ksort, lambda k: z3.Or(a.dom(k), b.dom(k)), val, None, a.pytype)
    raise ValueError(kind)


def _shape_ok(kind, a):
    from hgv.sv import CIte

    if kind == "one":
        return isinstance(a, (CChild, CIte))
    return isinstance(a, CFam)


def all_children(st, kind, a, pred, name):
    """Bool: pred(child component) for every child."""
    if not _shape_ok(kind, a):
        return z3.BoolVal(False)  # the slot does not hold what the class invariant requires
    if kind == "one":
        return pred(a)
    k = z3.Const(f"sp!{core.uid()}", a.ksort)
    if kind == "pairs":
        body = pred(a.val(k).items[1])
    else:
        body = pred(a.val(k))
    return st.forall(k, a.dom(k), body, equiv=True, name=name)


def all_children2(st, kind, a, b, pred, name):
    if not (_shape_ok(kind, a) and _shape_ok(kind, b)):
        return z3.BoolVal(False)
    if kind == "one":
        return pred(a, b)
    k = z3.Const(f"sp!{core.uid()}", a.ksort)
    if kind == "pairs":
        body = pred(a.val(k).items[1], b.val(k).items[1])
    else:
        body = pred(a.val(k), b.val(k))
    dom = z3.And(a.dom(k), b.dom(k))
    return st.forall(k, dom, body, equiv=True, name=name)


# ---- compat -------------------------------------------------------------------------------------


def compat(K, st, a, b):
    parts = compat_parts(K, st, a, b)
    return z3.And([x for v in parts.values() for x in v]) if parts else z3.BoolVal(True)


def compat_parts(K, st, a, b):
    """Structural compatibility of two views of class K (DESIGN `compat`), in named parts:
    params (parameters equal, same number of bins / centres / thresholds / key sets) and
    children (children pairwise compatible)."""
    cs = []
    ch = []
    for p in PARAMS[K]:
        cs.append(content_eq(st, a[p], b[p], "compat-param"))
    for f, kind in CHILDREN.get(K, {}).items():
        x, y = a[f], b[f]
        if kind in ("list", "pairs"):
            cs.append(x.length == y.length)
            if kind == "pairs":
                k = z3.Const(f"cp!{core.uid()}", z3.IntSort())
                cs.append(
                    st.forall(
                        k,
                        z3.And(x.dom(k), y.dom(k)),
                        x.val(k).items[0].fl.same(y.val(k).items[0].fl),
                        equiv=True,
                        name="compat-thresholds",
                    )
                )
        if kind == "fixedmap":
            k = z3.Const(f"cp!{core.uid()}", core.Key)
            cs.append(st.forall(k, z3.BoolVal(True), x.dom(k) == y.dom(k), equiv=True, name="compat-keys"))
        ch.append(all_children2(st, kind, x, y, child_compat, "compat-children"))
    return {"params": cs, "children": ch}


# ---- sufficient statistics of the moment leaves --------------------------------------------------


def stats(K, a):
    """(E, S1, S2) as real terms, valid when all fields are finite."""
    E = a["entries"].fl.r
    if K == "Sum":
        return E, a["sum"].fl.r, None
    m = a["mean"].fl.r
    S1 = E * m
    if K == "Average":
        return E, S1, None
    return E, S1, a["varianceTimesEntries"].fl.r + E * m * m


# ---- plus / zero / scale ------------------------------------------------------------------------


def entries_plus(a, b):
    return CFl(a["entries"].fl.add(b["entries"].fl))


def minplus_spec(x, y):
    """nan-as-missing minimum (the specification of Minimize merging)."""
    return Fl.ite(x.nan, y, Fl.ite(y.nan, x, Fl.ite(x.lt(y), x, y)))


def maxplus_spec(x, y):
    return Fl.ite(x.nan, y, Fl.ite(y.nan, x, Fl.ite(x.gt(y), x, y)))


def plus(K, st, a, b):
    """Expected view of a + b for the container part (children, entries, parameters, extrema).
    Moment leaves are checked by plus_moments."""
    out = {}
    for p in PARAMS[K]:
        out[p] = a[p]
    out["entries"] = entries_plus(a, b)
    if K == "Sum":
        out["sum"] = CFl(a["sum"].fl.add(b["sum"].fl))
    if K == "Minimize":
        out["min"] = CFl(minplus_spec(a["min"].fl, b["min"].fl))
    if K == "Maximize":
        out["max"] = CFl(maxplus_spec(a["max"].fl, b["max"].fl))
    for f, kind in CHILDREN.get(K, {}).items():
        out[f] = zip_child(kind, a[f], b[f], child_plus)
    if K in WEIGHTMAP:
        out[WEIGHTMAP[K]] = wmap_plus(a[WEIGHTMAP[K]], b[WEIGHTMAP[K]])
    return out


def plus_moments(K, a, b, r):
    """Average / Deviate: relation between operand views and result view r (all finite, nan when empty).

    empty + x = x, x + empty = x; otherwise the sufficient statistics add."""
    Ea, Eb = a["entries"].fl.r, b["entries"].fl.r
    fs = LEAF_FIELDS[K]
    a_empty, b_empty = Ea == 0, Eb == 0
    same_as = lambda src: z3.And([r[f].fl.same(src[f].fl) for f in fs])
    fin = z3.And([z3.And(a[f].fl.isfin(), b[f].fl.isfin()) for f in fs])
    _, S1a, S2a = stats(K, a)
    _, S1b, S2b = stats(K, b)
    Er, S1r, S2r = stats(K, r)
    add = [z3.And([r[f].fl.isfin() for f in fs]), S1r == S1a + S1b]
    if K == "Deviate":
        add.append(S2r == S2a + S2b)
    return z3.And(
        z3.Implies(a_empty, same_as(b)),
        z3.Implies(z3.And(z3.Not(a_empty), b_empty), same_as(a)),
        z3.Implies(z3.And(z3.Not(a_empty), z3.Not(b_empty), fin), z3.And(add)),
    )


def zero(K, st, a):
    out = {}
    for p in PARAMS[K]:
        out[p] = a[p]
    out["entries"] = CFl(Fl.const(0.0))
    if K == "Sum":
        out["sum"] = CFl(Fl.const(0.0))
    for f in ("mean", "varianceTimesEntries", "min", "max"):
        if f in LEAF_FIELDS.get(K, []):
            out[f] = CFl(Fl.const(float("nan")))
    for f, kind in CHILDREN.get(K, {}).items():
        if kind == "sparsemap":
            out[f] = CFam(a[f].ksort, lambda k: z3.BoolVal(False), lambda k: CNONE, z3.IntVal(0), a[f].pytype)
        else:
            out[f] = map_child(kind, a[f], child_zero)
    if K in WEIGHTMAP:
        m = a[WEIGHTMAP[K]]
        out[WEIGHTMAP[K]] = CFam(m.ksort, lambda k: z3.BoolVal(False), lambda k: CNONE, z3.IntVal(0), m.pytype)
    return out


def scale(K, st, a, f):
    """Expected view of a * f for a finite factor f > 0 (f is a real term)."""
    ff = Fl.fin(f)
    out = {}
    for p in PARAMS[K]:
        out[p] = a[p]
    out["entries"] = CFl(ff.mul(a["entries"].fl))
    if K == "Sum":
        out["sum"] = CFl(ff.mul(a["sum"].fl))
    if K in ("Average", "Deviate"):
        out["mean"] = a["mean"]
    if K == "Deviate":
        out["varianceTimesEntries"] = CFl(ff.mul(a["varianceTimesEntries"].fl))
    if K == "Minimize":
        out["min"] = a["min"]
    if K == "Maximize":
        out["max"] = a["max"]
    for fld, kind in CHILDREN.get(K, {}).items():
        out[fld] = map_child(kind, a[fld], lambda x: child_scale(x, f))
    if K in WEIGHTMAP:
        m = a[WEIGHTMAP[K]]
        out[WEIGHTMAP[K]] = CFam(m.ksort, m.dom, lambda k: CFl(ff.mul(m.val(k).fl)), m.length, m.pytype)
    return out


# ---- bookkeeping invariant (C05) -----------------------------------------------------------------
# Sums over symbolic-size families are abstract: SUM(fam) is an uninterpreted real attached to the
# family, with the finite-sum algebra (pointwise sum, point update, scaling, key union) supplied as
# lemma instances (trusted step T-AX, proved in Lean: lean/HgvMeta.lean).


def bk_fixed(K, a):
    """Bookkeeping for the fixed-arity containers (no sums over families)."""
    E = a["entries"].fl.r
    if K == "Fraction":
        return core.E(a["denominator"].view) == E
    return z3.BoolVal(True)
