/-
HgvMeta: the meta-level steps of the HGV argument that are independent of /repo
(DESIGN §2.4).  Checked by the Lean 4 kernel (Mathlib).

1. `fold_partition`: for a commutative monoid-like structure (op, e) with an action
   `step` that is a homomorphism in the sense of law L-hom, filling a whole data list
   equals combining, in any order and any parenthesisation, the results of filling
   the chunks of any partition (including empty chunks) into fresh empty aggregators.
2. finite-sum algebra used by the bookkeeping invariants (trusted step T-AX).
-/
import Mathlib.Algebra.BigOperators.Group.Finset.Basic
import Mathlib.Algebra.BigOperators.Ring.Finset
import Mathlib.Algebra.BigOperators.Finsupp.Basic
import Mathlib.Algebra.Order.Field.Rat
import Mathlib.Data.List.Basic
import Mathlib.Data.List.Perm.Basic
import Mathlib.Data.Rat.Defs

open scoped BigOperators

namespace HgvMeta

variable {M D : Type}

/-- The interface laws of DESIGN §2.4 for one aggregator type. -/
structure Laws (op : M → M → M) (e : M) (step : M → D → M) : Prop where
  id_right : ∀ a, op a e = a
  id_left : ∀ a, op e a = a
  comm : ∀ a b, op a b = op b a
  assoc : ∀ a b c, op (op a b) c = op a (op b c)
  hom : ∀ a b d, step (op a b) d = op a (step b d)

variable {op : M → M → M} {e : M} {step : M → D → M}

/-- filling a list of data, starting from `a` -/
def fillAll (step : M → D → M) (a : M) (l : List D) : M := l.foldl step a

theorem fillAll_op (h : Laws op e step) (a b : M) (l : List D) :
    fillAll step (op a b) l = op a (fillAll step b l) := by
  induction l generalizing b with
  | nil => rfl
  | cons d t ih =>
    simp only [fillAll, List.foldl_cons]
    rw [h.hom]
    exact ih (step b d)

/-- filling from `a` = `a` merged with filling from the empty aggregator -/
theorem fillAll_from (h : Laws op e step) (a : M) (l : List D) :
    fillAll step a l = op a (fillAll step e l) := by
  have := fillAll_op h a e l
  rw [h.id_right] at this
  exact this

/-- two chunks: fill(l1 ++ l2) = fill(l1) + fill(l2) -/
theorem fillAll_append (h : Laws op e step) (l1 l2 : List D) :
    fillAll step e (l1 ++ l2) = op (fillAll step e l1) (fillAll step e l2) := by
  simp only [fillAll, List.foldl_append]
  exact fillAll_from h _ l2

/-- a reduction schedule: any binary tree whose leaves are chunk indices -/
inductive Sched (n : Nat) where
  | leaf : Fin n → Sched n
  | empty : Sched n
  | node : Sched n → Sched n → Sched n

/-- evaluate a schedule over the per-chunk results -/
def Sched.eval (op : M → M → M) (e : M) {n : Nat} (r : Fin n → M) : Sched n → M
  | .leaf i => r i
  | .empty => e
  | .node s t => op (s.eval op e r) (t.eval op e r)

/-- the chunk indices used by a schedule, in leaf order -/
def Sched.leaves {n : Nat} : Sched n → List (Fin n)
  | .leaf i => [i]
  | .empty => []
  | .node s t => s.leaves ++ t.leaves

/-- combining in leaf order with a right fold -/
def combine (op : M → M → M) (e : M) (l : List M) : M := l.foldr op e

theorem combine_append (h : Laws op e step) (l1 l2 : List M) :
    combine op e (l1 ++ l2) = op (combine op e l1) (combine op e l2) := by
  induction l1 with
  | nil => simp [combine, h.id_left]
  | cons a t ih =>
    simp only [combine, List.cons_append, List.foldr_cons] at *
    rw [ih, h.assoc]

/-- any parenthesisation equals the right fold over the leaves -/
theorem eval_eq_combine (h : Laws op e step) {n : Nat} (r : Fin n → M) (s : Sched n) :
    s.eval op e r = combine op e (s.leaves.map r) := by
  induction s with
  | leaf i => simp [Sched.eval, Sched.leaves, combine, h.id_right]
  | empty => simp [Sched.eval, Sched.leaves, combine]
  | node s t ihs iht =>
    simp only [Sched.eval, Sched.leaves, List.map_append]
    rw [ihs, iht, combine_append h]

/-- the right fold is invariant under permutation (commutativity + associativity) -/
theorem combine_perm (h : Laws op e step) {l1 l2 : List M} (p : l1.Perm l2) :
    combine op e l1 = combine op e l2 := by
  induction p with
  | nil => rfl
  | cons a _ ih => simp only [combine, List.foldr_cons] at *; rw [ih]
  | swap a b l =>
    simp only [combine, List.foldr_cons]
    rw [← h.assoc, ← h.assoc, h.comm b a]
  | trans _ _ ih1 ih2 => exact ih1.trans ih2

/-- filling the concatenation of the chunks equals the right fold of the chunk results -/
theorem fill_chunks (h : Laws op e step) (chunks : List (List D)) :
    fillAll step e chunks.flatten = combine op e (chunks.map (fillAll step e)) := by
  induction chunks with
  | nil => rfl
  | cons c t ih =>
    simp only [List.flatten_cons, List.map_cons, combine, List.foldr_cons] at *
    rw [fillAll_append h, ih]

/-- **Partition invariance (C01).**  For every list of chunks (empty chunks allowed) and every reduction
schedule whose leaves are a permutation of the chunk indices (any order, any parenthesisation, extra
empty aggregators allowed), the schedule evaluates to the fill of the whole data. -/
theorem fold_partition (h : Laws op e step) (chunks : List (List D))
    (s : Sched chunks.length)
    (hp : (s.leaves.map fun i => chunks.get i).Perm chunks) :
    s.eval op e (fun i => fillAll step e (chunks.get i)) = fillAll step e chunks.flatten := by
  rw [eval_eq_combine h, fill_chunks h]
  apply combine_perm h
  have : (s.leaves.map fun i => fillAll step e (chunks.get i))
      = (s.leaves.map fun i => chunks.get i).map (fillAll step e) := by
    simp [List.map_map, Function.comp]
  rw [this]
  exact hp.map _

/-- **Order independence (C02).**  Filling a permutation of the data gives the same aggregate:
each datum is a one-element chunk. -/
theorem fill_perm (h : Laws op e step) {l1 l2 : List D} (p : l1.Perm l2) :
    fillAll step e l1 = fillAll step e l2 := by
  have key : ∀ l : List D, fillAll step e l = combine op e (l.map fun d => step e d) := by
    intro l
    induction l with
    | nil => rfl
    | cons d t ih =>
      have := fillAll_append h [d] t
      simp only [List.singleton_append] at this
      rw [this, ih]
      simp [fillAll, combine]
  rw [key l1, key l2]
  exact combine_perm h (p.map _)

/-! ### Finite-sum algebra behind the bookkeeping invariants (T-AX) -/

section sums
variable {ι : Type}

/-- sum of a pointwise sum -/
theorem sum_add (s : Finset ι) (f g : ι → ℚ) : ∑ i ∈ s, (f i + g i) = ∑ i ∈ s, f i + ∑ i ∈ s, g i :=
  Finset.sum_add_distrib

/-- sum of a scaled family -/
theorem sum_scale (s : Finset ι) (c : ℚ) (f : ι → ℚ) : ∑ i ∈ s, c * f i = c * ∑ i ∈ s, f i := by
  rw [Finset.mul_sum]

/-- sum after a point update at a member of the index set -/
theorem sum_update [DecidableEq ι] (s : Finset ι) (f : ι → ℚ) (j : ι) (hj : j ∈ s) (w : ℚ) :
    ∑ i ∈ s, (if i = j then f i + w else f i) = ∑ i ∈ s, f i + w := by
  have : ∀ i, (if i = j then f i + w else f i) = f i + (if i = j then w else 0) := by
    intro i; split <;> simp
  simp only [this, Finset.sum_add_distrib, Finset.sum_ite_eq', hj, if_true]

/-- a datum routed by selectors: when exactly one slot `j` of the index set is selected and every slot moves
by `w` iff it is selected, the total moves by `w`.  Its premises are the routing-partition lemma
(`lemma:routing-exclusive`, `lemma:routing-exhaustive`) and the pointwise view clause of `fill`. -/
theorem sum_routed [DecidableEq ι] (s : Finset ι) (f f' : ι → ℚ) (sel : ι → Prop) [DecidablePred sel] (w : ℚ)
    (j : ι) (hj : j ∈ s) (hsel : ∀ i ∈ s, (sel i ↔ i = j))
    (hf : ∀ i ∈ s, f' i = f i + (if sel i then w else 0)) :
    ∑ i ∈ s, f' i = ∑ i ∈ s, f i + w := by
  have h1 : ∀ i ∈ s, f' i = (if i = j then f i + w else f i) := by
    intro i hi
    rw [hf i hi]
    by_cases h : i = j
    · have hs : sel i := (hsel i hi).mpr h
      rw [if_pos hs, if_pos h]
    · have hs : ¬ sel i := fun hs => h ((hsel i hi).mp hs)
      rw [if_neg hs, if_neg h, add_zero]
  rw [Finset.sum_congr rfl h1]
  exact sum_update s f j hj w

/-- extensionality: pointwise equal families have equal sums -/
theorem sum_congr' (s : Finset ι) (f g : ι → ℚ) (h : ∀ i ∈ s, f i = g i) : ∑ i ∈ s, f i = ∑ i ∈ s, g i :=
  Finset.sum_congr rfl h

/-- sum over a key union of two finitely supported maps (absent = 0) -/
theorem sum_union (f g : ι →₀ ℚ) : (f + g).sum (fun _ x => x) = f.sum (fun _ x => x) + g.sum (fun _ x => x) :=
  Finsupp.sum_add_index' (fun _ => rfl) (fun _ _ _ => rfl)

end sums

end HgvMeta
